(* PrettyProofs.v -- C06 (round-trip clause): the pretty output (semicolons on, any blank indent
   unit) of a parsed program lexes and parses back, without error, to the same tree up to
   positions, after-newline flags and comments.

   Method (as RoundTripProofs.v for the compact output, generalised):
   * PrettyLex: the scanner proper copies the after-newline flag and the pending comments into
     the token without looking at them; trivia (blanks, line breaks, // comment lines) in front
     of a lexeme is skipped; cleanEmptyLines as a compositional function [rta] on texts made of
     trivia and lexemes (lexemes are not touched: literals_trim_safe).
   * PrettyWr: the pretty writer as equations on explicit states; the gap written in front of
     a token (pending layout, leading comments) is trivia.
   * PrettyJ: per construct, from any non-panicked writer state the printer appends a gap and
     a text which, trimmed and in front of any admissible continuation, lexes to tokens matched
     by the grammar against a tree of the same shape.
   * main part: every tree matched against tokens of a lexed source satisfies the invariant
     (a token that is not after a newline carries no comments: the operand of return and a
     postfix operator stay on their line); TrimSpace at both ends; parse_complete. *)
Require Import Base GoOps Token Lexer LexSpec Tree Writer PrinterLib Compile Parser Grammar
  PrintSpec CommentSpec RelexSpec TokenSpec WriterSpec.
Require Import Gen.Tables Gen.Preds Gen.Printer.
Require Import LexerProofs GrammarProofs PrintProofs WriterProofs CommentProofs RelexProofs TokenProofs C01Proofs RoundTripProofs.
From Coq Require Import ZifyBool ZifyN ZifyNat Lia.

Module PrettyLex.
(* PrettyLex.v -- lexer facts for the pretty round trip: the scanner proper copies the
   after-newline flag and the pending comments into the token without looking at them;
   trivia (blanks, line breaks, // comments) in front of a lexeme is skipped. *)

(* ================================================================== *)
(* 1. the scanner is parametric in (had_nl, comments)                  *)
(* ================================================================== *)

Definition hc (h : bool) (cs : list str) (l : lx) : lx := mklx (l_rest l) (l_line l) (l_col l) h cs.
Definition thc (h : bool) (cs : list str) (t : token) : token :=
  mktoken (t_type t) (t_lit t) (t_start t) (t_end t) h cs.

Lemma cur_hc h cs l : cur (hc h cs l) = cur l. Proof. reflexivity. Qed.
Lemma peek_hc h cs l : peek (hc h cs l) = peek l. Proof. reflexivity. Qed.
Lemma at_eof_hc h cs l : at_eof (hc h cs l) = at_eof l. Proof. reflexivity. Qed.
Lemma cur_pos_hc h cs l : cur_pos (hc h cs l) = cur_pos l. Proof. reflexivity. Qed.
Lemma rest_hc h cs l : l_rest (hc h cs l) = l_rest l. Proof. reflexivity. Qed.
Lemma ch_hc h cs c l : ch c (hc h cs l) = ch c l. Proof. reflexivity. Qed.

Lemma read_char_hc h cs l : read_char (hc h cs l) = hc h cs (read_char l).
Proof.
  destruct l as [[|c r] ln col h0 cs0]; unfold read_char, hc; cbn [l_rest l_line l_col l_had_nl l_comments];
    [reflexivity|]. destruct (N.eqb c LF); reflexivity.
Qed.

Lemma lx_read_while_hc p h cs l :
  lx_read_while p (hc h cs l) = (fst (lx_read_while p l), hc h cs (snd (lx_read_while p l))).
Proof.
  unfold lx_read_while, hc. cbn [l_rest l_line l_col l_had_nl l_comments].
  destruct (read_while p (l_rest l) (l_col l)) as [[s r] col]. reflexivity.
Qed.

Definition m3 {A B} (h : bool) (cs : list str) (x : A * B * lx) : A * B * lx :=
  let '(a, b, l) := x in (a, b, hc h cs l).
Definition m2 {A} (h : bool) (cs : list str) (x : A * lx) : A * lx :=
  let '(a, l) := x in (a, hc h cs l).

Lemma read_based_hc isd h cs l : read_based_number isd (hc h cs l) = m2 h cs (read_based_number isd l).
Proof.
  unfold read_based_number. rewrite !read_char_hc, !cur_hc, lx_read_while_hc.
  destruct (lx_read_while isd (read_char (read_char l))) as [ds l3]. reflexivity.
Qed.

Lemma read_number_hc h cs l : read_number (hc h cs l) = m3 h cs (read_number l).
Proof.
  unfold read_number. rewrite !ch_hc, !peek_hc, !read_based_hc.
  destruct (ch 48 l && ((peek l =? 120)%N || (peek l =? 88)%N)).
  { destruct (read_based_number isHexDigit l) as [s l']. reflexivity. }
  destruct (ch 48 l && ((peek l =? 98)%N || (peek l =? 66)%N)).
  { destruct (read_based_number isBinaryDigit l) as [s l']. reflexivity. }
  destruct (ch 48 l && ((peek l =? 111)%N || (peek l =? 79)%N)).
  { destruct (read_based_number isOctalDigit l) as [s l']. reflexivity. }
  rewrite lx_read_while_hc. destruct (lx_read_while isDigit l) as [ip l1]. cbn [fst snd].
  rewrite ch_hc.
  destruct (ch 46 l1).
  - rewrite read_char_hc, lx_read_while_hc. destruct (lx_read_while isDigit (read_char l1)) as [fd l2]. cbn [fst snd].
    rewrite !ch_hc. destruct (ch 101 l2 || ch 69 l2); [|reflexivity].
    rewrite !read_char_hc, !cur_hc, !ch_hc.
    destruct (ch 43 (read_char l2) || ch 45 (read_char l2)).
    + rewrite ?read_char_hc, ?cur_hc. destruct (negb (isDigit (cur (read_char (read_char l2))))); [reflexivity|].
      rewrite lx_read_while_hc. destruct (lx_read_while isDigit (read_char (read_char l2))) as [ed l5]. reflexivity.
    + rewrite ?cur_hc. destruct (negb (isDigit (cur (read_char l2)))); [reflexivity|].
      rewrite lx_read_while_hc. destruct (lx_read_while isDigit (read_char l2)) as [ed l5]. reflexivity.
  - rewrite !ch_hc. destruct (ch 101 l1 || ch 69 l1); [|reflexivity].
    rewrite !read_char_hc, !cur_hc, !ch_hc.
    destruct (ch 43 (read_char l1) || ch 45 (read_char l1)).
    + rewrite ?read_char_hc, ?cur_hc. destruct (negb (isDigit (cur (read_char (read_char l1))))); [reflexivity|].
      rewrite lx_read_while_hc. destruct (lx_read_while isDigit (read_char (read_char l1))) as [ed l5]. reflexivity.
    + rewrite ?cur_hc. destruct (negb (isDigit (cur (read_char l1)))); [reflexivity|].
      rewrite lx_read_while_hc. destruct (lx_read_while isDigit (read_char l1)) as [ed l5]. reflexivity.
Qed.

Lemma read_ubrace_hc h cs : forall f l ds, read_ubrace f (hc h cs l) ds = m3 h cs (read_ubrace f l ds).
Proof.
  induction f as [|f IH]; intros l ds; cbn [read_ubrace]; [reflexivity|].
  rewrite peek_hc, !read_char_hc, cur_hc.
  destruct (peek l =? 125)%N; [reflexivity|].
  destruct (negb (isHexDigit (peek l)) || (6 <=? length ds)%nat); [reflexivity|].
  apply IH.
Qed.

Ltac hc_norm := rewrite ?read_char_hc, ?at_eof_hc, ?cur_hc, ?peek_hc.

Ltac hc_leaf IH :=
  first [ reflexivity
        | rewrite IH; match goal with |- m3 _ _ ?x = _ => destruct x as [[? ?] ?] end; reflexivity
        | rewrite IH; reflexivity ].

Lemma read_string_loop_hc h cs : forall f d l acc,
  read_string_loop f d (hc h cs l) acc = m3 h cs (read_string_loop f d l acc).
Proof.
  induction f as [|f IH]; intros d l acc; cbn [read_string_loop]; [reflexivity|].
  repeat hc_norm.
  destruct (at_eof (read_char l)); [reflexivity|].
  destruct (cur (read_char l) =? BACKSLASH)%N.
  - destruct (at_eof (read_char (read_char l))); [reflexivity|].
    destruct (cur (read_char (read_char l)) =? 120)%N.
    { destruct (isHexDigit (peek (read_char (read_char l)))); [|apply IH].
      repeat hc_norm.
      destruct (isHexDigit (peek (read_char (read_char (read_char l))))); [|apply IH].
      destruct (mustStayEscaped _); apply IH. }
    destruct (cur (read_char (read_char l)) =? 117)%N; [|apply IH].
    destruct (peek (read_char (read_char l)) =? 123)%N.
    { rewrite read_ubrace_hc.
      destruct (read_ubrace 8 (read_char (read_char (read_char l))) []) as [[ds valid] l1]. cbn [m3].
      destruct (negb valid || (length ds =? 0)%nat || (6 <? length ds)%nat); [apply IH|].
      destruct (1114111 <? hex_value ds); [apply IH|].
      destruct (mustStayEscaped (hex_value ds)); apply IH. }
    destruct (isHexDigit (peek (read_char (read_char l)))); [|apply IH].
    repeat hc_norm.
    destruct (isHexDigit (peek (read_char (read_char (read_char l))))); [|apply IH].
    repeat hc_norm.
    destruct (isHexDigit (peek (read_char (read_char (read_char (read_char l)))))); [|apply IH].
    repeat hc_norm.
    destruct (isHexDigit (peek (read_char (read_char (read_char (read_char (read_char l))))))); [|apply IH].
    destruct (mustStayEscaped _); apply IH.
  - destruct (cur (read_char l) =? d)%N; [reflexivity|].
    destruct (cur (read_char l) =? DQUOTE)%N; apply IH.
Qed.

Lemma read_raw_loop_hc h cs : forall f l acc,
  read_raw_loop f (hc h cs l) acc = m3 h cs (read_raw_loop f l acc).
Proof.
  induction f as [|f IH]; intros l acc; cbn [read_raw_loop]; [reflexivity|].
  repeat hc_norm.
  destruct (at_eof (read_char l)); [reflexivity|].
  destruct (cur (read_char l) =? BACKSLASH)%N.
  - destruct (peek (read_char l) =? BACKTICK)%N; [apply IH|].
    destruct (at_eof (read_char (read_char l))); [reflexivity|]. apply IH.
  - destruct (cur (read_char l) =? BACKTICK)%N; [reflexivity|]. apply IH.
Qed.

Definition mt (h : bool) (cs : list str) (x : token * lx) : token * lx :=
  (thc h cs (fst x), hc h cs (snd x)).

Lemma one_char_hc h cs l ty : one_char (hc h cs l) ty = mt h cs (one_char l ty).
Proof. unfold one_char, mt. rewrite read_char_hc. reflexivity. Qed.

Lemma two_char_hc h cs l ty : two_char (hc h cs l) ty = mt h cs (two_char l ty).
Proof. unfold two_char, mt. rewrite !read_char_hc. reflexivity. Qed.

Lemma string_token_hc h cs l ty r start :
  string_token (hc h cs l) ty (m3 h cs r) start = mt h cs (string_token l ty r start).
Proof.
  destruct r as [[lit term] l']. unfold string_token, m3, mt. rewrite read_char_hc. reflexivity.
Qed.

Lemma base_next_token_hc h cs l : base_next_token (hc h cs l) = mt h cs (base_next_token l).
Proof.
  unfold base_next_token. cbv zeta. rewrite !cur_hc, !peek_hc, at_eof_hc, cur_pos_hc.
  repeat match goal with
  | |- (if ?c then _ else _) = mt _ _ (if ?c then _ else _) => destruct c
  end; try apply one_char_hc; try apply two_char_hc.
  - unfold read_string. rewrite rest_hc, read_string_loop_hc. apply string_token_hc.
  - unfold read_string. rewrite rest_hc, read_string_loop_hc. apply string_token_hc.
  - unfold read_raw_string. rewrite rest_hc, read_raw_loop_hc. apply string_token_hc.
  - unfold mt, new_token. rewrite read_char_hc. reflexivity.
  - unfold read_identifier. rewrite lx_read_while_hc.
    destruct (lx_read_while is_ident_char l) as [lit l']. reflexivity.
  - rewrite read_number_hc. destruct (read_number l) as [[lit ty] l']. reflexivity.
Qed.

(* ================================================================== *)
(* 2. trivia in front of a lexeme                                      *)
(* ================================================================== *)

Definition nolf (s : str) : bool := forallb (fun c => negb (N.eqb c LF)) s.

(* a run of blanks, line breaks and complete // comment lines *)
Inductive trv : str -> Prop :=
| trv_nil : trv []
| trv_ws c g : isWhitespace c = true -> trv g -> trv (c :: g)
| trv_cm body g : nolf body = true -> trv g -> trv (47%N :: 47%N :: body ++ LF :: g).

Lemma trv_app a b : trv a -> trv b -> trv (a ++ b).
Proof.
  induction 1 as [|c g W T IH|body g N T IH]; intro Hb; cbn [app].
  - exact Hb.
  - apply trv_ws; [exact W|apply IH; exact Hb].
  - rewrite <- app_assoc. cbn [app]. apply trv_cm; [exact N|apply IH; exact Hb].
Qed.

Lemma has_lf_app a b : has_lf (a ++ b) = has_lf a || has_lf b.
Proof. unfold has_lf. apply existsb_app. Qed.

Lemma trivia_comment_body : forall body acc r line col had cs, nolf body = true ->
  exists col', trivia (TComment acc) (body ++ LF :: r) line col had cs =
    trivia TWs r (line + 1) 0 true (cs ++ [trim_right_spaces (acc ++ body)]) /\ col' = col.
Proof.
  induction body as [|c body IH]; intros acc r line col had cs H; cbn [app trivia].
  - change (N.eqb LF LF) with true. cbn iota. rewrite app_nil_r. exists col. split; reflexivity.
  - cbn [nolf forallb] in H. apply andb_true_iff in H as [Hc Hb].
    destruct (N.eqb c LF); [discriminate Hc|].
    destruct (IH (acc ++ [c]) r line (col + 1) had cs Hb) as (col' & E & _).
    rewrite E, <- app_assoc. exists col. split; reflexivity.
Qed.

Lemma trivia_trv g : trv g -> forall X line col had cs,
  exists line' col' cs', trivia TWs (g ++ X) line col had cs = trivia TWs X line' col' (had || has_lf g) cs'.
Proof.
  induction 1 as [|c g W T IH|body g N T IH]; intros X line col had cs.
  - exists line, col, cs. cbn [app has_lf existsb]. rewrite orb_false_r. reflexivity.
  - cbn [app trivia]. rewrite W. rewrite has_lf_cons.
    destruct (N.eqb c LF) eqn:E.
    + destruct (IH X (line + 1) 0 true (cs ++ [[]])) as (l' & c' & cs' & Q). rewrite Q.
      exists l', c', cs'. cbn [orb]. rewrite orb_true_r. reflexivity.
    + destruct (IH X line (col + 1) had cs) as (l' & c' & cs' & Q). rewrite Q.
      exists l', c', cs'. cbn [orb]. reflexivity.
  - cbn [app trivia]. change (isWhitespace 47) with false. cbn iota.
    change (N.eqb 47 SLASH && N.eqb (hd 0%N (47%N :: (body ++ LF :: g) ++ X)) SLASH) with true. cbn iota.
    cbn [trivia]. rewrite <- app_assoc. cbn [app].
    destruct (trivia_comment_body body [] (g ++ X) line (col + 1 + 1) had cs N) as (_ & E & _). rewrite E.
    destruct (IH X (line + 1) 0 true (cs ++ [trim_right_spaces ([] ++ body)])) as (l' & c' & cs' & Q). rewrite Q.
    exists l', c', cs'. f_equal.
    rewrite !has_lf_cons. change (N.eqb 47 LF) with false. cbn [orb].
    rewrite has_lf_app, has_lf_cons. change (N.eqb LF LF) with true. cbn [orb].
    rewrite !orb_true_r. reflexivity.
Qed.

(* the state after the trivia has the flag of the trivia *)
Lemma rlc_gap l g X : trv g -> tstart X -> l_rest l = g ++ X ->
  exists line col cs, read_leading_comments l = mklx X line col (has_lf g) cs.
Proof.
  intros T S Hl. unfold read_leading_comments. rewrite Hl.
  destruct (trivia_trv g T X (l_line l) (l_col l) false []) as (l' & c' & cs' & Q). rewrite Q.
  cbn [orb].
  destruct X as [|x X'].
  - cbn [trivia]. exists l', c', cs'. reflexivity.
  - destruct S as [W S]. cbn [trivia]. rewrite W.
    destruct (N.eqb x SLASH && N.eqb (hd 0%N X') SLASH) eqn:E.
    + apply andb_true_iff in E as [E1 E2]. apply N.eqb_eq in E1, E2. exfalso. exact (S E1 E2).
    + exists l', c', cs'. reflexivity.
Qed.

Lemma next_token_gap l g X : trv g -> tstart X -> l_rest l = g ++ X ->
  exists l0 cs, l_rest l0 = X /\ next_token l = mt (has_lf g) cs (next_token l0).
Proof.
  intros T S Hl. destruct (rlc_gap l g X T S Hl) as (line & col & cs & R).
  exists (mklx X line col false []), cs. split; [reflexivity|].
  unfold next_token, next_token_with. rewrite R.
  rewrite (rlc_stop (mklx X line col false [])) by exact S.
  unfold clean. cbn [l_rest l_line l_col].
  change (mklx X line col (has_lf g) cs) with (hc (has_lf g) cs (mklx X line col false [])).
  apply base_next_token_hc.
Qed.

(* one token from the text [g ++ s ++ K] *)
Lemma lex1_gap s ty lit K g : lex1 s ty lit K -> tstart (s ++ K) -> trv g ->
  forall l, l_rest l = g ++ s ++ K ->
  exists t l', next_token l = (t, l') /\ t_type t = ty /\ t_lit t = lit /\ t_nl t = has_lf g /\ l_rest l' = K.
Proof.
  intros L S T l Hl.
  destruct (next_token_gap l g (s ++ K) T S Hl) as (l0 & cs & R0 & E).
  destruct (L l0 R0) as (t & l' & N & Ty & Li & _ & R).
  rewrite N in E. unfold mt in E. cbn [fst snd] in E.
  exists (thc (has_lf g) cs t), (hc (has_lf g) cs l'). split; [exact E|].
  cbn [thc t_type t_lit t_nl hc l_rest]. repeat split; assumption.
Qed.

Lemma lex1_gap_lexes s ty lit K g : lex1 s ty lit K -> tstart (s ++ K) -> trv g -> s <> [] -> ty <> T_EOF ->
  forall l, l_rest l = g ++ s ++ K ->
  exists t l', lexes l [t] l' /\ t_type t = ty /\ t_lit t = lit /\ t_nl t = has_lf g /\ l_rest l' = K.
Proof.
  intros L S T Ns Ne l Hl. destruct (lex1_gap s ty lit K g L S T l Hl) as (t & l' & N & Ty & Li & Nl & R).
  exists t, l'. split; [|repeat split; assumption].
  apply lexes_one; [exact N|congruence|].
  rewrite R, Hl, !app_length. destruct s; [congruence|cbn [length]; lia].
Qed.

(* trivia up to the end of the input: the end-of-input token *)
Inductive trv_end : str -> Prop :=
| trve_nil : trv_end []
| trve_ws c g : isWhitespace c = true -> trv_end g -> trv_end (c :: g)
| trve_cm body g : nolf body = true -> trv_end g -> trv_end (47%N :: 47%N :: body ++ LF :: g)
| trve_open body : nolf body = true -> trv_end (47%N :: 47%N :: body).

Lemma trivia_comment_open : forall body acc line col had cs, nolf body = true ->
  exists line' col' had' cs', trivia (TComment acc) body line col had cs = ([], line', col', had', cs').
Proof.
  induction body as [|c body IH]; intros acc line col had cs H; cbn [trivia].
  - do 4 eexists. reflexivity.
  - cbn [nolf forallb] in H. apply andb_true_iff in H as [Hc Hb].
    destruct (N.eqb c LF); [discriminate Hc|]. apply IH. exact Hb.
Qed.

Lemma trivia_end g : trv_end g -> forall line col had cs,
  exists line' col' had' cs', trivia TWs g line col had cs = ([], line', col', had', cs').
Proof.
  induction 1 as [|c g W T IH|body g N T IH|body N]; intros line col had cs.
  - do 4 eexists. reflexivity.
  - cbn [trivia]. rewrite W. destruct (N.eqb c LF); apply IH.
  - cbn [trivia]. change (isWhitespace 47) with false. cbn iota.
    change (N.eqb 47 SLASH && N.eqb (hd 0%N (47%N :: body ++ LF :: g)) SLASH) with true. cbn iota.
    cbn [trivia].
    destruct (trivia_comment_body body [] g line (col + 1 + 1) had cs N) as (_ & E & _). rewrite E. apply IH.
  - cbn [trivia]. change (isWhitespace 47) with false. cbn iota.
    change (N.eqb 47 SLASH && N.eqb (hd 0%N (47%N :: body)) SLASH) with true. cbn iota.
    cbn [trivia]. apply trivia_comment_open. exact N.
Qed.

Lemma next_token_end l : trv_end (l_rest l) -> t_type (fst (next_token l)) = T_EOF.
Proof.
  intro T. unfold next_token, next_token_with, read_leading_comments.
  destruct (trivia_end _ T (l_line l) (l_col l) false []) as (l' & c' & h' & cs' & E). rewrite E.
  reflexivity.
Qed.

(* ================================================================== *)
(* 3. the end-of-line trimming of cleanEmptyLines, compositionally     *)
(* ================================================================== *)

(* [rta x K]: the text x in front of the (already trimmed) text K, with every blank
   that ends up at the end of a line removed *)
Fixpoint rta (x K : str) : str :=
  match x with
  | [] => K
  | c :: x' =>
      let r := rta x' K in
      if N.eqb c 32 then
        match r with
        | [] => []
        | d :: _ => if N.eqb d LF then r else c :: r
        end
      else c :: r
  end.

Lemma rta_app a b K : rta (a ++ b) K = rta a (rta b K).
Proof. induction a as [|c a IH]; cbn [app rta]; [reflexivity|]. rewrite IH. reflexivity. Qed.

Lemma rta_nil K : rta [] K = K. Proof. reflexivity. Qed.

Lemma rta_cons c x K : rta (c :: x) K =
  if N.eqb c 32 then match rta x K with [] => [] | d :: _ => if N.eqb d LF then rta x K else c :: rta x K end
  else c :: rta x K.
Proof. reflexivity. Qed.

Lemma rta_cons_nb c x K : c <> 32%N -> rta (c :: x) K = c :: rta x K.
Proof. intro H. cbn [rta]. destruct (N.eqb_spec c 32); [contradiction|reflexivity]. Qed.

(* one line *)
Lemma rta_line_end cur : nolf cur = true -> rta cur [] = dwe (N.eqb 32) cur.
Proof.
  induction cur as [|c cur IH]; intro H; [reflexivity|].
  cbn [nolf forallb] in H. apply andb_true_iff in H as [Hc Hs]. specialize (IH Hs).
  cbn [rta dwe]. rewrite IH. rewrite (N.eqb_sym 32 c).
  destruct (N.eqb c 32) eqn:E.
  - destruct (dwe (N.eqb 32) cur) as [|d r] eqn:D; [reflexivity|].
    destruct (N.eqb d LF) eqn:F; [|reflexivity].
    exfalso. pose proof (dwe_no_lf (N.eqb 32) cur Hs) as Q. rewrite D in Q.
    unfold WriterProofs.no_lf in Q. cbn [forallb] in Q. rewrite F in Q. discriminate Q.
  - destruct (dwe (N.eqb 32) cur); reflexivity.
Qed.

Lemma rta_line_lf cur Z : nolf cur = true -> rta cur (LF :: Z) = dwe (N.eqb 32) cur ++ LF :: Z.
Proof.
  induction cur as [|c cur IH]; intro H; [reflexivity|].
  cbn [nolf forallb] in H. apply andb_true_iff in H as [Hc Hs]. specialize (IH Hs).
  cbn [rta dwe]. rewrite IH. rewrite (N.eqb_sym 32 c).
  destruct (N.eqb c 32) eqn:E.
  - destruct (dwe (N.eqb 32) cur) as [|d r] eqn:D; cbn [app].
    + change (N.eqb LF LF) with true. reflexivity.
    + destruct (N.eqb d LF) eqn:F; [|reflexivity].
      exfalso. pose proof (dwe_no_lf (N.eqb 32) cur Hs) as Q. rewrite D in Q.
      unfold WriterProofs.no_lf in Q. cbn [forallb] in Q. rewrite F in Q. discriminate Q.
  - destruct (dwe (N.eqb 32) cur); reflexivity.
Qed.

Lemma join_lines_cons l ls : ls <> [] -> join_lines (l :: ls) = l ++ LF :: join_lines ls.
Proof. destruct ls; [congruence|reflexivity]. Qed.

Lemma clean_lines_rta s : forall cur, nolf cur = true ->
  join_lines (map trim_right_sp (split_lines s cur)) = rta (cur ++ s) [].
Proof.
  induction s as [|c s IH]; intros cur H; cbn [split_lines].
  - cbn [map join_lines]. rewrite app_nil_r, trim_right_sp_dwe. symmetry. apply rta_line_end. exact H.
  - destruct (N.eqb c LF) eqn:E.
    + apply N.eqb_eq in E. subst c. cbn [map].
      rewrite join_lines_cons.
      2:{ intro Q. apply map_eq_nil in Q. exact (split_lines_nonnil s [] Q). }
      rewrite (IH [] eq_refl). cbn [app]. rewrite rta_app. cbn [rta].
      change (N.eqb LF 32) with false. cbn iota.
      rewrite (rta_line_lf cur _ H), trim_right_sp_dwe. reflexivity.
    + rewrite IH.
      * rewrite <- app_assoc. reflexivity.
      * unfold nolf in *. rewrite forallb_app, H. cbn [forallb]. rewrite E. reflexivity.
Qed.

Lemma clean_rta s : clean_empty_lines s = rta (trim_space s) [].
Proof. unfold clean_empty_lines. apply (clean_lines_rta (trim_space s) [] eq_refl). Qed.

(* ---------- lexemes are not touched ---------- *)

(* no blank in front of a line break inside, no blank at the end *)
Definition tsafe (s : str) : Prop := blank_eol_free s = true /\ last s 0%N <> 32%N.

Lemma blank_eol_free_cons c d s : blank_eol_free (c :: d :: s) = negb ((c =? 32)%N && (d =? 10)%N) && blank_eol_free (d :: s).
Proof. reflexivity. Qed.

Lemma rta_tsafe s K : tsafe s -> rta s K = s ++ K.
Proof.
  intros [B L]. induction s as [|c s IH]; [reflexivity|].
  destruct s as [|d s'].
  - cbn [last] in L. cbn [rta app]. destruct (N.eqb_spec c 32); [contradiction|reflexivity].
  - rewrite blank_eol_free_cons in B. apply andb_true_iff in B as [B1 B2].
    change (last (c :: d :: s') 0%N) with (last (d :: s') 0%N) in L.
    rewrite rta_cons, (IH B2 L). cbn [app].
    destruct (N.eqb c 32) eqn:E; [|reflexivity].
    cbn [andb negb] in B1. change LF with 10%N. destruct (N.eqb d 10); [discriminate B1|reflexivity].
Qed.

Lemma tsafe_noblank s : s <> [] -> forallb (fun c => negb (N.eqb c 32)) s = true -> tsafe s.
Proof.
  intros Ne H. split.
  - clear Ne. induction s as [|c s IH]; [reflexivity|]. cbn [forallb] in H. apply andb_true_iff in H as [Hc Hs].
    destruct s as [|d s']; [reflexivity|]. rewrite blank_eol_free_cons, (IH Hs).
    destruct (N.eqb c 32); [discriminate Hc|reflexivity].
  - induction s as [|c s IH]; [congruence|]. cbn [forallb] in H. apply andb_true_iff in H as [Hc Hs].
    destruct s as [|d s']; [cbn [last]; intro Q; subst c; discriminate Hc|].
    change (last (c :: d :: s') 0%N) with (last (d :: s') 0%N). apply IH; [discriminate|exact Hs].
Qed.

Lemma type_text_tsafe ty s : type_text ty = Some s -> tsafe s.
Proof.
  unfold type_text.
  repeat match goal with
  | |- (if ty =? ?b then _ else _) = _ -> _ =>
      destruct (Z.eqb_spec ty b) as [->|_]; [intro H; inversion H; split; [reflexivity|discriminate]|]
  end; discriminate.
Qed.

Lemma bef_app_r a b : blank_eol_free a = true -> blank_eol_free b = true ->
  hd 0%N b <> 10%N -> blank_eol_free (a ++ b) = true.
Proof.
  intros Ha Hb Hh. induction a as [|c a IH]; [exact Hb|].
  destruct a as [|d a'].
  - cbn [app]. destruct b as [|x b']; [reflexivity|]. rewrite blank_eol_free_cons, Hb.
    cbn [hd] in Hh. destruct (N.eqb_spec x 10); [contradiction|]. rewrite andb_false_r. reflexivity.
  - rewrite blank_eol_free_cons in Ha. apply andb_true_iff in Ha as [H1 H2].
    cbn [app]. rewrite blank_eol_free_cons. rewrite H1. cbn [andb]. apply IH. exact H2.
Qed.

Lemma bef_app_l a b : blank_eol_free a = true -> blank_eol_free b = true ->
  last a 0%N <> 32%N -> blank_eol_free (a ++ b) = true.
Proof.
  intros Ha Hb Hl. induction a as [|c a IH]; [exact Hb|].
  destruct a as [|d a'].
  - cbn [app]. destruct b as [|x b']; [reflexivity|]. rewrite blank_eol_free_cons, Hb.
    cbn [last] in Hl. destruct (N.eqb_spec c 32); [contradiction|]. reflexivity.
  - rewrite blank_eol_free_cons in Ha. apply andb_true_iff in Ha as [H1 H2].
    cbn [app]. rewrite blank_eol_free_cons. rewrite H1. cbn [andb]. apply IH; [exact H2|exact Hl].
Qed.

Lemma tsafe_quoted q v : q <> 32%N -> q <> 10%N -> blank_eol_free v = true -> tsafe (q :: v ++ [q]).
Proof.
  intros Q1 Q2 Hv. split.
  - change (q :: v ++ [q]) with ([q] ++ v ++ [q]). apply bef_app_l; [reflexivity| |exact Q1].
    apply bef_app_r; [exact Hv|reflexivity|exact Q2].
  - change (q :: v ++ [q]) with ((q :: v) ++ [q]). rewrite last_last. exact Q1.
Qed.

Lemma bef_rep v : blank_eol_free v = true -> blank_eol_free (rep v) = true.
Proof.
  induction v as [|c v IH]; intro H; [reflexivity|].
  assert (Hv : blank_eol_free v = true).
  { destruct v as [|d v']; [reflexivity|]. rewrite blank_eol_free_cons in H. apply andb_true_iff in H. apply H. }
  specialize (IH Hv).
  change (rep (c :: v)) with ((if N.eqb c 96 then [92; 96]%N else [c]) ++ rep v).
  destruct (N.eqb c 96) eqn:E.
  - apply bef_app_l; [reflexivity|exact IH|discriminate].
  - destruct v as [|d v']; [reflexivity|].
    rewrite blank_eol_free_cons in H. apply andb_true_iff in H as [H1 _].
    change (rep (d :: v')) with ((if N.eqb d 96 then [92; 96]%N else [d]) ++ rep v') in *.
    destruct (N.eqb d 96) eqn:E2.
    + cbn [app] in *. rewrite blank_eol_free_cons, IH. rewrite andb_false_r. reflexivity.
    + cbn [app] in *. rewrite blank_eol_free_cons, IH, H1. reflexivity.
Qed.

(* ---------- gaps are trimmed to gaps ---------- *)

Definition wsh (g : str) : Prop := match g with [] => True | c :: _ => isWhitespace c = true end.
Definition wgap (g : str) : Prop := trv g /\ wsh g.

Lemma wgap_nil : wgap []. Proof. split; [constructor|exact I]. Qed.

Lemma trv_allws g : forallb isWhitespace g = true -> trv g.
Proof.
  induction g as [|c g IH]; intro H; [constructor|]. cbn [forallb] in H. apply andb_true_iff in H as [Hc Hg].
  apply trv_ws; [exact Hc|apply IH; exact Hg].
Qed.

Lemma wgap_allws g : forallb isWhitespace g = true -> wgap g.
Proof.
  intro H. split; [apply trv_allws; exact H|]. destruct g; [exact I|]. cbn [forallb] in H.
  apply andb_true_iff in H. apply H.
Qed.

Lemma wgap_app a b : wgap a -> wgap b -> wgap (a ++ b).
Proof.
  intros [Ta Wa] [Tb Wb]. split; [apply trv_app; assumption|]. destruct a; [exact Wb|exact Wa].
Qed.

(* trimming a run of trivia in front of a text that starts with a lexeme *)
Lemma rta_trv g : trv g -> forall Z, Z <> [] -> isWhitespace (hd 0%N Z) = false ->
  exists g', rta g Z = g' ++ Z /\ trv g' /\ has_lf g' = has_lf g /\
             (g = [] -> g' = []) /\ (wsh g -> g <> [] -> exists w r, g' = w :: r /\ isWhitespace w = true).
Proof.
  induction 1 as [|c g W T IH|body g N T IH]; intros Z Nz Hz.
  - exists []. split; [reflexivity|]. split; [constructor|]. split; [reflexivity|]. split; [reflexivity|].
    intros _ Q. congruence.
  - destruct (IH Z Nz Hz) as (g' & E & T' & L' & E0 & _).
    cbn [rta]. rewrite E.
    destruct (N.eqb c 32) eqn:C32.
    + destruct (g' ++ Z) as [|d r] eqn:D.
      { destruct g'; [cbn [app] in D; congruence|discriminate D]. }
      destruct (N.eqb d LF) eqn:DL.
      * (* the blank is dropped: what follows starts with a line break, which is part of g' *)
        destruct g' as [|x g''].
        { cbn [app] in D. subst Z. cbn [hd] in Hz. apply N.eqb_eq in DL. subst d. discriminate Hz. }
        cbn [app] in D. inversion D; subst x r.
        exists (d :: g''). split; [reflexivity|]. split; [exact T'|]. split.
        { rewrite L', has_lf_cons. apply N.eqb_eq in C32. subst c. reflexivity. }
        split; [discriminate|]. intros _ _. exists d, g''. split; [reflexivity|].
        apply N.eqb_eq in DL. subst d. reflexivity.
      * exists (c :: g'). cbn [app]. rewrite D. split; [reflexivity|]. split; [apply trv_ws; assumption|].
        split; [rewrite !has_lf_cons, L'; reflexivity|]. split; [discriminate|].
        intros _ _. exists c, g'. split; [reflexivity|exact W].
    + exists (c :: g'). cbn [app]. split; [reflexivity|]. split; [apply trv_ws; assumption|].
      split; [rewrite !has_lf_cons, L'; reflexivity|]. split; [discriminate|].
      intros _ _. exists c, g'. split; [reflexivity|exact W].
  - destruct (IH Z Nz Hz) as (g' & E & T' & L' & _ & _).
    change (47%N :: 47%N :: body ++ LF :: g) with ([47%N; 47%N] ++ body ++ LF :: g).
    rewrite !rta_app. cbn [rta]. change (N.eqb 47 32) with false. cbn iota.
    change (N.eqb LF 32) with false. cbn iota. rewrite E.
    rewrite (rta_line_lf body _ N).
    exists (47%N :: 47%N :: dwe (N.eqb 32) body ++ LF :: g'). split.
    { cbn [app]. rewrite <- app_assoc. reflexivity. }
    split.
    { apply trv_cm; [|exact T']. pose proof (dwe_no_lf (N.eqb 32) body N) as Q. exact Q. }
    split.
    { rewrite !has_lf_cons. change (N.eqb 47 LF) with false. cbn [orb].
      rewrite !has_lf_app, !has_lf_cons. change (N.eqb LF LF) with true. cbn [orb].
      rewrite !orb_true_r. reflexivity. }
    split; [discriminate|]. intros Wh _. cbn [wsh] in Wh. discriminate Wh.
Qed.

(* ================================================================== *)
(* 4. one lexing step on the trimmed text                              *)
(* ================================================================== *)

Lemma ws_nz c : isWhitespace c = false -> c <> 32%N.
Proof. intros H E. subst c. discriminate H. Qed.

Lemma gap_split g body X K c : wgap g -> hd 0%N body = c -> isWhitespace c = false -> c <> 0%N ->
  exists g', rta (g ++ body ++ X) K = g' ++ rta body (rta X K) /\ trv g' /\ has_lf g' = has_lf g /\
    (g = [] -> g' = []) /\ (g <> [] -> exists w r, g' = w :: r /\ isWhitespace w = true) /\
    hd 0%N (rta body (rta X K)) = c.
Proof.
  intros [T W] Hd Hw Hz. rewrite !rta_app.
  destruct body as [|c0 body']; [cbn [hd] in Hd; congruence|]. cbn [hd] in Hd. subst c0.
  rewrite (rta_cons_nb c body' _ (ws_nz _ Hw)).
  destruct (rta_trv g T (c :: rta body' (rta X K)) ltac:(discriminate) Hw) as (g' & E & T' & L' & E0 & E1).
  exists g'. split; [exact E|]. split; [exact T'|]. split; [exact L'|]. split; [exact E0|].
  split; [intro Ne; exact (E1 W Ne)|reflexivity].
Qed.

(* a lexeme behind already trimmed trivia *)
Lemma S_lex0 s ty lit gs X K l :
  lex1 s ty lit (rta X K) -> tstart (s ++ rta X K) -> s <> [] -> ty <> T_EOF -> tsafe s ->
  trv gs -> l_rest l = gs ++ rta (s ++ X) K ->
  exists t l', lexes l [t] l' /\ t_type t = ty /\ t_lit t = lit /\ t_nl t = has_lf gs /\
               l_rest l' = rta X K.
Proof.
  intros L S Ns Ne Ts T Hl. rewrite rta_app, (rta_tsafe s _ Ts) in Hl.
  exact (lex1_gap_lexes s ty lit (rta X K) gs L S T Ns Ne l Hl).
Qed.

(* a lexeme behind a gap of the writer *)
Lemma S_lex s ty lit g X K l :
  lex1 s ty lit (rta X K) -> tstart (s ++ rta X K) -> s <> [] -> ty <> T_EOF -> tsafe s ->
  isWhitespace (hd 0%N s) = false -> hd 0%N s <> 0%N ->
  wgap g -> l_rest l = rta (g ++ s ++ X) K ->
  exists t l', lexes l [t] l' /\ t_type t = ty /\ t_lit t = lit /\ (has_lf g = false -> t_nl t = false) /\
               l_rest l' = rta X K.
Proof.
  intros L S Ns Ne Ts Hw Hz G Hl.
  destruct (gap_split g s X K _ G eq_refl Hw Hz) as (g' & E & T' & L' & _ & _ & _).
  rewrite E, <- rta_app in Hl.
  destruct (S_lex0 s ty lit g' X K l L S Ns Ne Ts T' Hl) as (t & l' & Lx & Ty & Li & Nl & R).
  exists t, l'. repeat split; try assumption. intro H. rewrite Nl, L'. exact H.
Qed.

Lemma pbnd_ws s w : isWhitespace w = true -> pbnd s w.
Proof.
  intro H. unfold pbnd. destruct s as [|x [|? ?]]; try exact I.
  unfold isWhitespace in H. repeat split; intros; lia.
Qed.

Lemma kont_ws {g} w X : isWhitespace w = true -> kont g (w :: X).
Proof. intro H. apply kont_cons; unfold isWhitespace, is_ident_char, isLetter, isDigit in *; lia. Qed.

Lemma nic_ws w : isWhitespace w = true -> is_ident_char w = false.
Proof. unfold isWhitespace, is_ident_char, isLetter, isDigit. lia. Qed.

Lemma tstart_ns s Z c : hd 0%N s = c -> s <> [] -> isWhitespace c = false -> c <> 47%N -> tstart (s ++ Z).
Proof.
  intros Hd Ns W S. destruct s as [|x s']; [congruence|]. cbn [hd] in Hd. subst x.
  cbn [app tstart]. split; [exact W|]. intro; congruence.
Qed.

(* operators and brackets *)
Lemma P_punct ty s g X K l : type_text ty = Some s -> pbnd s (hd 0%N (rta X K)) -> wgap g ->
  l_rest l = rta (g ++ s ++ X) K ->
  exists t l', lexes l [t] l' /\ t_type t = ty /\ t_lit t = s /\ (has_lf g = false -> t_nl t = false) /\
               l_rest l' = rta X K.
Proof.
  intros T P G Hl. destruct (lex1_punct _ _ (rta X K) T P) as [L _].
  assert (Hh : isWhitespace (hd 0%N s) = false /\ hd 0%N s <> 0%N).
  { revert T. unfold type_text.
    repeat match goal with
    | |- (if ty =? ?b then _ else _) = _ -> _ =>
        destruct (Z.eqb_spec ty b) as [->|_]; [intro H; inversion H; split; [reflexivity|discriminate]|]
    end; discriminate. }
  destruct Hh as [H1 H2].
  exact (S_lex s ty s g X K l L (type_text_tstart _ _ _ T P) (type_text_nonempty _ _ T) (type_text_not_eof _ _ T)
           (type_text_tsafe _ _ T) H1 H2 G Hl).
Qed.

Lemma P_punct0 ty s gs X K l : type_text ty = Some s -> pbnd s (hd 0%N (rta X K)) -> trv gs ->
  l_rest l = gs ++ rta (s ++ X) K ->
  exists t l', lexes l [t] l' /\ t_type t = ty /\ t_lit t = s /\ t_nl t = has_lf gs /\
               l_rest l' = rta X K.
Proof.
  intros T P G Hl. destruct (lex1_punct _ _ (rta X K) T P) as [L _].
  exact (S_lex0 s ty s gs X K l L (type_text_tstart _ _ _ T P) (type_text_nonempty _ _ T) (type_text_not_eof _ _ T)
           (type_text_tsafe _ _ T) G Hl).
Qed.

(* single-character punctuation that the tree does not store *)
Lemma P_char c ty g X K l : (forall Z, lex1 [c] ty [c] Z) -> ty <> T_EOF -> isWhitespace c = false ->
  c <> 47%N -> c <> 0%N -> wgap g -> l_rest l = rta (g ++ c :: X) K ->
  exists t l', lexes l [t] l' /\ t_type t = ty /\ (has_lf g = false -> t_nl t = false) /\ l_rest l' = rta X K.
Proof.
  intros L Ne W S Z G Hl.
  assert (Ts : tsafe [c]) by (split; [reflexivity|cbn; apply ws_nz; exact W]).
  destruct (S_lex [c] ty [c] g X K l (L _) (tstart_ns [c] _ c eq_refl ltac:(discriminate) W S)
              ltac:(discriminate) Ne Ts W Z G Hl) as (t & l' & Lx & Ty & _ & Nl & R).
  exists t, l'. repeat split; assumption.
Qed.

Lemma P_comma g X K l : wgap g -> l_rest l = rta (g ++ 44%N :: X) K ->
  exists t l', lexes l [t] l' /\ t_type t = T_COMMA /\ l_rest l' = rta X K.
Proof.
  intros G Hl. destruct (P_char 44 T_COMMA g X K l lex1_comma) as (t & l' & L & Ty & _ & R);
    try discriminate; try reflexivity; try assumption. eauto.
Qed.
Lemma P_semi g X K l : wgap g -> l_rest l = rta (g ++ 59%N :: X) K ->
  exists t l', lexes l [t] l' /\ t_type t = T_SEMICOLON /\ l_rest l' = rta X K.
Proof.
  intros G Hl. destruct (P_char 59 T_SEMICOLON g X K l lex1_semi) as (t & l' & L & Ty & _ & R);
    try discriminate; try reflexivity; try assumption. eauto.
Qed.
Lemma P_colon g X K l : wgap g -> l_rest l = rta (g ++ 58%N :: X) K ->
  exists t l', lexes l [t] l' /\ t_type t = T_COLON /\ l_rest l' = rta X K.
Proof.
  intros G Hl. destruct (P_char 58 T_COLON g X K l lex1_colon) as (t & l' & L & Ty & _ & R);
    try discriminate; try reflexivity; try assumption. eauto.
Qed.

(* words: keywords and names *)
Lemma word_chars ty lit : relex_word ty lit = true -> is_word_type ty = true ->
  ty <> T_INT -> ty <> T_FLOAT -> forallb is_ident_char lit = true /\ lit <> [].
Proof.
  intros H W NI NF.
  destruct (alone_word _ _ H W) as (l1 & t & l2 & Hr & Ne & B & Ty & Li & R2).
  assert (HL : isLetter (cur l1) = true).
  { destruct (isLetter (cur l1)) eqn:HL; [reflexivity|exfalso].
    destruct (isDigit (cur l1)) eqn:HD.
    - rewrite (base_digit l1 HL HD) in B. cbv zeta in B.
      destruct (read_number l1) as [[s ty'] l'] eqn:RN. inversion B; subst t.
      apply read_number_spec in RN; [|assumption|assumption].
      unfold new_token_at in Ty. cbn [t_type] in Ty. destruct RN as (_ & _ & [?|?]); congruence.
    - pose proof (base_other l1 HL HD) as O. rewrite B in O. cbn [fst] in O. congruence. }
  rewrite (base_letter l1 HL) in B. cbv zeta in B. unfold read_identifier, lx_read_while in B.
  destruct (read_while is_ident_char (l_rest l1) (l_col l1)) as [[s r] col] eqn:RW.
  inversion B; subst t l2. clear B. unfold new_token_at in Ty, Li. cbn [t_type t_lit l_rest] in *. subst s r.
  apply read_while_inv in RW as [All _]. split; [exact All|].
  intro E. unfold cur in HL. rewrite Hr, E in HL. discriminate HL.
Qed.

Lemma ident_char_nb c : is_ident_char c = true -> negb (N.eqb c 32) = true.
Proof. unfold is_ident_char, isLetter, isDigit. lia. Qed.

Lemma word_tsafe ty lit : relex_word ty lit = true -> is_word_type ty = true ->
  ty <> T_INT -> ty <> T_FLOAT -> tsafe lit.
Proof.
  intros H W NI NF. destruct (word_chars _ _ H W NI NF) as [All Ne].
  apply tsafe_noblank; [exact Ne|].
  apply forallb_forall. intros x Hx. apply ident_char_nb. exact (proj1 (forallb_forall _ _) All x Hx).
Qed.

Lemma P_word ty lit g X K l :
  relex_word ty lit = true -> is_word_type ty = true -> ty <> T_INT -> ty <> T_FLOAT ->
  is_ident_char (hd 0%N (rta X K)) = false -> wgap g -> l_rest l = rta (g ++ lit ++ X) K ->
  exists t l', lexes l [t] l' /\ t_type t = ty /\ t_lit t = lit /\ (has_lf g = false -> t_nl t = false) /\
               l_rest l' = rta X K.
Proof.
  intros H W NI NF HK G Hl.
  destruct (lex1_word _ _ (rta X K) H W NI NF HK) as (HL & L1 & _).
  destruct (word_chars _ _ H W NI NF) as [_ Ne].
  destruct (letter_facts _ HL) as (F1 & F2 & F3).
  assert (Nt : ty <> T_EOF) by (intro E; rewrite E in W; discriminate W).
  exact (S_lex lit ty lit g X K l L1 (tstart_ns lit _ _ eq_refl Ne F1 F2) Ne Nt
           (word_tsafe _ _ H W NI NF) F1 F3 G Hl).
Qed.

Lemma P_word0 ty lit gs X K l :
  relex_word ty lit = true -> is_word_type ty = true -> ty <> T_INT -> ty <> T_FLOAT ->
  is_ident_char (hd 0%N (rta X K)) = false -> trv gs -> l_rest l = gs ++ rta (lit ++ X) K ->
  exists t l', lexes l [t] l' /\ t_type t = ty /\ t_lit t = lit /\ t_nl t = has_lf gs /\
               l_rest l' = rta X K.
Proof.
  intros H W NI NF HK G Hl.
  destruct (lex1_word _ _ (rta X K) H W NI NF HK) as (HL & L1 & _).
  destruct (word_chars _ _ H W NI NF) as [_ Ne].
  destruct (letter_facts _ HL) as (F1 & F2 & F3).
  assert (Nt : ty <> T_EOF) by (intro E; rewrite E in W; discriminate W).
  exact (S_lex0 lit ty lit gs X K l L1 (tstart_ns lit _ _ eq_refl Ne F1 F2) Ne Nt
           (word_tsafe _ _ H W NI NF) G Hl).
Qed.

(* numbers *)
Lemma P_number0 ty lit gs X K l :
  relex_word ty lit = true -> (ty = T_INT \/ ty = T_FLOAT) -> (ty = T_FLOAT -> go_float_ok lit = true) ->
  tsafe lit -> is_ident_char (hd 0%N (rta X K)) = false ->
  (hd 0%N (rta X K) = 46%N -> ty <> T_INT \/ forallb isDigit lit = false) ->
  trv gs -> l_rest l = gs ++ rta (lit ++ X) K ->
  exists t l', lexes l [t] l' /\ t_type t = ty /\ t_lit t = lit /\ t_nl t = has_lf gs /\
               l_rest l' = rta X K.
Proof.
  intros H Hty Hfl Ts KK K46 G Hl.
  destruct (lex1_number _ _ (rta X K) H Hty Hfl KK K46) as (HD & L1 & _).
  destruct (digit_facts _ HD) as (F1 & F2 & F3 & _).
  assert (Ne : lit <> []) by (intro E; rewrite E in HD; discriminate HD).
  assert (Nt : ty <> T_EOF) by (destruct Hty; subst ty; discriminate).
  exact (S_lex0 lit ty lit gs X K l L1 (tstart_ns lit _ _ eq_refl Ne F1 F2) Ne Nt Ts G Hl).
Qed.

(* string literals *)
Lemma P_string0 v gs X K l : relex_string v = true -> blank_eol_free v = true ->
  trv gs -> l_rest l = gs ++ rta ((34%N :: v ++ [34%N]) ++ X) K ->
  exists t l', lexes l [t] l' /\ t_type t = T_STRING /\ t_lit t = v /\ t_nl t = has_lf gs /\
               l_rest l' = rta X K.
Proof.
  intros H B G Hl. destruct (lex1_string v (rta X K) H) as [L1 _].
  exact (S_lex0 _ T_STRING v gs X K l L1 (tstart_ns (34%N :: v ++ [34%N]) _ 34%N eq_refl ltac:(discriminate) eq_refl ltac:(discriminate))
           ltac:(discriminate) ltac:(discriminate) (tsafe_quoted 34 v ltac:(discriminate) ltac:(discriminate) B) G Hl).
Qed.

Lemma P_raw0 v gs X K l : relex_raw v = true -> blank_eol_free v = true ->
  trv gs -> l_rest l = gs ++ rta ((96%N :: rep v ++ [96%N]) ++ X) K ->
  exists t l', lexes l [t] l' /\ t_type t = T_RAW_STRING /\ t_lit t = v /\ t_nl t = has_lf gs /\
               l_rest l' = rta X K.
Proof.
  intros H B G Hl. destruct (lex1_raw v (rta X K) H) as [L1 _].
  exact (S_lex0 _ T_RAW_STRING v gs X K l L1 (tstart_ns (96%N :: rep v ++ [96%N]) _ 96%N eq_refl ltac:(discriminate) eq_refl ltac:(discriminate))
           ltac:(discriminate) ltac:(discriminate) (tsafe_quoted 96 (rep v) ltac:(discriminate) ltac:(discriminate) (bef_rep v B)) G Hl).
Qed.

(* ================================================================== *)
(* 5. TrimSpace on a text made of trivia and lexemes                   *)
(* ================================================================== *)

Lemma ws_space c : isWhitespace c = true -> is_space_go c = true.
Proof. unfold isWhitespace, is_space_go. lia. Qed.

Lemma dw_trv g : trv g -> trv (drop_while is_space_go g).
Proof.
  induction 1 as [|c g W T IH|body g N T IH]; cbn [drop_while].
  - constructor.
  - rewrite (ws_space _ W). exact IH.
  - change (is_space_go 47) with false. cbn iota. apply trv_cm; assumption.
Qed.

Lemma dw_trv_app g Z : trv g -> Z <> [] -> is_space_go (hd 0%N Z) = false ->
  drop_while is_space_go (g ++ Z) = drop_while is_space_go g ++ Z.
Proof.
  intros T Nz Hz. induction T as [|c g W T IH|body g N T IH]; cbn [app drop_while].
  - destruct Z as [|z Z']; [congruence|]. cbn [hd] in Hz. cbn [drop_while]. rewrite Hz. reflexivity.
  - rewrite (ws_space _ W). exact IH.
  - change (is_space_go 47) with false. cbn iota. reflexivity.
Qed.

Lemma dwe_app p a b : dwe p (a ++ b) = match dwe p b with [] => dwe p a | _ :: _ => a ++ dwe p b end.
Proof.
  induction a as [|c a IH]; cbn [app].
  - destruct (dwe p b); reflexivity.
  - cbn [dwe]. rewrite IH. destruct (dwe p b) as [|x r] eqn:E; [reflexivity|].
    destruct (a ++ x :: r) eqn:Q; [destruct a; discriminate Q|]. rewrite <- Q. reflexivity.
Qed.

Lemma dwe_cons p c s : dwe p (c :: s) = match dwe p s with [] => if p c then [] else [c] | _ :: _ => c :: dwe p s end.
Proof. cbn [dwe]. destruct (dwe p s); reflexivity. Qed.

Lemma dwe_last p s : s <> [] -> p (last s 0%N) = false -> dwe p s = s.
Proof.
  induction s as [|c s IH]; intros Ne H; [congruence|].
  destruct s as [|d s'].
  - cbn [last] in H. cbn [dwe]. rewrite H. reflexivity.
  - change (last (c :: d :: s') 0%N) with (last (d :: s') 0%N) in H.
    rewrite dwe_cons, (IH ltac:(discriminate) H). reflexivity.
Qed.

(* the text [g1 ++ body ++ ge]: trivia, lexemes from the first to the last, trivia *)
Lemma trim_space_shape g1 body ge : trv g1 -> body <> [] -> is_space_go (hd 0%N body) = false ->
  is_space_go (last body 0%N) = false ->
  trim_space (g1 ++ body ++ ge) = drop_while is_space_go g1 ++ body ++ dwe is_space_go ge.
Proof.
  intros T Nb Hh Hl. rewrite trim_space_dwe.
  rewrite (dw_trv_app g1 (body ++ ge) T).
  2:{ destruct body; [congruence|discriminate]. }
  2:{ destruct body; [congruence|exact Hh]. }
  assert (E : dwe is_space_go (body ++ ge) = body ++ dwe is_space_go ge).
  { rewrite dwe_app. destruct (dwe is_space_go ge) as [|x r]; [|reflexivity].
    rewrite app_nil_r. apply dwe_last; assumption. }
  rewrite dwe_app, E. destruct (body ++ dwe is_space_go ge) eqn:Q; [destruct body; [congruence|discriminate Q]|].
  reflexivity.
Qed.

(* ---------- trivia up to the end of the text ---------- *)

Lemma dw_trv_end g : trv_end g -> trv_end (drop_while is_space_go g).
Proof.
  induction 1 as [|c g W T IH|body g N T IH|body N]; cbn [drop_while].
  - constructor.
  - rewrite (ws_space _ W). exact IH.
  - change (is_space_go 47) with false. cbn iota. apply trve_cm; assumption.
  - change (is_space_go 47) with false. cbn iota. apply trve_open; assumption.
Qed.

Lemma nolf_dwe p s : nolf s = true -> nolf (dwe p s) = true.
Proof. exact (dwe_no_lf p s). Qed.

Lemma dwe_slashes p body : p 47%N = false -> dwe p (47%N :: 47%N :: body) = 47%N :: 47%N :: dwe p body.
Proof.
  intro H. rewrite (dwe_cons p 47%N (47%N :: body)), (dwe_cons p 47%N body).
  destruct (dwe p body) as [|x r]; rewrite ?H; reflexivity.
Qed.

Lemma dwe_trv_end g : trv_end g -> trv_end (dwe is_space_go g).
Proof.
  induction 1 as [|c g W T IH|body g N T IH|body N].
  - constructor.
  - rewrite dwe_cons. destruct (dwe is_space_go g) as [|x r] eqn:E.
    + rewrite (ws_space _ W). constructor.
    + apply trve_ws; assumption.
  - change (47%N :: 47%N :: body ++ LF :: g) with ((47%N :: 47%N :: body) ++ LF :: g).
    rewrite dwe_app.
    assert (Q : dwe is_space_go (LF :: g) = match dwe is_space_go g with [] => [] | x :: r => LF :: x :: r end).
    { rewrite dwe_cons. destruct (dwe is_space_go g); reflexivity. }
    rewrite Q. destruct (dwe is_space_go g) as [|x r] eqn:E.
    + rewrite dwe_slashes by reflexivity. apply trve_open. apply nolf_dwe. exact N.
    + cbn [app]. apply trve_cm; assumption.
  - rewrite dwe_slashes by reflexivity. apply trve_open. apply nolf_dwe. exact N.
Qed.

Lemma rta_trv_end g : trv_end g -> trv_end (rta g []).
Proof.
  induction 1 as [|c g W T IH|body g N T IH|body N].
  - constructor.
  - rewrite rta_cons. destruct (N.eqb c 32) eqn:E.
    + destruct (rta g []) as [|d r] eqn:Q; [constructor|].
      destruct (N.eqb d LF); [exact IH|apply trve_ws; assumption].
    + apply trve_ws; assumption.
  - change (47%N :: 47%N :: body ++ LF :: g) with ([47%N; 47%N] ++ body ++ LF :: g).
    rewrite !rta_app. cbn [rta]. change (N.eqb 47 32) with false. cbn iota. change (N.eqb LF 32) with false. cbn iota.
    rewrite (rta_line_lf body _ N). apply trve_cm; [apply nolf_dwe; exact N|exact IH].
  - change (47%N :: 47%N :: body) with ([47%N; 47%N] ++ body). rewrite rta_app. cbn [rta].
    change (N.eqb 47 32) with false. cbn iota. rewrite (rta_line_end body N). apply trve_open. apply nolf_dwe. exact N.
Qed.

Lemma trve_ws_app i g : forallb isWhitespace i = true -> trv_end g -> trv_end (i ++ g).
Proof.
  induction i as [|c i IH]; intros H T; [exact T|]. cbn [forallb] in H. apply andb_true_iff in H as [Hc Hi].
  cbn [app]. apply trve_ws; [exact Hc|apply IH; assumption].
Qed.

(* the comments in front of the end-of-input token *)
Lemma render_trv_end i : forallb isWhitespace i = true ->
  forall cs, Forall (fun c => nolf c = true) cs ->
  trv_end (render_comments i false cs) /\
  (render_comments i false cs = [] \/ exists r, render_comments i false cs = LF :: r /\ trv_end r).
Proof.
  intros Hi. induction 1 as [|c cs Hc Hcs IH].
  - split; [constructor|left; reflexivity].
  - destruct IH as [IH1 IH2]. cbn [render_comments]. cbv zeta.
    assert (Q : trv_end (i ++ (match c with [] => [] | _ :: _ => [47%N; 47%N] ++ c end) ++ render_comments i false cs)).
    { apply trve_ws_app; [exact Hi|].
      destruct c as [|c0 c']; [exact IH1|].
      destruct IH2 as [E|(r & E & Tr)]; rewrite E.
      - rewrite app_nil_r. apply (trve_open (c0 :: c')). exact Hc.
      - cbn [app]. apply (trve_cm (c0 :: c') r); assumption. }
    split.
    + cbn [app]. apply trve_ws; [reflexivity|exact Q].
    + right. eexists. split; [reflexivity|exact Q].
Qed.

Lemma render_first_trv_end i cs : forallb isWhitespace i = true -> Forall (fun c => nolf c = true) cs ->
  trv_end (render_comments i true cs).
Proof.
  intros Hi F. destruct cs as [|c cs]; [constructor|]. inversion F as [|? ? Hc Hcs]; subst.
  destruct (render_trv_end i Hi cs Hcs) as [IH1 IH2].
  cbn [render_comments]. cbv zeta. destruct c as [|c0 c'].
  - exact IH1.
  - cbn [app]. apply trve_ws; [reflexivity|].
    destruct IH2 as [E|(r & E & Tr)]; rewrite E.
    + rewrite app_nil_r. apply (trve_open (c0 :: c')). exact Hc.
    + apply (trve_cm (c0 :: c') r); assumption.
Qed.

(* the end-of-input token has an empty literal *)
Lemma next_token_eof_lit l : t_type (fst (next_token l)) = T_EOF -> t_lit (fst (next_token l)) = [].
Proof.
  unfold next_token, next_token_with. set (l1 := read_leading_comments l). intro H.
  destruct (at_eof l1) eqn:A.
  - rewrite (base_next_token_eof l1 A). reflexivity.
  - destruct (base_next_token_P l1 A) as (x & _ & _ & Ne & _). contradiction.
Qed.

End PrettyLex.
Import PrettyLex.

Module PrettyWr.
(* PrettyWr.v -- the pretty writer (semicolons on, no source map) as equations on explicit states *)

Section PrettyWriter.
Variable indent : str.
Hypothesis indent_blank : blank_str indent.

Definition pc : wcfg := mkwcfg true indent true false.
Definition ps (b : str) (pd : list N) (lv : Z) (mp : SourceMap.mapper) : wstate := mkwstate b pd lv mp false.
Definition prun (st : wstate) (ops : list wop) : wstate := fold_left (wstep pc) ops st.

Lemma prun_app st a b : prun st (a ++ b) = prun (prun st a) b.
Proof. apply fold_left_app. Qed.
Lemma prun_cons st o a : prun st (o :: a) = prun (wstep pc st o) a.
Proof. reflexivity. Qed.
Lemma prun_nil st : prun st [] = st.
Proof. reflexivity. Qed.

(* the indentation text at a level, and the text of a list of pendings *)
Definition ind (lv : Z) : str := indent_text pc lv.
Definition fl (pd : list N) (lv : Z) : str :=
  flat_map (fun c => if N.eqb c TAB then ind lv else [c]) pd.

Lemma flush_fold_ps q : forall b pd0 lv mp,
  fold_left (fun s c => if N.eqb c TAB then write_indent pc s else write_raw pc s [c]) q (ps b pd0 lv mp)
  = ps (b ++ fl q lv) pd0 lv mp.
Proof.
  induction q as [|c q IH]; intros b pd0 lv mp; cbn [fold_left fl flat_map].
  - rewrite app_nil_r. reflexivity.
  - fold (fl q lv).
    assert (E : (if N.eqb c TAB then write_indent pc (ps b pd0 lv mp) else write_raw pc (ps b pd0 lv mp) [c])
                = ps (b ++ (if N.eqb c TAB then ind lv else [c])) pd0 lv mp).
    { destruct (N.eqb c TAB); reflexivity. }
    rewrite E, IH, <- app_assoc. reflexivity.
Qed.

Lemma flush_ps b pd lv mp : flush_pending pc (ps b pd lv mp) = ps (b ++ fl pd lv) [] lv mp.
Proof.
  unfold flush_pending. cbn [ps w_pend]. fold (ps b pd lv mp). rewrite flush_fold_ps. reflexivity.
Qed.

Definition rc (cs : list str) (lv : Z) : str := render_comments (ind lv) true cs.

Definition add_pend (pd : list N) (c : N) : list N := if last_is pd c then pd else pd ++ [c].

Lemma pt_string b pd lv mp s : wstep pc (ps b pd lv mp) (WString s) = ps (b ++ fl pd lv ++ s) [] lv mp.
Proof.
  unfold wstep. cbn [ps w_panic]. fold (ps b pd lv mp). unfold write_string. rewrite flush_ps.
  unfold write_raw, ps. cbn [w_buf w_pend w_level w_mapper w_panic map_adv_string pc w_map].
  rewrite <- app_assoc. reflexivity.
Qed.

Lemma wr_rune b pd lv mp c : write_rune pc (ps b pd lv mp) c = ps (b ++ fl pd lv ++ [c]) [] lv mp.
Proof.
  unfold write_rune. rewrite flush_ps.
  unfold ps. cbn [w_buf w_pend w_level w_mapper w_panic pc w_map].
  rewrite <- app_assoc. reflexivity.
Qed.

Lemma pt_rune b pd lv mp c : wstep pc (ps b pd lv mp) (WRune c) = ps (b ++ fl pd lv ++ [c]) [] lv mp.
Proof. unfold wstep. cbn [ps w_panic]. fold (ps b pd lv mp). apply wr_rune. Qed.

Lemma pt_semi b pd lv mp : wstep pc (ps b pd lv mp) WSemi = ps (b ++ fl pd lv ++ [59%N]) [] lv mp.
Proof. rewrite <- pt_rune. reflexivity. Qed.

Lemma pt_space b pd lv mp : wstep pc (ps b pd lv mp) WSpace = ps b (add_pend pd 32) lv mp.
Proof.
  unfold wstep, add_pend. cbn [ps w_panic pc w_pretty negb w_pend].
  destruct (last_is pd 32); reflexivity.
Qed.

Lemma pt_newline b pd lv mp : wstep pc (ps b pd lv mp) WNewline = ps b [LF] lv mp.
Proof. reflexivity. Qed.

Lemma pt_indent b pd lv mp : wstep pc (ps b pd lv mp) WIndent = ps b (add_pend pd TAB) lv mp.
Proof.
  unfold wstep, add_pend. cbn [ps w_panic pc w_pretty negb w_pend].
  destruct (last_is pd TAB); reflexivity.
Qed.

Lemma pt_inc b pd lv mp : wstep pc (ps b pd lv mp) WIncIndent = ps b pd (lv + 1) mp.
Proof. reflexivity. Qed.

Lemma pt_dec b pd lv mp : 0 <= lv -> wstep pc (ps b pd (lv + 1) mp) WDecIndent = ps b pd lv mp.
Proof.
  intro H. unfold wstep. cbn [ps w_panic pc w_pretty negb w_level].
  destruct (Z.ltb_spec 0 (lv + 1)); [|lia]. replace (lv + 1 - 1) with lv by lia. reflexivity.
Qed.

Lemma pt_comments_nil b pd lv mp : wstep pc (ps b pd lv mp) (WComments []) = ps b pd lv mp.
Proof. reflexivity. Qed.

Lemma pt_comments b pd lv mp cs : cs <> [] ->
  wstep pc (ps b pd lv mp) (WComments cs) = ps (b ++ rc cs lv) [LF; TAB] lv mp.
Proof.
  intro H. destruct cs as [|c cs]; [congruence|].
  unfold wstep. cbn [ps w_panic pc w_pretty negb]. fold pc. fold (ps b pd lv mp).
  destruct (write_comment_items_spec pc (c :: cs) (ps b pd lv mp) true) as (Hb & Hq & Hl & Hx).
  assert (Hm : forall cs0 st first, w_mapper (write_comment_items pc st first cs0) = w_mapper st).
  { induction cs0 as [|c0 cs0 IH]; intros st first; [reflexivity|].
    cbn [write_comment_items]. rewrite IH. unfold write_raw, write_indent.
    destruct first; destruct c0; reflexivity. }
  unfold set_pend. rewrite Hb, Hl, Hx, Hm. reflexivity.
Qed.

Lemma pt_mapping b pd lv mp p : wstep pc (ps b pd lv mp) (WMapping p) = ps (b ++ fl pd lv) [] lv mp.
Proof. unfold wstep. cbn [ps w_panic]. fold (ps b pd lv mp). rewrite flush_ps. reflexivity. Qed.

Lemma pt_named b pd lv mp x y n : wstep pc (ps b pd lv mp) (WNamedMapping x y n) = ps (b ++ fl pd lv) [] lv mp.
Proof. unfold wstep. cbn [ps w_panic]. fold (ps b pd lv mp). rewrite flush_ps. reflexivity. Qed.

Lemma pt_fusion b pd lv mp op : wstep pc (ps b pd lv mp) (WAvoidFusion op) =
  ps ((b ++ fl pd lv) ++ spf op (b ++ fl pd lv)) [] lv mp.
Proof.
  unfold wstep. cbn [ps w_panic]. fold (ps b pd lv mp). rewrite flush_ps.
  unfold spf. cbn [ps w_buf].
  destruct op as [|c op']; [rewrite app_nil_r; reflexivity|].
  destruct (rev (b ++ fl pd lv)) as [|last rb]; [rewrite app_nil_r; reflexivity|].
  destruct (((N.eqb c 43 || N.eqb c 45) && N.eqb last c)
            || (str_eqb (c :: op') [45; 45]%N && has_suffix (b ++ fl pd lv) [60; 33]%N)).
  - fold (ps (b ++ fl pd lv) [] lv mp). rewrite wr_rune. cbn [fl flat_map app]. reflexivity.
  - rewrite app_nil_r. reflexivity.
Qed.

(* ---------- gaps written in front of a token ---------- *)

Definition pend_ok (pd : list N) : Prop := Forall (fun c => c = LF \/ c = TAB \/ c = 32%N) pd.

Lemma pend_ok_nil : pend_ok []. Proof. constructor. Qed.
Lemma pend_ok_add pd c : pend_ok pd -> (c = LF \/ c = TAB \/ c = 32%N) -> pend_ok (add_pend pd c).
Proof.
  intros H Hc. unfold add_pend. destruct (last_is pd c); [exact H|].
  apply Forall_app. split; [exact H|constructor; [exact Hc|constructor]].
Qed.
Lemma pend_ok_lf : pend_ok [LF]. Proof. constructor; [auto|constructor]. Qed.
Lemma pend_ok_lftab : pend_ok [LF; TAB]. Proof. constructor; [auto|constructor; [auto|constructor]]. Qed.

Lemma blank_ws c : is_blank c = true -> isWhitespace c = true.
Proof. unfold is_blank, isWhitespace. lia. Qed.

Lemma ind_blank lv : blank_str (ind lv).
Proof.
  unfold ind, indent_text. cbn [pc w_indent]. apply blank_repeat_app.
  destruct indent; [reflexivity|exact indent_blank].
Qed.

Lemma ind_ws lv : forallb isWhitespace (ind lv) = true.
Proof.
  pose proof (ind_blank lv) as Q. unfold blank_str in Q.
  apply forallb_forall. intros x Hx. apply blank_ws. exact (proj1 (forallb_forall _ _) Q x Hx).
Qed.

Lemma ind_nolf lv : has_lf (ind lv) = false.
Proof.
  pose proof (ind_blank lv) as B. unfold has_lf.
  unfold blank_str in B. induction (ind lv) as [|c r IH]; [reflexivity|].
  cbn [forallb existsb] in *. apply andb_true_iff in B as [Bc Br]. rewrite (IH Br), orb_false_r.
  unfold is_blank in Bc. unfold LF. lia.
Qed.

Lemma fl_ws pd lv : pend_ok pd -> forallb isWhitespace (fl pd lv) = true.
Proof.
  induction 1 as [|c pd Hc Hp IH]; [reflexivity|].
  cbn [fl flat_map]. fold (fl pd lv). rewrite forallb_app, IH, andb_true_r.
  destruct (N.eqb c TAB) eqn:E; [apply ind_ws|].
  destruct Hc as [Q | [Q | Q]]; subst c; reflexivity || discriminate E.
Qed.

Lemma fl_nolf pd lv : ~ In LF pd -> has_lf (fl pd lv) = false.
Proof.
  induction pd as [|c pd IH]; intro H; [reflexivity|].
  cbn [fl flat_map]. fold (fl pd lv). rewrite has_lf_app, IH by (intro Q; apply H; right; exact Q).
  rewrite orb_false_r. destruct (N.eqb c TAB); [apply ind_nolf|].
  unfold has_lf. cbn [existsb]. rewrite orb_false_r. apply N.eqb_neq. intro Q. apply H. left. symmetry. exact Q.
Qed.

Lemma fl_nil lv : fl [] lv = []. Proof. reflexivity. Qed.
Lemma fl_lftab lv : fl [LF; TAB] lv = LF :: ind lv.
Proof. cbn [fl flat_map]. change (N.eqb LF TAB) with false. change (N.eqb TAB TAB) with true. cbn iota. cbn [app]. rewrite app_nil_r. reflexivity. Qed.

(* comment lines followed by a line break *)
Lemma render_trv i tail : forallb isWhitespace i = true -> trv tail ->
  forall cs, Forall (fun c => nolf c = true) cs ->
  trv (render_comments i false cs ++ LF :: tail) /\
  exists r, render_comments i false cs ++ LF :: tail = LF :: r /\ trv r.
Proof.
  intros Hi Ht. induction 1 as [|c cs Hc Hcs IH].
  - cbn [render_comments app]. split; [apply trv_ws; [reflexivity|exact Ht]|]. exists tail. split; [reflexivity|exact Ht].
  - destruct IH as [IH1 (r & E & Tr)].
    assert (EQ : render_comments i false (c :: cs) ++ LF :: tail =
                 LF :: i ++ (match c with [] => [] | _ :: _ => [47%N; 47%N] ++ c end) ++ render_comments i false cs ++ LF :: tail).
    { cbn [render_comments]. cbv zeta. cbn [app]. rewrite <- !app_assoc. reflexivity. }
    rewrite EQ.
    assert (Q : trv (i ++ (match c with [] => [] | _ :: _ => [47%N; 47%N] ++ c end) ++ render_comments i false cs ++ LF :: tail)).
    { apply trv_app; [apply trv_allws; exact Hi|].
      destruct c as [|c0 c']; [exact IH1|]. rewrite E. cbn [app]. apply (trv_cm (c0 :: c') r); assumption. }
    split; [apply trv_ws; [reflexivity|exact Q]|]. eexists. split; [reflexivity|exact Q].
Qed.

Lemma rc_gap2 cs lv lv2 : cs <> [] -> Forall (fun c => nolf c = true) cs -> wgap (rc cs lv ++ LF :: ind lv2).
Proof.
  intros Ne F. destruct cs as [|c cs]; [congruence|]. inversion F as [|? ? Hc Hcs]; subst.
  assert (Ti : trv (ind lv2)) by (apply trv_allws; apply ind_ws).
  destruct (render_trv (ind lv) (ind lv2) (ind_ws lv) Ti cs Hcs) as [T1 (r & E & Tr)].
  unfold rc. cbn [render_comments]. cbv zeta. rewrite <- !app_assoc.
  destruct c as [|c0 c'].
  - cbn [app]. split; [exact T1|]. rewrite E. reflexivity.
  - rewrite E. cbn [app]. split; [|reflexivity]. apply trv_ws; [reflexivity|]. apply (trv_cm (c0 :: c') r); assumption.
Qed.

Lemma rc_gap cs lv : cs <> [] -> Forall (fun c => nolf c = true) cs -> wgap (rc cs lv ++ LF :: ind lv).
Proof. apply rc_gap2. Qed.

(* the gap in front of a closing bracket: comments at the inner level, the bracket at the outer *)
Definition Gc (lv : Z) (cs : list str) : str :=
  match cs with [] => [] | _ => rc cs (lv + 1) ++ LF :: ind lv end.

Lemma Gc_gap lv cs : Forall (fun c => nolf c = true) cs -> wgap (Gc lv cs).
Proof.
  intro F. unfold Gc. destruct cs as [|c cs'] eqn:E; [apply wgap_nil|].
  apply rc_gap2; [discriminate|exact F].
Qed.

Definition G (pd : list N) (lv : Z) (cs : list str) : str :=
  match cs with [] => fl pd lv | _ => rc cs lv ++ LF :: ind lv end.

Lemma G_gap pd lv cs : pend_ok pd -> Forall (fun c => nolf c = true) cs -> wgap (G pd lv cs).
Proof.
  intros Hp Hc. unfold G. destruct cs as [|c cs'] eqn:E.
  - apply wgap_allws. apply fl_ws. exact Hp.
  - apply rc_gap; [discriminate|exact Hc].
Qed.

Lemma G_nolf pd lv cs : ~ In LF pd -> cs = [] -> has_lf (G pd lv cs) = false.
Proof. intros H ->. apply fl_nolf. exact H. Qed.

Lemma G_nil pd lv cs : G pd lv cs = [] -> cs = [] /\ fl pd lv = [].
Proof. unfold G. destruct cs; [auto|]. intro H. apply app_eq_nil in H as [_ H]. discriminate H. Qed.

(* WComments; WMapping: the gap in front of a token *)
Lemma pt_lead b pd lv mp cs : wstep pc (wstep pc (ps b pd lv mp) (WComments cs)) (WMapping (mkpos 0 0))
  = ps (b ++ G pd lv cs) [] lv mp.
Proof.
  destruct cs as [|c cs'].
  - rewrite pt_comments_nil, pt_mapping. reflexivity.
  - rewrite pt_comments by discriminate. rewrite pt_mapping, fl_lftab, <- app_assoc. reflexivity.
Qed.

Lemma pt_mapping_any b pd lv mp p : wstep pc (ps b pd lv mp) (WMapping p) = ps (b ++ fl pd lv) [] lv mp.
Proof. apply pt_mapping. Qed.

Lemma prun_lead b pd lv mp cs p rest :
  prun (ps b pd lv mp) (WComments cs :: WMapping p :: rest) = prun (ps (b ++ G pd lv cs) [] lv mp) rest.
Proof.
  rewrite !prun_cons. f_equal.
  destruct cs as [|c cs'].
  - rewrite pt_comments_nil, pt_mapping. reflexivity.
  - rewrite pt_comments by discriminate. rewrite pt_mapping, fl_lftab, <- app_assoc. reflexivity.
Qed.

Lemma prun_lead_named b pd lv mp cs x y n rest :
  prun (ps b pd lv mp) (WComments cs :: WNamedMapping x y n :: rest) = prun (ps (b ++ G pd lv cs) [] lv mp) rest.
Proof.
  rewrite !prun_cons. f_equal.
  destruct cs as [|c cs'].
  - rewrite pt_comments_nil, pt_named. reflexivity.
  - rewrite pt_comments by discriminate. rewrite pt_named, fl_lftab, <- app_assoc. reflexivity.
Qed.

(* writing on a state without pendings *)
Lemma prun_string b lv mp s rest : prun (ps b [] lv mp) (WString s :: rest) = prun (ps (b ++ s) [] lv mp) rest.
Proof. rewrite prun_cons, pt_string. reflexivity. Qed.
Lemma prun_rune b lv mp c rest : prun (ps b [] lv mp) (WRune c :: rest) = prun (ps (b ++ [c]) [] lv mp) rest.
Proof. rewrite prun_cons, pt_rune. reflexivity. Qed.

Lemma prun_close b lv mp cs c rest : 0 <= lv ->
  prun (ps b [] (lv + 1) mp) (WComments cs :: WDecIndent :: WRune c :: rest) = prun (ps (b ++ Gc lv cs ++ [c]) [] lv mp) rest.
Proof.
  intro H. rewrite !prun_cons. f_equal. destruct cs as [|c0 cs'].
  - rewrite pt_comments_nil, pt_dec by exact H. rewrite pt_rune. reflexivity.
  - rewrite pt_comments by discriminate. rewrite pt_dec by exact H. rewrite pt_rune, fl_lftab.
    unfold Gc. rewrite <- !app_assoc. reflexivity.
Qed.

Lemma prun_fusion b pd lv mp cs op rest :
  prun (ps b pd lv mp) (WComments cs :: WAvoidFusion op :: rest) =
  prun (ps ((b ++ G pd lv cs) ++ spf op (b ++ G pd lv cs)) [] lv mp) rest.
Proof.
  rewrite !prun_cons. f_equal. destruct cs as [|c0 cs'].
  - rewrite pt_comments_nil, pt_fusion. reflexivity.
  - rewrite pt_comments by discriminate. rewrite pt_fusion, fl_lftab. unfold G.
    rewrite <- (app_assoc b). reflexivity.
Qed.

Lemma prun_block_close b pd lv mp cs rest : 0 <= lv ->
  prun (ps b pd (lv + 1) mp) (WDecIndent :: WNewline :: WComments cs :: WIndent :: WRune 125%N :: rest) =
  prun (ps (b ++ G [LF; TAB] lv cs ++ [125%N]) [] lv mp) rest.
Proof.
  intro H. rewrite !prun_cons. f_equal. rewrite pt_dec by exact H. rewrite pt_newline.
  destruct cs as [|c0 cs'].
  - rewrite pt_comments_nil, pt_indent, pt_rune. reflexivity.
  - rewrite pt_comments by discriminate. rewrite pt_indent, pt_rune.
    change (add_pend [LF; TAB] TAB) with [LF; TAB]. unfold G. rewrite fl_lftab, <- !app_assoc. reflexivity.
Qed.

End PrettyWriter.

End PrettyWr.
Import PrettyWr.

Module PrettyJ.
(* PrettyJ.v -- the per-construct invariant of the pretty round trip *)

Section PrettyJ.
Variable indent : str.
Hypothesis indent_blank : blank_str indent.

Local Notation pc := (PrettyWr.pc indent).
Local Notation prun := (PrettyWr.prun indent).
Local Notation ind := (PrettyWr.ind indent).
Local Notation fl := (PrettyWr.fl indent).
Local Notation rc := (PrettyWr.rc indent).
Local Notation G := (PrettyWr.G indent).
Local Notation Gc := (PrettyWr.Gc indent).

Definition NLF (cs : list str) : Prop := Forall (fun c => nolf c = true) cs.

(* ================================================================== *)
(* 1. what follows a lexeme                                            *)
(* ================================================================== *)

(* the first byte of an expression: as in the compact proof, and no space byte of any kind *)
Definition ost (c : N) : Prop := RoundTripProofs.ost c /\ is_space_go c = false.

Lemma ost_ws c : ost c -> isWhitespace c = false.
Proof. intros [[_ H] _]. exact H. Qed.
Lemma ost_nz c : ost c -> c <> 0%N.
Proof. intros [[(_ & _ & H) _] _]. exact H. Qed.
Lemma ost_nsp c : ost c -> is_space_go c = false.
Proof. intros [_ H]. exact H. Qed.

Lemma letter_ost c : isLetter c = true -> ost c.
Proof.
  intro H. split; [split; [apply letter_ostart; exact H|apply letter_ws; exact H]|].
  unfold isLetter in H. unfold is_space_go. lia.
Qed.
Lemma digit_ost c : isDigit c = true -> ost c.
Proof.
  intro H. split; [split; [apply digit_ostart; exact H|apply digit_ws; exact H]|].
  unfold isDigit in H. unfold is_space_go. lia.
Qed.

(* first character of a statement / an expression: not a blank, not the end *)
Definition sst (c : N) : Prop := isWhitespace c = false /\ c <> 0%N.
Lemma ost_sst c : ost c -> sst c.
Proof. intro H. split; [apply ost_ws; exact H|apply ost_nz; exact H]. Qed.
Lemma letter_sst c : isLetter c = true -> sst c.
Proof. intro H. apply ost_sst. apply letter_ost. exact H. Qed.

Lemma hd_rta_gap g body X K c : wgap g -> hd 0%N body = c -> sst c ->
  (g <> [] /\ isWhitespace (hd 0%N (rta (g ++ body ++ X) K)) = true) \/
  (g = [] /\ hd 0%N (rta (g ++ body ++ X) K) = c).
Proof.
  intros Gg Hd [Os1 Os2].
  destruct (gap_split g body X K c Gg Hd Os1 Os2) as (g' & E & _ & _ & E0 & E1 & Hc).
  rewrite E. destruct g as [|x g0].
  - right. split; [reflexivity|]. rewrite (E0 eq_refl). exact Hc.
  - left. split; [discriminate|]. destruct (E1 ltac:(discriminate)) as (w & r & -> & Hw). exact Hw.
Qed.

Lemma pbnd_gap b s g body X K c : wgap g -> hd 0%N body = c -> ost c ->
  (g = [] -> nofuse (b ++ s) c) -> pbnd s (hd 0%N (rta (g ++ body ++ X) K)).
Proof.
  intros Gg Hd Os NF.
  destruct (hd_rta_gap g body X K c Gg Hd (ost_sst _ Os)) as [[_ W]|[E ->]]; [apply pbnd_ws; exact W|].
  specialize (NF E). destruct Os as [[(O1 & O2 & O3) _] _]. unfold pbnd. destruct s as [|x [|? ?]]; try exact I.
  unfold nofuse in NF. rewrite last_last in NF.
  repeat split; intros; subst; try assumption; intro; subst; apply NF; auto.
Qed.

Lemma kont_gap {ge} g body X K c : wgap g -> hd 0%N body = c -> sst c ->
  (g = [] -> is_ident_char c = false /\ c <> 46%N) -> kont ge (rta (g ++ body ++ X) K).
Proof.
  intros Gg Hd [Os1 Os2] NF.
  destruct (gap_split g body X K c Gg Hd Os1 Os2) as (g' & E & _ & _ & E0 & E1 & Hc).
  rewrite E. destruct g as [|x g0].
  - rewrite (E0 eq_refl). cbn [app]. destruct (NF eq_refl) as [N1 N2].
    destruct (rta body (rta X K)) as [|y r]; [apply kont_nil|]. cbn [hd] in Hc. subst y. apply kont_cons; assumption.
  - destruct (E1 ltac:(discriminate)) as (w & r & -> & Hw). apply kont_ws. exact Hw.
Qed.

Lemma nic_gap g body X K c : wgap g -> hd 0%N body = c -> sst c ->
  (g = [] -> is_ident_char c = false) -> is_ident_char (hd 0%N (rta (g ++ body ++ X) K)) = false.
Proof.
  intros Gg Hd Os NF.
  destruct (hd_rta_gap g body X K c Gg Hd Os) as [[_ W]|[E ->]]; [apply nic_ws; exact W|exact (NF E)].
Qed.

(* ================================================================== *)
(* 2. the invariant for expressions                                    *)
(* ================================================================== *)

(* lexing the (trimmed) text of an expression behind any trivia *)
Definition LxE (body : str) (e : expr) (fty : Z) : Prop :=
  forall K, kont e K -> forall gs l, trv gs -> l_rest l = gs ++ rta body K ->
    exists e' ts l', lexes l ts l' /\ l_rest l' = K /\
      (forall R, m_expr e' (ts ++ R) = Some R) /\ shape_expr e' = shape_expr e /\
      exists t0 ts0, ts = t0 :: ts0 /\ t_type t0 = fty /\ t_nl t0 = has_lf gs.

Definition PJ (ops : list wop) (e : expr) (c : N) (fty : Z) (lead : list str) : Prop :=
  forall b pd lv mp, 0 <= lv -> pend_ok pd ->
  exists g body,
    prun (ps b pd lv mp) ops = ps (b ++ g ++ body) [] lv mp /\
    wgap g /\ (g = [] -> nofuse b c) /\ (~ In LF pd -> lead = [] -> has_lf g = false) /\
    hd 0%N body = c /\ LxE body e fty.

(* the same behind a gap of the writer, followed by more text *)
Lemma LxE_gap g body e fty c X K l : LxE body e fty -> wgap g -> hd 0%N body = c -> ost c ->
  kont e (rta X K) -> l_rest l = rta (g ++ body ++ X) K ->
  exists e' ts l', lexes l ts l' /\ l_rest l' = rta X K /\
    (forall R, m_expr e' (ts ++ R) = Some R) /\ shape_expr e' = shape_expr e /\
    exists t0 ts0, ts = t0 :: ts0 /\ t_type t0 = fty /\ (has_lf g = false -> t_nl t0 = false).
Proof.
  intros Lx Gg Hd Os HK Hl.
  destruct (gap_split g body X K c Gg Hd (ost_ws _ Os) (ost_nz _ Os)) as (g' & E & T' & L' & _ & _ & _).
  rewrite E in Hl.
  destruct (Lx (rta X K) HK g' l T' Hl) as (e' & ts & l' & L & R & M & S & t0 & ts0 & Ets & Ty & Nl).
  exists e', ts, l'. repeat split; try assumption. exists t0, ts0. repeat split; try assumption.
  intro H. rewrite Nl, L'. exact H.
Qed.

Lemma fl_sp lv : fl [32%N] lv = [32%N]. Proof. reflexivity. Qed.

Lemma pend_ok_sp : pend_ok [32%N]. Proof. constructor; [auto|constructor]. Qed.

Lemma G_sp_ne lv cs : G [32%N] lv cs <> [].
Proof. unfold PrettyWr.G. destruct cs; [discriminate|]. intro H. apply app_eq_nil in H as [_ H]. discriminate H. Qed.

Lemma notin_nil : ~ In LF (@nil N). Proof. intros []. Qed.
Lemma notin_sp : ~ In LF [32%N]. Proof. intros [H|[]]. discriminate H. Qed.

(* a single token: [WComments cs; WMapping p; ... w] *)
Lemma PJ_atom ops cs w ty lit e c (mk : token -> expr) :
  (forall b pd lv mp, prun (ps b pd lv mp) ops = ps (b ++ G pd lv cs ++ w) [] lv mp) -> NLF cs ->
  (forall K, kont e K -> forall gs l, trv gs -> l_rest l = gs ++ rta w K ->
     exists t l', lexes l [t] l' /\ t_type t = ty /\ t_lit t = lit /\ t_nl t = has_lf gs /\ l_rest l' = K) ->
  hd 0%N w = c -> c <> 43%N -> c <> 45%N ->
  (forall t', t_type t' = ty -> t_lit t' = lit ->
     (forall R, m_expr (mk t') (t' :: R) = Some R) /\ shape_expr (mk t') = shape_expr e) ->
  PJ ops e c ty cs.
Proof.
  intros W Hcs L Hc C1 C2 M b pd lv mp Hlv Hpd. exists (G pd lv cs), w. split; [apply W|].
  split; [apply G_gap; assumption|].
  split; [intros _; apply nofuse_other; assumption|].
  split; [intros H1 H2; apply G_nolf; assumption|]. split; [exact Hc|].
  intros K HK gs l Tg Hl.
  destruct (L K HK gs l Tg Hl) as (t & l' & Lx & Ty & Li & Nl & R).
  destruct (M t Ty Li) as [M1 M2].
  exists (mk t), [t], l'. split; [exact Lx|]. split; [exact R|]. split; [exact M1|]. split; [exact M2|].
  exists t, []. repeat split; assumption.
Qed.

Definition PE (e : expr) (lead : list str) : Prop :=
  exists c, ost c /\ PJ (write_expr e) e c (first_type e) lead.

Lemma add_pend_nil c : add_pend [] c = [c]. Proof. reflexivity. Qed.
Lemma prun_cons_ps b pd lv mp o a : prun (ps b pd lv mp) (o :: a) = prun (wstep pc (ps b pd lv mp) o) a.
Proof. reflexivity. Qed.

Ltac pstep :=
  match goal with
  | |- context [PrettyWr.prun _ (ps ?b ?pd ?lv ?mp) (?o :: ?a)] =>
      lazymatch o with
      | WDecIndent => fail
      | WComments [] => rewrite (prun_cons_ps b pd lv mp o a)
      | WComments _ => fail
      | _ => rewrite (prun_cons_ps b pd lv mp o a)
      end
  end.

Ltac psimp :=
  repeat first [ rewrite pt_string | rewrite pt_rune | rewrite pt_semi | rewrite pt_space | rewrite pt_newline
               | rewrite pt_indent | rewrite pt_inc | rewrite pt_comments_nil | rewrite pt_mapping | rewrite pt_named
               | rewrite fl_nil | rewrite fl_sp | rewrite add_pend_nil
               | rewrite prun_lead | rewrite prun_lead_named | rewrite prun_nil | rewrite prun_app
               | pstep ].

Lemma P_ident i cs : ident_lexical i = true -> t_comments (id_tok i) = cs -> NLF cs -> PE (EIdent i) cs.
Proof.
  unfold ident_lexical. intros H Ecs Hcs. apply andb_true_iff in H as [H H3]. apply andb_true_iff in H as [H1 H2].
  apply Z.eqb_eq in H1. apply str_eqb_spec in H2.
  destruct (lex1_word _ _ [] H3 eq_refl ltac:(discriminate) ltac:(discriminate) eq_refl) as (HL & _).
  destruct (letter_ostart _ HL) as (Os & C1 & C2).
  exists (hd 0%N (id_value i)). split; [exact (letter_ost _ HL)|].
  cbn [write_expr first_type]. rewrite H1.
  apply (PJ_atom _ cs (id_value i) T_IDENT (id_value i) _ _ (fun t' => EIdent (mkident t' (id_value i)))).
  - intros b pd lv mp. unfold write_ident. rewrite Ecs. psimp. rewrite <- app_assoc. reflexivity.
  - exact Hcs.
  - intros K [HK _] gs l Tg Hl. rewrite <- (app_nil_r (id_value i)) in Hl.
    exact (P_word0 _ _ gs [] K l H3 eq_refl ltac:(discriminate) ltac:(discriminate) HK Tg Hl).
  - reflexivity.
  - exact C1.
  - exact C2.
  - intros t' Ty Li. split.
    + intro R. cbn [m_expr]. unfold m_ident, ident_ok. cbn [id_tok id_value]. rewrite Ty, Li, str_eqb_refl.
      change (T_IDENT =? T_IDENT) with true. cbn [andb]. apply eat_tok_refl.
    + unfold shape_expr. cbn [tmap_expr]. unfold tmap_ident. cbn [id_tok id_value].
      rewrite (norm_eq t' (id_tok i)) by congruence. reflexivity.
Qed.

(* numbers do not end in a blank *)
Lemma digits_value_last base : forall ds acc v, digits_value base ds acc = Some v -> ds <> [] -> last ds 0%N <> 32%N.
Proof.
  induction ds as [|c ds IH]; intros acc v H Ne; [congruence|].
  cbn [digits_value] in H. destruct (digit_val c) as [d|] eqn:D; [|discriminate H].
  destruct (d <? base); [|discriminate H].
  destruct ds as [|c2 ds'].
  - cbn [last]. intro E. subst c. discriminate D.
  - change (last (c :: c2 :: ds') 0%N) with (last (c2 :: ds') 0%N). eapply IH; [exact H|discriminate].
Qed.

Lemma in_range_some ov : int_in_range ov = true -> exists v, ov = Some v.
Proof. destruct ov; [eauto|discriminate]. Qed.

Lemma go_int_last lit : go_int_ok lit = true -> last lit 0%N <> 32%N.
Proof.
  unfold go_int_ok. intro H.
  assert (D : forall base ds, ds <> [] -> int_in_range (digits_value base ds 0) = true -> last ds 0%N <> 32%N).
  { intros base ds Ne Q. destruct (in_range_some _ Q) as [v E]. exact (digits_value_last base ds 0 v E Ne). }
  destruct lit as [|a [|c ds]]; [discriminate H| |].
  - destruct (N.eqb_spec a 48).
    + subst a. cbn [last]. discriminate.
    + assert (Q : int_in_range (digits_value 10 [a] 0) = true) by (destruct a as [|p]; [exact H|]; repeat (destruct p as [p|p|]; try exact H)).
      exact (D 10 [a] ltac:(discriminate) Q).
  - assert (Hl : forall x, last (x :: c :: ds) 0%N = last (c :: ds) 0%N) by reflexivity.
    destruct (N.eqb_spec a 48) as [->|Na].
    + rewrite Hl.
      destruct (N.eqb c 120 || N.eqb c 88).
      { destruct ds as [|d ds']; [discriminate H|]. change (last (c :: d :: ds') 0%N) with (last (d :: ds') 0%N).
        exact (D 16 (d :: ds') ltac:(discriminate) H). }
      destruct (N.eqb c 98 || N.eqb c 66).
      { destruct ds as [|d ds']; [discriminate H|]. change (last (c :: d :: ds') 0%N) with (last (d :: ds') 0%N).
        exact (D 2 (d :: ds') ltac:(discriminate) H). }
      destruct (N.eqb c 111 || N.eqb c 79).
      { destruct ds as [|d ds']; [discriminate H|]. change (last (c :: d :: ds') 0%N) with (last (d :: ds') 0%N).
        exact (D 8 (d :: ds') ltac:(discriminate) H). }
      exact (D 8 (c :: ds) ltac:(discriminate) H).
    + assert (Q : int_in_range (digits_value 10 (a :: c :: ds) 0) = true).
      { destruct a as [|p]; [exact H|]. repeat (destruct p as [p|p|]; try exact H). congruence. }
      exact (D 10 (a :: c :: ds) ltac:(discriminate) Q).
Qed.

Lemma digit_not_blank c : isDigit c = true -> c <> 32%N.
Proof. unfold isDigit. lia. Qed.

Lemma float_last_nb lit : go_float_ok lit = true -> last lit 0%N <> 32%N.
Proof.
  intro H. destruct (go_float_last _ H) as [D|D]; [apply digit_not_blank; exact D|rewrite D; discriminate].
Qed.

Lemma P_int t cs : (t_type t =? T_INT) && relex_word T_INT (t_lit t) && go_int_ok (t_lit t) = true ->
  blank_eol_free (t_lit t) = true -> t_comments t = cs -> NLF cs -> PE (EInt t) cs.
Proof.
  intros H Bf Ecs Hcs. apply andb_true_iff in H as [H H3]. apply andb_true_iff in H as [H1 H2]. apply Z.eqb_eq in H1.
  destruct (lex1_number _ _ [] H2 (or_introl eq_refl) ltac:(discriminate) eq_refl ltac:(intro Q; discriminate Q)) as (HD & _).
  destruct (digit_ostart _ HD) as (Os & C1 & C2).
  exists (hd 0%N (t_lit t)). split; [exact (digit_ost _ HD)|].
  cbn [write_expr first_type]. rewrite H1.
  apply (PJ_atom _ cs (t_lit t) T_INT (t_lit t) _ _ (fun t' => EInt t')).
  - intros b pd lv mp. rewrite Ecs. psimp. rewrite <- app_assoc. reflexivity.
  - exact Hcs.
  - intros K [HK1 HK2] gs l Tg Hl. rewrite <- (app_nil_r (t_lit t)) in Hl.
    assert (K46 : hd 0%N (rta [] K) = 46%N -> T_INT <> T_INT \/ forallb isDigit (t_lit t) = false).
    { intro Q. right. apply dot_ok_int. exact (HK2 Q). }
    exact (P_number0 _ _ gs [] K l H2 (or_introl eq_refl) ltac:(discriminate) (conj Bf (go_int_last _ H3))
             HK1 K46 Tg Hl).
  - reflexivity.
  - exact C1.
  - exact C2.
  - intros t' Ty Li. split.
    + intro R. cbn [m_expr]. rewrite Ty, Li, H3. change (T_INT =? T_INT) with true. cbn [andb]. apply eat_tok_refl.
    + cbn [shape_expr tmap_expr]. f_equal. apply norm_eq; congruence.
Qed.

Lemma P_float t cs : (t_type t =? T_FLOAT) && relex_word T_FLOAT (t_lit t) && go_float_ok (t_lit t) = true ->
  blank_eol_free (t_lit t) = true -> t_comments t = cs -> NLF cs -> PE (EFloat t) cs.
Proof.
  intros H Bf Ecs Hcs. apply andb_true_iff in H as [H H3]. apply andb_true_iff in H as [H1 H2]. apply Z.eqb_eq in H1.
  destruct (lex1_number _ _ [] H2 (or_intror eq_refl) (fun _ => H3) eq_refl ltac:(intro Q; discriminate Q)) as (HD & _).
  destruct (digit_ostart _ HD) as (Os & C1 & C2).
  exists (hd 0%N (t_lit t)). split; [exact (digit_ost _ HD)|].
  cbn [write_expr first_type]. rewrite H1.
  apply (PJ_atom _ cs (t_lit t) T_FLOAT (t_lit t) _ _ (fun t' => EFloat t')).
  - intros b pd lv mp. rewrite Ecs. psimp. rewrite <- app_assoc. reflexivity.
  - exact Hcs.
  - intros K [HK1 _] gs l Tg Hl. rewrite <- (app_nil_r (t_lit t)) in Hl.
    assert (K46 : hd 0%N (rta [] K) = 46%N -> T_FLOAT <> T_INT \/ forallb isDigit (t_lit t) = false).
    { intros _. left. discriminate. }
    exact (P_number0 _ _ gs [] K l H2 (or_intror eq_refl) (fun _ => H3)
             (conj Bf (float_last_nb _ H3)) HK1 K46 Tg Hl).
  - reflexivity.
  - exact C1.
  - exact C2.
  - intros t' Ty Li. split.
    + intro R. cbn [m_expr]. rewrite Ty, Li, H3. change (T_FLOAT =? T_FLOAT) with true. cbn [andb]. apply eat_tok_refl.
    + cbn [shape_expr tmap_expr]. f_equal. apply norm_eq; congruence.
Qed.

Lemma P_bool t b cs : lexical (EBool t b) = true -> t_comments t = cs -> NLF cs -> PE (EBool t b) cs.
Proof.
  cbn [lexical]. intros H Ecs Hcs. apply andb_true_iff in H as [H1 H2].
  assert (Ty : (t_type t = T_TRUE /\ b = true) \/ (t_type t = T_FALSE /\ b = false)).
  { destruct b; cbn [negb] in H1; rewrite ?andb_true_r, ?andb_false_r, ?orb_false_r in H1; cbn [orb] in H1;
      apply Z.eqb_eq in H1; auto. }
  assert (W : is_word_type (t_type t) = true /\ t_type t <> T_INT /\ t_type t <> T_FLOAT /\ t_type t <> T_EOF).
  { destruct Ty as [[-> _]|[-> _]]; repeat split; discriminate. }
  destruct W as (W1 & W2 & W3 & W4).
  destruct (lex1_word _ _ [] H2 W1 W2 W3 eq_refl) as (HL & _).
  destruct (letter_ostart _ HL) as (Os & C1 & C2).
  exists (hd 0%N (t_lit t)). split; [exact (letter_ost _ HL)|].
  cbn [write_expr first_type].
  apply (PJ_atom _ cs (t_lit t) (t_type t) (t_lit t) _ _ (fun t' => EBool t' b)).
  - intros b0 pd lv mp. rewrite Ecs. psimp. rewrite <- app_assoc. reflexivity.
  - exact Hcs.
  - intros K [HK _] gs l Tg Hl. rewrite <- (app_nil_r (t_lit t)) in Hl.
    exact (P_word0 _ _ gs [] K l H2 W1 W2 W3 HK Tg Hl).
  - reflexivity.
  - exact C1.
  - exact C2.
  - intros t' Ty' Li. split.
    + intro R. cbn [m_expr]. rewrite Ty'.
      destruct Ty as [[-> ->]|[-> ->]]; cbn; apply eat_tok_refl.
    + cbn [shape_expr tmap_expr]. f_equal. apply norm_eq; congruence.
Qed.

Definition kw_null : str := [110; 117; 108; 108]%N.

Lemma P_null t cs : lexical (ENull t) = true -> t_comments t = cs -> NLF cs -> PE (ENull t) cs.
Proof.
  cbn [lexical]. intros H Ecs Hcs. apply andb_true_iff in H as [H1 H2]. apply Z.eqb_eq in H1. apply str_eqb_spec in H2.
  exists 110%N. split; [split; [split; [repeat split; discriminate|reflexivity]|reflexivity]|].
  cbn [write_expr first_type]. rewrite H1.
  apply (PJ_atom _ cs kw_null T_NULL kw_null _ _ (fun t' => ENull t')).
  - intros b0 pd lv mp. rewrite Ecs. psimp. rewrite <- app_assoc. reflexivity.
  - exact Hcs.
  - intros K [HK _] gs l Tg Hl. rewrite <- (app_nil_r kw_null) in Hl.
    exact (P_word0 _ _ gs [] K l relex_null eq_refl ltac:(discriminate) ltac:(discriminate) HK Tg Hl).
  - reflexivity.
  - discriminate.
  - discriminate.
  - intros t' Ty' Li. split.
    + intro R. cbn [m_expr]. rewrite Ty'. change (T_NULL =? T_NULL) with true. cbn iota. apply eat_tok_refl.
    + cbn [shape_expr tmap_expr]. f_equal. apply norm_eq; [congruence|]. rewrite Li. symmetry. exact H2.
Qed.

Lemma P_string t v cs : lexical (EString t v) = true -> blank_eol_free v = true ->
  t_comments t = cs -> NLF cs -> PE (EString t v) cs.
Proof.
  cbn [lexical]. intros H Bf Ecs Hcs. apply andb_true_iff in H as [H H3]. apply andb_true_iff in H as [H1 H2].
  apply Z.eqb_eq in H1. apply str_eqb_spec in H2.
  exists 34%N. split; [split; [split; [repeat split; discriminate|reflexivity]|reflexivity]|].
  cbn [write_expr first_type]. rewrite H1.
  apply (PJ_atom _ cs (34%N :: v ++ [34%N]) T_STRING v _ _ (fun t' => EString t' v)).
  - intros b0 pd lv mp. rewrite Ecs. psimp. rewrite <- !app_assoc. reflexivity.
  - exact Hcs.
  - intros K _ gs l Tg Hl. rewrite <- (app_nil_r (34%N :: v ++ [34%N])) in Hl.
    exact (P_string0 v gs [] K l H3 Bf Tg Hl).
  - reflexivity.
  - discriminate.
  - discriminate.
  - intros t' Ty' Li. split.
    + intro R. cbn [m_expr]. rewrite Ty', Li, str_eqb_refl. change (T_STRING =? T_STRING) with true. cbn [andb]. apply eat_tok_refl.
    + cbn [shape_expr tmap_expr]. f_equal. apply norm_eq; congruence.
Qed.

Lemma P_raw t v cs : lexical (ERaw t v) = true -> blank_eol_free v = true ->
  t_comments t = cs -> NLF cs -> PE (ERaw t v) cs.
Proof.
  cbn [lexical]. intros H Bf Ecs Hcs. apply andb_true_iff in H as [H H3]. apply andb_true_iff in H as [H1 H2].
  apply Z.eqb_eq in H1. apply str_eqb_spec in H2.
  exists 96%N. split; [split; [split; [repeat split; discriminate|reflexivity]|reflexivity]|].
  cbn [write_expr first_type]. rewrite H1.
  apply (PJ_atom _ cs (96%N :: rep v ++ [96%N]) T_RAW_STRING v _ _ (fun t' => ERaw t' v)).
  - intros b0 pd lv mp. rewrite Ecs. psimp. rewrite replace_all_rep, <- !app_assoc. reflexivity.
  - exact Hcs.
  - intros K _ gs l Tg Hl. rewrite <- (app_nil_r (96%N :: rep v ++ [96%N])) in Hl.
    exact (P_raw0 v gs [] K l H3 Bf Tg Hl).
  - reflexivity.
  - discriminate.
  - discriminate.
  - intros t' Ty' Li. split.
    + intro R. cbn [m_expr]. rewrite Ty', Li, str_eqb_refl. change (T_RAW_STRING =? T_RAW_STRING) with true. cbn [andb]. apply eat_tok_refl.
    + cbn [shape_expr tmap_expr]. f_equal. apply norm_eq; congruence.
Qed.

(* ================================================================== *)
(* 3. composite expressions                                            *)
(* ================================================================== *)

Lemma ost_ostart' c : ost c -> ostart c. Proof. intros [[H _] _]. exact H. Qed.

Lemma hd_app_ost (body rest : str) c : ost c -> hd 0%N body = c -> hd 0%N (body ++ rest) = c.
Proof. intros Os Hd. rewrite (hd_app_ne _ _ (ostart_ne _ _ (ost_ostart' _ Os) Hd)). exact Hd. Qed.

(* text that starts with an operator behind a non-empty gap *)
Lemma kont_gap_ne {ge} g s X K : wgap g -> g <> [] -> s <> [] -> isWhitespace (hd 0%N s) = false -> hd 0%N s <> 0%N ->
  kont ge (rta (g ++ s ++ X) K).
Proof.
  intros Gg Ne Ns W Z.
  destruct (gap_split g s X K _ Gg eq_refl W Z) as (g' & E & _ & _ & _ & E1 & _).
  rewrite E. destruct (E1 Ne) as (w & r & -> & Hw). apply kont_ws. exact Hw.
Qed.

Lemma type_text_hd ty s : type_text ty = Some s -> isWhitespace (hd 0%N s) = false /\ hd 0%N s <> 0%N.
Proof.
  unfold type_text.
  repeat match goal with
  | |- (if ty =? ?b then _ else _) = _ -> _ =>
      destruct (Z.eqb_spec ty b) as [->|_]; [intro H; inversion H; split; [reflexivity|discriminate]|]
  end; discriminate.
Qed.

Lemma PJ_infix opsL gL cL tyL leadL mid cs s ty opsR gR cR tyR leadR t (mk : token -> expr -> expr -> expr) :
  PJ opsL gL cL tyL leadL -> PJ opsR gR cR tyR leadR -> ost cL -> ost cR ->
  (forall b lv mp, prun (ps b [] lv mp) mid = ps (b ++ G [32%N] lv cs ++ s) [32%N] lv mp) -> NLF cs ->
  type_text ty = Some s -> t_type t = ty -> t_lit t = s ->
  (forall t' eL eR tsL tsR R, t_type t' = ty -> t_lit t' = s ->
     (forall R, m_expr eL (tsL ++ R) = Some R) -> (forall R, m_expr eR (tsR ++ R) = Some R) ->
     m_expr (mk t' eL eR) (tsL ++ t' :: tsR ++ R) = Some R) ->
  (forall t' eL eR, shape_expr (mk t' eL eR) = mk (norm_tok t') (shape_expr eL) (shape_expr eR)) ->
  dot_ok (mk t gL gR) = false ->
  PJ (opsL ++ mid ++ opsR) (mk t gL gR) cL tyL leadL.
Proof.
  intros JL JR OsL OsR Wm Hcs T Ty Li M S DK b pd lv mp Hlv Hpd.
  destruct (JL b pd lv mp Hlv Hpd) as (g & body & W & Gg & Gn & Gl & Hd & Lx).
  set (gm := G [32%N] lv cs).
  assert (Ggm : wgap gm) by (apply G_gap; [exact indent_blank|exact pend_ok_sp|exact Hcs]).
  destruct (JR ((b ++ g ++ body) ++ gm ++ s) [32%N] lv mp Hlv pend_ok_sp) as (g2 & body2 & W2 & Gg2 & Gn2 & _ & Hd2 & Lx2).
  exists g, (body ++ gm ++ s ++ g2 ++ body2). split.
  { rewrite !prun_app, W, Wm. fold gm. rewrite W2. f_equal. rewrite <- !app_assoc. reflexivity. }
  split; [exact Gg|]. split; [exact Gn|]. split; [exact Gl|].
  split; [apply hd_app_ost; assumption|].
  intros K HK gs l Tg Hl. rewrite rta_app in Hl.
  destruct (type_text_hd _ _ T) as [Hs1 Hs2].
  destruct (Lx (rta (gm ++ s ++ g2 ++ body2) K)
              (kont_gap_ne gm s _ K Ggm (G_sp_ne lv cs) (type_text_nonempty _ _ T) Hs1 Hs2) gs l Tg Hl)
    as (eL & tsL & l1 & L1 & R1 & ML & SL & t0 & ts0 & E0 & Ty0 & Nl0).
  assert (PB : pbnd s (hd 0%N (rta (g2 ++ body2) K))).
  { rewrite <- (app_nil_r body2). apply (pbnd_gap ((b ++ g ++ body) ++ gm) s g2 body2 [] K cR Gg2 Hd2 OsR).
    intro E. rewrite <- app_assoc. exact (Gn2 E). }
  destruct (P_punct ty s gm (g2 ++ body2) K l1 T PB Ggm R1) as (t' & l2 & L2 & Ty' & Li' & _ & R2).
  rewrite <- (app_nil_r body2) in R2.
  destruct (LxE_gap g2 body2 gR tyR cR [] K l2 Lx2 Gg2 Hd2 OsR (kont_sub _ _ _ HK DK) R2)
    as (eR & tsR & l3 & L3 & R3 & MR & SR & _).
  exists (mk t' eL eR), (tsL ++ [t'] ++ tsR), l3.
  split; [eapply lexes_app; [exact L1|eapply lexes_app; eassumption]|]. split; [exact R3|].
  split; [|split].
  - intro R. rewrite <- !app_assoc. cbn [app]. apply M; assumption.
  - rewrite !S, SL, SR. f_equal. apply norm_eq; congruence.
  - exists t0, (ts0 ++ [t'] ++ tsR). subst tsL. repeat split; assumption.
Qed.

Lemma P_binary t l op r lv pl pr ll lr :
  binop_level (t_type t) = Some lv -> type_text (t_type t) = Some (t_lit t) -> op = t_lit t ->
  prec_opt l = Some pl -> (pl <? lv) = false -> prec_opt r = Some pr -> (pr <=? lv) = false ->
  NLF (t_comments t) -> PE l ll -> PE r lr -> PE (EBinary t l op r) ll.
Proof.
  intros Hb TT -> Pl Cl Pr Cr Hcs (cl & Ol & Jl) (cr & Or & Jr).
  exists cl. split; [exact Ol|].
  cbn [write_expr prec_opt first_type]. rewrite Pl, Pr, (binop_prec _ _ Hb), Cl, Cr.
  match goal with |- PJ ?ops _ _ _ _ =>
    replace ops with (write_expr l ++
                      [WSpace; WComments (t_comments t); WMapping (t_start t); WString (t_lit t); WSpace] ++
                      write_expr r)
      by (cbn [app]; rewrite !app_nil_r; reflexivity)
  end.
  apply (PJ_infix _ _ _ _ _ _ (t_comments t) (t_lit t) (t_type t) _ _ cr (first_type r) lr t
           (fun t' a b => EBinary t' a (t_lit t) b)).
  - exact Jl.
  - exact Jr.
  - exact Ol.
  - exact Or.
  - intros b0 lv0 mp. psimp. rewrite <- ?app_assoc. reflexivity.
  - exact Hcs.
  - exact TT.
  - reflexivity.
  - reflexivity.
  - intros t' eL eR tsL tsR R Ty' Li' ML MR. cbn [m_expr]. rewrite Ty', Hb, Li', str_eqb_refl. cbn [negb].
    rewrite ML, eat_tok_refl. apply MR.
  - reflexivity.
  - reflexivity.
Qed.

Lemma P_assign t l v ll lv0 : t_type t = T_ASSIGN -> t_lit t = [61%N] -> NLF (t_comments t) ->
  PE l ll -> PE v lv0 -> PE (EAssign t l v) ll.
Proof.
  intros Ty Li Hcs (cl & Ol & Jl) (cv & Ov & Jv).
  exists cl. split; [exact Ol|].
  cbn [write_expr first_type].
  match goal with |- PJ ?ops _ _ _ _ =>
    replace ops with (write_expr l ++
                      [WSpace; WComments (t_comments t); WMapping (t_start t); WRune 61%N; WSpace] ++
                      write_expr v)
      by (rewrite app_nil_r; reflexivity)
  end.
  apply (PJ_infix _ _ _ _ _ _ (t_comments t) [61%N] T_ASSIGN _ _ cv (first_type v) lv0 t (fun t' a b => EAssign t' a b)).
  - exact Jl.
  - exact Jv.
  - exact Ol.
  - exact Ov.
  - intros b0 lv1 mp. psimp. rewrite <- ?app_assoc. reflexivity.
  - exact Hcs.
  - reflexivity.
  - exact Ty.
  - exact Li.
  - intros t' eL eR tsL tsR R Ty' Li' ML MR. cbn [m_expr]. rewrite Ty'.
    change (T_ASSIGN =? T_ASSIGN) with true. cbn [negb].
    rewrite ML, eat_tok_refl. apply MR.
  - reflexivity.
  - reflexivity.
Qed.

Lemma P_compound t l op v ty ll lv0 :
  (ty = T_PLUS_ASSIGN \/ ty = T_MINUS_ASSIGN) -> t_type t = ty ->
  type_text ty = Some (op ++ [61%N]) -> t_lit t = op ++ [61%N] ->
  (if ty =? T_PLUS_ASSIGN then Some [43%N] else if ty =? T_MINUS_ASSIGN then Some [45%N] else None) = Some op ->
  NLF (t_comments t) -> PE l ll -> PE v lv0 -> PE (ECompound t l op v) ll.
Proof.
  intros Hty Ty TT Li Want Hcs (cl & Ol & Jl) (cv & Ov & Jv).
  exists cl. split; [exact Ol|].
  cbn [write_expr first_type].
  match goal with |- PJ ?ops _ _ _ _ =>
    replace ops with (write_expr l ++
                      [WSpace; WComments (t_comments t); WMapping (t_start t); WString op; WRune 61%N; WSpace] ++
                      write_expr v)
      by (rewrite app_nil_r; reflexivity)
  end.
  apply (PJ_infix _ _ _ _ _ _ (t_comments t) (op ++ [61%N]) ty _ _ cv (first_type v) lv0 t (fun t' a b => ECompound t' a op b)).
  - exact Jl.
  - exact Jv.
  - exact Ol.
  - exact Ov.
  - intros b0 lv1 mp. psimp. rewrite <- ?app_assoc. reflexivity.
  - exact Hcs.
  - exact TT.
  - exact Ty.
  - exact Li.
  - intros t' eL eR tsL tsR R Ty' Li' ML MR. cbn [m_expr]. rewrite Ty', Want, str_eqb_refl. cbn [negb].
    rewrite ML, eat_tok_refl. apply MR.
  - reflexivity.
  - reflexivity.
Qed.

Lemma kont_gap_char {ge} g c X K : wgap g -> isWhitespace c = false -> c <> 0%N ->
  is_ident_char c = false -> c <> 46%N -> kont ge (rta (g ++ c :: X) K).
Proof.
  intros Gg W Z N1 N2.
  destruct (gap_split g [c] X K c Gg eq_refl W Z) as (g' & E & _ & _ & E0 & E1 & Hc).
  change (g ++ c :: X) with (g ++ [c] ++ X). rewrite E. destruct g as [|x g0].
  - rewrite (E0 eq_refl). cbn [app]. rewrite (rta_cons_nb c [] _ (ws_nz _ W)). apply kont_cons; assumption.
  - destruct (E1 ltac:(discriminate)) as (w & r & -> & Hw). apply kont_ws. exact Hw.
Qed.

Lemma P_group lp e rp le : punct lp T_LPAREN = true -> punct rp T_RPAREN = true ->
  NLF (t_comments lp) -> NLF (t_comments rp) -> PE e le -> PE (EGroup lp e rp) (t_comments lp).
Proof.
  intros Hl1 Hl2 Hc1 Hc2 (c & Oe & Je).
  exists 40%N. split; [split; [split; [repeat split; discriminate|reflexivity]|reflexivity]|].
  cbn [write_expr first_type].
  destruct (punct_inv _ _ Hl1) as [Ty1 TT1]. rewrite type_text_lparen in TT1. inversion TT1 as [Li1].
  destruct (punct_inv _ _ Hl2) as [Ty2 TT2]. rewrite type_text_rparen in TT2. inversion TT2 as [Li2].
  rewrite Ty1.
  intros b pd lv mp Hlv Hpd.
  destruct (Je ((b ++ G pd lv (t_comments lp)) ++ [40%N]) [] (lv + 1) mp ltac:(lia) pend_ok_nil)
    as (g2 & body2 & W2 & Gg2 & Gn2 & _ & Hd2 & Lx2).
  set (gc := Gc lv (t_comments rp)).
  assert (Ggc : wgap gc) by (apply Gc_gap; [exact indent_blank|exact Hc2]).
  exists (G pd lv (t_comments lp)), (40%N :: g2 ++ body2 ++ gc ++ [41%N]). split.
  { psimp. cbn [app]. rewrite W2. rewrite prun_close by exact Hlv. rewrite prun_nil. fold gc.
    f_equal. rewrite <- !app_assoc. reflexivity. }
  split; [apply G_gap; assumption|].
  split; [intros _; apply nofuse_other; discriminate|].
  split; [intros H1 H2; apply G_nolf; assumption|]. split; [reflexivity|].
  intros K HK gs l Tg Hl.
  change (40%N :: g2 ++ body2 ++ gc ++ [41%N]) with ([40%N] ++ g2 ++ body2 ++ gc ++ [41%N]) in Hl.
  destruct (P_punct0 T_LPAREN [40%N] gs _ K l type_text_lparen ltac:(pfree) Tg Hl)
    as (t1 & l1 & L1 & T1 & I1 & N1 & R1).
  assert (KK : forall g0, kont g0 (rta (gc ++ [41%N]) K)).
  { intro g0. apply kont_gap_char; [exact Ggc|reflexivity|discriminate|reflexivity|discriminate]. }
  destruct (LxE_gap g2 body2 e _ c (gc ++ [41%N]) K l1 Lx2 Gg2 Hd2 Oe (KK _) R1)
    as (e0 & ts0 & l2 & L2 & R2 & M0 & S0 & _).
  rewrite <- (app_nil_r [41%N]) in R2.
  destruct (P_punct T_RPAREN [41%N] gc [] K l2 type_text_rparen ltac:(pfree) Ggc R2)
    as (t2 & l3 & L3 & T2 & I2 & _ & R3).
  exists (EGroup t1 e0 t2), ([t1] ++ ts0 ++ [t2]), l3.
  split; [eapply lexes_app; [exact L1|eapply lexes_app; eassumption]|]. split; [exact R3|].
  split; [|split].
  - intro R. cbn [m_expr app]. rewrite T1, T2. change (T_LPAREN =? T_LPAREN) with true.
    change (T_RPAREN =? T_RPAREN) with true. cbn [negb orb].
    rewrite eat_tok_refl, <- app_assoc, M0. cbn [app]. apply eat_tok_refl.
  - cbn [shape_expr tmap_expr]. fold (shape_expr e0). fold (shape_expr e). rewrite S0.
    rewrite (norm_eq t1 lp), (norm_eq t2 rp) by congruence. reflexivity.
  - exists t1, (ts0 ++ [t2]). repeat split; assumption.
Qed.

Lemma spf_gap op b : wgap (spf op b).
Proof. destruct (spf_cases op b) as [->|[-> _]]; [apply wgap_allws; reflexivity|apply wgap_nil]. Qed.

Lemma spf_nolf op b : has_lf (spf op b) = false.
Proof. destruct (spf_cases op b) as [->|[-> _]]; reflexivity. Qed.

Lemma P_unary t op r pr lr :
  type_text (t_type t) = Some (t_lit t) -> op = t_lit t ->
  (t_type t =? T_NOT) || (t_type t =? T_MINUS) || (t_type t =? T_INCREMENT) || (t_type t =? T_DECREMENT) = true ->
  prec_opt r = Some pr -> (pr <? A_PrecedenceUnary) = false -> NLF (t_comments t) ->
  PE r lr -> PE (EUnary t op r) (t_comments t).
Proof.
  intros TT -> Tys Pr Cr Hcs (cr & Or & Jr).
  assert (Oop : ost (hd 0%N (t_lit t))).
  { revert TT. generalize (t_lit t). intros s TT.
    assert (Hs : s = [33%N] \/ s = [45%N] \/ s = [43; 43]%N \/ s = [45; 45]%N).
    { apply orb_true_iff in Tys as [Tys|Tys]; [apply orb_true_iff in Tys as [Tys|Tys];
        [apply orb_true_iff in Tys as [Tys|Tys]|]|]; apply Z.eqb_eq in Tys; rewrite Tys in TT;
        inversion TT; auto. }
    destruct Hs as [-> | [-> | [-> | ->]]]; (split; [split; [repeat split; discriminate|reflexivity]|reflexivity]). }
  exists (hd 0%N (t_lit t)). split; [exact Oop|].
  cbn [write_expr first_type]. rewrite Pr, Cr, !app_nil_r.
  intros b pd lv mp Hlv Hpd.
  set (g0 := G pd lv (t_comments t)).
  assert (Gg0 : wgap g0) by (apply G_gap; assumption).
  set (g := g0 ++ spf (t_lit t) (b ++ g0)).
  destruct (Jr ((b ++ g) ++ t_lit t) [] lv mp Hlv pend_ok_nil) as (g2 & body2 & W2 & Gg2 & Gn2 & _ & Hd2 & Lx2).
  exists g, (t_lit t ++ g2 ++ body2). split.
  { rewrite prun_fusion. fold g0. psimp. cbn [app]. rewrite app_nil_r.
    replace ((b ++ g0) ++ spf (t_lit t) (b ++ g0)) with (b ++ g) by (unfold g; rewrite app_assoc; reflexivity).
    rewrite W2. f_equal. rewrite <- !app_assoc. reflexivity. }
  split; [apply wgap_app; [exact Gg0|apply spf_gap]|].
  split.
  { intro E. unfold g in E. apply app_eq_nil in E as [E1 E2].
    destruct (spf_cases (t_lit t) (b ++ g0)) as [Q|[_ Q]]; [rewrite Q in E2; discriminate E2|].
    rewrite E1, app_nil_r in Q. exact Q. }
  split.
  { intros H1 H2. unfold g. rewrite has_lf_app, spf_nolf, orb_false_r. apply G_nolf; assumption. }
  split; [apply hd_app_ne; exact (type_text_nonempty _ _ TT)|].
  intros K HK gs l Tg Hl.
  assert (PB : pbnd (t_lit t) (hd 0%N (rta (g2 ++ body2) K))).
  { rewrite <- (app_nil_r body2). apply (pbnd_gap (b ++ g) (t_lit t) g2 body2 [] K cr Gg2 Hd2 Or). exact Gn2. }
  destruct (P_punct0 (t_type t) (t_lit t) gs (g2 ++ body2) K l TT PB Tg Hl) as (t' & l1 & L1 & Ty1 & Li1 & Nl1 & R1).
  rewrite <- (app_nil_r body2) in R1.
  destruct (LxE_gap g2 body2 r _ cr [] K l1 Lx2 Gg2 Hd2 Or (kont_sub _ _ _ HK eq_refl) R1) as (eR & tsR & l2 & L2 & R2 & MR & SR & _).
  exists (EUnary t' (t_lit t) eR), ([t'] ++ tsR), l2.
  split; [eapply lexes_app; eassumption|]. split; [exact R2|]. split; [|split].
  - intro R. cbn [m_expr app]. rewrite Ty1, Tys, Li1, str_eqb_refl. cbn [negb orb].
    rewrite eat_tok_refl. apply MR.
  - unfold shape_expr in *. cbn [tmap_expr]. rewrite SR. f_equal. apply norm_eq; congruence.
  - exists t', tsR. repeat split; assumption.
Qed.

Lemma P_postfix t l op pl ll :
  type_text (t_type t) = Some (t_lit t) -> op = t_lit t ->
  (t_type t =? T_INCREMENT) || (t_type t =? T_DECREMENT) = true ->
  prec_opt l = Some pl -> (pl <? A_PrecedencePostfix) = false -> t_comments t = [] ->
  PE l ll -> PE (EPostfix t l op) ll.
Proof.
  intros TT -> Tys Pl Cl Ecs (cl & Ol & Jl).
  assert (ND : t_type t <> T_DOT).
  { intro E. rewrite E in Tys. discriminate Tys. }
  exists cl. split; [exact Ol|].
  cbn [write_expr first_type]. rewrite Pl, Cl, !app_nil_r, Ecs.
  intros b pd lv mp Hlv Hpd.
  destruct (Jl b pd lv mp Hlv Hpd) as (g & body & W & Gg & Gn & Gl & Hd & Lx).
  exists g, (body ++ t_lit t). split.
  { psimp. rewrite W. psimp. cbn [app]. f_equal. rewrite <- !app_assoc. reflexivity. }
  split; [exact Gg|]. split; [exact Gn|]. split; [exact Gl|].
  split; [apply hd_app_ost; assumption|].
  intros K HK gs l0 Tg Hl0. rewrite rta_app in Hl0.
  rewrite (rta_tsafe _ K (type_text_tsafe _ _ TT)) in Hl0.
  destruct (Lx (t_lit t ++ K) (kont_type_text _ _ _ TT ND) gs l0 Tg Hl0)
    as (eL & tsL & l1 & L1 & R1 & ML & SL & t0 & ts0 & E0 & Ty0 & Nl0).
  assert (PB : pbnd (t_lit t) (hd 0%N (rta [] K))).
  { assert (Hs : t_lit t = [43; 43]%N \/ t_lit t = [45; 45]%N).
    { apply orb_true_iff in Tys as [T1|T1]; apply Z.eqb_eq in T1; rewrite T1 in TT; inversion TT; auto. }
    destruct Hs as [-> | ->]; exact I. }
  assert (R1' : l_rest l1 = rta ([] ++ t_lit t ++ []) K).
  { cbn [app]. rewrite app_nil_r, (rta_tsafe _ K (type_text_tsafe _ _ TT)). exact R1. }
  destruct (P_punct (t_type t) (t_lit t) [] [] K l1 TT PB wgap_nil R1') as (t' & l2 & L2 & Ty2 & Li2 & Nl2 & R2).
  exists (EPostfix t' eL (t_lit t)), (tsL ++ [t']), l2.
  split; [eapply lexes_app; eassumption|]. split; [exact R2|]. split; [|split].
  - intro R. cbn [m_expr]. rewrite Ty2, Tys, Li2, str_eqb_refl, (Nl2 eq_refl). cbn [negb orb].
    rewrite <- app_assoc, ML. cbn [app]. apply eat_tok_refl.
  - unfold shape_expr in *. cbn [tmap_expr]. rewrite SL. f_equal. apply norm_eq; congruence.
  - exists t0, (ts0 ++ [t']). subst tsL. repeat split; assumption.
Qed.

(* ---------- comma-separated expressions ---------- *)

Definition PEx (e : expr) : Prop := exists le, PE e le.

Definition LxL (body : str) (es : list expr) : Prop :=
  forall K, kont ENil K -> forall l, l_rest l = rta body K ->
    exists es' ts l', lexes l ts l' /\ l_rest l' = K /\
      (forall R, m_exprs m_expr es' (ts ++ R) = Some R) /\ map shape_expr es' = map shape_expr es.

Definition PL (ops : list wop) (es : list expr) : Prop :=
  forall b pd lv mp, 0 <= lv -> pend_ok pd -> exists body,
    prun (ps b pd lv mp) ops = ps (b ++ body) (match es with [] => pd | _ => [] end) lv mp /\ LxL body es.

Lemma kont_comma {g} X K : kont g (rta (44%N :: X) K).
Proof. rewrite rta_cons_nb by discriminate. apply kont_cons; [reflexivity|discriminate]. Qed.

Lemma PL_sep es : Forall PEx es ->
  PL (sep_map [WRune 44%N; WSpace] (fun a => write_expr a ++ []) es) es.
Proof.
  induction 1 as [|x es (lx0 & cx & Ox & Jx) Hes IH]; intros b pd lv mp Hlv Hpd.
  - exists []. split; [rewrite app_nil_r; reflexivity|].
    intros K HK l Hl. exists [], [], l. repeat split; try constructor. exact Hl.
  - destruct (Jx b pd lv mp Hlv Hpd) as (g & body & W & Gg & _ & _ & Hd & Lx).
    destruct es as [|y es'].
    + exists (g ++ body). split.
      { rewrite sep_map_one. cbv beta. rewrite app_nil_r. exact W. }
      intros K HK l Hl. rewrite <- (app_nil_r body), app_assoc in Hl. rewrite <- app_assoc in Hl.
      destruct (LxE_gap g body x _ cx [] K l Lx Gg Hd Ox (kont_sub _ _ _ HK eq_refl) Hl) as (e' & ts & l' & L & R & M & S & _).
      exists [e'], ts, l'. repeat split; try assumption. cbn [map]. rewrite S. reflexivity.
    + destruct (IH ((b ++ g ++ body) ++ [44%N]) [32%N] lv mp Hlv pend_ok_sp) as (body2 & W2 & Lx2).
      exists ((g ++ body) ++ 44%N :: body2). split.
      { rewrite sep_map_cons2. cbv beta. rewrite (app_nil_r (write_expr x)), !prun_app, W. psimp. cbn [app].
        rewrite W2. f_equal. rewrite <- !app_assoc. reflexivity. }
      intros K HK l Hl. rewrite <- !app_assoc in Hl.
      destruct (LxE_gap g body x _ cx (44%N :: body2) K l Lx Gg Hd Ox (kont_comma _ _) Hl)
        as (e' & ts & l1 & L1 & R1 & M1 & S1 & _).
      destruct (P_comma [] body2 K l1 wgap_nil R1) as (tc & l2 & L2 & Tc & R2).
      destruct (Lx2 K HK l2 R2) as (es2 & ts2 & l3 & L3 & R3 & M3 & S3).
      exists (e' :: es2), (ts ++ [tc] ++ ts2), l3.
      split; [eapply lexes_app; [exact L1|eapply lexes_app; eassumption]|]. split; [exact R3|].
      split.
      * intro R. destruct es2 as [|e2 es2']; [discriminate S3|].
        cbn [m_exprs]. rewrite <- !app_assoc, M1. cbn [app eat]. rewrite Tc.
        change (T_COMMA =? T_COMMA) with true. cbn iota. apply M3.
      * cbn [map]. rewrite S1. f_equal. exact S3.
Qed.

Lemma kont_rparen' {g} K : kont g (rta [41%N] K).
Proof. rewrite rta_cons_nb by discriminate. apply kont_cons; [reflexivity|discriminate]. Qed.
Lemma kont_rbracket' {g} K : kont g (rta [93%N] K).
Proof. rewrite rta_cons_nb by discriminate. apply kont_cons; [reflexivity|discriminate]. Qed.

Lemma P_call t f args lf : t_type t = T_LPAREN -> t_lit t = [40%N] -> NLF (t_comments t) ->
  PE f lf -> Forall PEx args -> PE (ECall t f args) lf.
Proof.
  intros Ty Li Hcs (cf & Of & Jf) Ja.
  exists cf. split; [exact Of|].
  cbn [write_expr first_type].
  pose proof (PL_sep _ Ja) as JA.
  intros b pd lv mp Hlv Hpd.
  destruct (Jf b pd lv mp Hlv Hpd) as (g & body & W & Gg & Gn & Gl & Hd & Lx).
  set (gp := G [] lv (t_comments t)).
  assert (Ggp : wgap gp) by (apply G_gap; [exact indent_blank|exact pend_ok_nil|exact Hcs]).
  destruct (JA (((b ++ g ++ body) ++ gp) ++ [40%N]) [] (lv + 1) mp ltac:(lia) pend_ok_nil) as (body2 & W2 & Lx2).
  exists g, (body ++ gp ++ 40%N :: body2 ++ [41%N]). split.
  { rewrite prun_app, W. psimp. fold gp. cbn [app]. rewrite W2.
    assert (E : (match args with [] => @nil N | _ :: _ => [] end) = []) by (destruct args; reflexivity).
    rewrite E. rewrite prun_cons_ps, (pt_dec indent) by exact Hlv. psimp. cbn [app].
    f_equal. rewrite <- !app_assoc. reflexivity. }
  split; [exact Gg|]. split; [exact Gn|]. split; [exact Gl|].
  split; [apply hd_app_ost; assumption|].
  intros K HK gs l Tg Hl. rewrite rta_app in Hl.
  assert (KK : forall g0, kont g0 (rta (gp ++ 40%N :: body2 ++ [41%N]) K)).
  { intro g0. apply kont_gap_char; [exact Ggp|reflexivity|discriminate|reflexivity|discriminate]. }
  destruct (Lx _ (KK _) gs l Tg Hl) as (eF & tsF & l1 & L1 & R1 & MF & SF & t0 & ts0 & E0 & Ty0 & Nl0).
  change (gp ++ 40%N :: body2 ++ [41%N]) with (gp ++ [40%N] ++ body2 ++ [41%N]) in R1.
  destruct (P_punct T_LPAREN [40%N] gp _ K l1 type_text_lparen ltac:(pfree) Ggp R1)
    as (t1 & l2 & L2 & Ty1 & Li1 & _ & R2).
  rewrite rta_app in R2.
  destruct (Lx2 _ (kont_rparen' K) l2 R2) as (es' & tsA & l3 & L3 & R3 & MA & SA).
  assert (R3' : l_rest l3 = rta ([] ++ [41%N] ++ []) K) by exact R3.
  destruct (P_punct T_RPAREN [41%N] [] [] K l3 type_text_rparen ltac:(pfree) wgap_nil R3')
    as (t2 & l4 & L4 & Ty2 & _ & _ & R4).
  exists (ECall t1 eF es'), (tsF ++ [t1] ++ tsA ++ [t2]), l4.
  split; [eapply lexes_app; [exact L1|eapply lexes_app; [exact L2|eapply lexes_app; eassumption]]|].
  split; [exact R4|]. split; [|split].
  - intro R. cbn [m_expr]. rewrite Ty1. change (T_LPAREN =? T_LPAREN) with true. cbn [negb].
    rewrite <- !app_assoc, MF. cbn [app]. rewrite eat_tok_refl, MA. cbn [app eat]. rewrite Ty2. reflexivity.
  - unfold shape_expr. cbn [tmap_expr]. change (tmap_expr norm_tok) with shape_expr. rewrite SF, SA. f_equal. apply norm_eq; congruence.
  - exists t0, (ts0 ++ [t1] ++ tsA ++ [t2]). subst tsF. repeat split; assumption.
Qed.

Lemma P_member_computed t o p lo lp0 : t_type t = T_LBRACKET -> t_lit t = [91%N] -> NLF (t_comments t) ->
  PE o lo -> PE p lp0 -> PE (EMember t o p true) lo.
Proof.
  intros Ty Li Hcs (co & Oo & Jo) (cp & Op & Jp).
  exists co. split; [exact Oo|].
  cbn [write_expr first_type]. rewrite !app_nil_r.
  intros b pd lv mp Hlv Hpd.
  destruct (Jo b pd lv mp Hlv Hpd) as (g & body & W & Gg & Gn & Gl & Hd & Lx).
  set (gp := G [] lv (t_comments t)).
  assert (Ggp : wgap gp) by (apply G_gap; [exact indent_blank|exact pend_ok_nil|exact Hcs]).
  destruct (Jp (((b ++ g ++ body) ++ gp) ++ [91%N]) [] lv mp Hlv pend_ok_nil) as (g2 & body2 & W2 & Gg2 & _ & _ & Hd2 & Lx2).
  exists g, (body ++ gp ++ 91%N :: g2 ++ body2 ++ [93%N]). split.
  { rewrite prun_app, W. psimp. fold gp. cbn [app]. rewrite W2. psimp. cbn [app].
    f_equal. rewrite <- !app_assoc. reflexivity. }
  split; [exact Gg|]. split; [exact Gn|]. split; [exact Gl|].
  split; [apply hd_app_ost; assumption|].
  intros K HK gs l Tg Hl. rewrite rta_app in Hl.
  assert (KK : forall g0, kont g0 (rta (gp ++ 91%N :: g2 ++ body2 ++ [93%N]) K)).
  { intro g0. apply kont_gap_char; [exact Ggp|reflexivity|discriminate|reflexivity|discriminate]. }
  destruct (Lx _ (KK _) gs l Tg Hl) as (eO & tsO & l1 & L1 & R1 & MO & SO & t0 & ts0 & E0 & Ty0 & Nl0).
  change (gp ++ 91%N :: g2 ++ body2 ++ [93%N]) with (gp ++ [91%N] ++ g2 ++ body2 ++ [93%N]) in R1.
  destruct (P_punct T_LBRACKET [91%N] gp _ K l1 type_text_lbracket ltac:(pfree) Ggp R1)
    as (t1 & l2 & L2 & Ty1 & Li1 & _ & R2).
  destruct (LxE_gap g2 body2 p _ cp [93%N] K l2 Lx2 Gg2 Hd2 Op (kont_rbracket' K) R2)
    as (eP & tsP & l3 & L3 & R3 & MP & SP & _).
  assert (R3' : l_rest l3 = rta ([] ++ [93%N] ++ []) K) by exact R3.
  destruct (P_punct T_RBRACKET [93%N] [] [] K l3 type_text_rbracket ltac:(pfree) wgap_nil R3')
    as (t2 & l4 & L4 & Ty2 & _ & _ & R4).
  exists (EMember t1 eO eP true), (tsO ++ [t1] ++ tsP ++ [t2]), l4.
  split; [eapply lexes_app; [exact L1|eapply lexes_app; [exact L2|eapply lexes_app; eassumption]]|].
  split; [exact R4|]. split; [|split].
  - intro R. cbn [m_expr]. rewrite <- !app_assoc, MO. rewrite Ty1. change (T_LBRACKET =? T_LBRACKET) with true. cbn [negb].
    cbn [app]. rewrite eat_tok_refl, MP. cbn [app eat]. rewrite Ty2. reflexivity.
  - unfold shape_expr. cbn [tmap_expr]. change (tmap_expr norm_tok) with shape_expr. rewrite SO, SP. f_equal. apply norm_eq; congruence.
  - exists t0, (ts0 ++ [t1] ++ tsP ++ [t2]). subst tsO. repeat split; assumption.
Qed.


Lemma kont_dot {ge} gp gi v K : wgap gp -> wgap gi -> isLetter (hd 0%N v) = true ->
  (gp = [] -> dot_ok ge = true) -> kont ge (rta (gp ++ 46%N :: gi ++ v) K).
Proof.
  intros Gp Gi HL Hdot.
  destruct (gap_split gp [46%N] (gi ++ v) K 46%N Gp eq_refl eq_refl ltac:(discriminate)) as (g' & E & _ & _ & E0 & E1 & _).
  change (gp ++ 46%N :: gi ++ v) with (gp ++ [46%N] ++ gi ++ v). rewrite E.
  destruct gp as [|x g0].
  - rewrite (E0 eq_refl). cbn [app]. rewrite rta_cons_nb by discriminate.
    split; cbn [hd]; [reflexivity|]. intros _. apply Hdot. reflexivity.
  - destruct (E1 ltac:(discriminate)) as (w & r & -> & Hw). apply kont_ws. exact Hw.
Qed.

Lemma P_member_dot t o i lo : t_type t = T_DOT -> t_lit t = [46%N] -> NLF (t_comments t) ->
  ident_lexical i = true -> NLF (t_comments (id_tok i)) -> obj_ok o = true ->
  PE o lo -> PE (EMember t o (EIdent i) false) lo.
Proof.
  intros Ty Li Hcs Hl3 Hci Hob (co & Oo & Jo).
  unfold ident_lexical in Hl3. apply andb_true_iff in Hl3 as [Hi H3]. apply andb_true_iff in Hi as [H1 H2].
  apply Z.eqb_eq in H1. apply str_eqb_spec in H2.
  destruct (lex1_word _ _ [] H3 eq_refl ltac:(discriminate) ltac:(discriminate) eq_refl) as (HL & _).
  exists co. split; [exact Oo|].
  cbn [write_expr first_type]. unfold write_ident. rewrite !app_nil_r.
  intros b pd lv mp Hlv Hpd.
  destruct (Jo b pd lv mp Hlv Hpd) as (g & body & W & Gg & Gn & Gl & Hd & Lx).
  (* the blank that keeps a decimal integer literal and the dot apart is part of the gap *)
  set (bl := if is_decimal_int o then [32%N] else @nil N).
  set (gp := bl ++ G [] lv (t_comments t)).
  assert (Ggp : wgap gp).
  { apply wgap_app; [unfold bl; destruct (is_decimal_int o); [apply wgap_allws; reflexivity|apply wgap_nil]|].
    apply G_gap; [exact indent_blank|exact pend_ok_nil|exact Hcs]. }
  set (gi := G [] lv (t_comments (id_tok i))).
  assert (Ggi : wgap gi) by (apply G_gap; [exact indent_blank|exact pend_ok_nil|exact Hci]).
  exists g, (body ++ gp ++ 46%N :: gi ++ id_value i). split.
  { rewrite prun_app, W. unfold gp, bl. destruct (is_decimal_int o); cbn [negb andb app]; psimp; fold gi; cbn [app];
    f_equal; rewrite <- ?app_assoc; cbn [app]; rewrite <- ?app_assoc; reflexivity. }
  split; [exact Gg|]. split; [exact Gn|]. split; [exact Gl|].
  split; [apply hd_app_ost; assumption|].
  intros K HK gs l Tg Hl. rewrite rta_app in Hl.
  assert (Hdot : gp = [] -> dot_ok o = true).
  { unfold gp, bl, dot_ok. rewrite Hob. destruct (is_decimal_int o); [discriminate|reflexivity]. }
  destruct (Lx _ (kont_dot gp gi (id_value i) K Ggp Ggi HL Hdot) gs l Tg Hl)
    as (eO & tsO & l1 & L1 & R1 & MO & SO & t0 & ts0 & E0 & Ty0 & Nl0).
  change (gp ++ 46%N :: gi ++ id_value i) with (gp ++ [46%N] ++ gi ++ id_value i) in R1.
  destruct (P_punct T_DOT [46%N] gp _ K l1 type_text_dot ltac:(pfree) Ggp R1)
    as (t1 & l2 & L2 & Ty1 & Li1 & _ & R2).
  destruct HK as [HK1 HK2].
  rewrite <- (app_nil_r (id_value i)) in R2.
  destruct (P_word T_IDENT (id_value i) gi [] K l2 H3 eq_refl ltac:(discriminate) ltac:(discriminate) HK1 Ggi R2)
    as (t2 & l3 & L3 & Ty2 & Li2 & _ & R3).
  exists (EMember t1 eO (EIdent (mkident t2 (id_value i))) false), (tsO ++ [t1] ++ [t2]), l3.
  split; [eapply lexes_app; [exact L1|eapply lexes_app; eassumption]|].
  split; [exact R3|]. split; [|split].
  - intro R. cbn [m_expr]. rewrite <- !app_assoc, MO. rewrite Ty1. change (T_DOT =? T_DOT) with true. cbn [negb].
    cbn [app]. rewrite eat_tok_refl. unfold m_ident, ident_ok. cbn [id_tok id_value].
    rewrite Ty2, Li2, str_eqb_refl. change (T_IDENT =? T_IDENT) with true. cbn [andb]. apply eat_tok_refl.
  - unfold shape_expr. cbn [tmap_expr]. change (tmap_expr norm_tok) with shape_expr. unfold tmap_ident. cbn [id_tok id_value]. rewrite SO.
    rewrite (norm_eq t1 t), (norm_eq t2 (id_tok i)) by congruence. reflexivity.
  - exists t0, (ts0 ++ [t1] ++ [t2]). subst tsO. repeat split; assumption.
Qed.

Lemma P_array lb es rb : punct lb T_LBRACKET = true -> punct rb T_RBRACKET = true ->
  NLF (t_comments lb) -> NLF (t_comments rb) ->
  Forall PEx es -> PE (EArray lb es rb) (t_comments lb).
Proof.
  intros Hl1 Hl2 Hc1 Hc2 Ja.
  destruct (punct_inv _ _ Hl1) as [Ty1 TT1]. rewrite type_text_lbracket in TT1. inversion TT1 as [Li1].
  destruct (punct_inv _ _ Hl2) as [Ty2 TT2]. rewrite type_text_rbracket in TT2. inversion TT2 as [Li2].
  exists 91%N. split; [split; [split; [repeat split; discriminate|reflexivity]|reflexivity]|].
  cbn [write_expr first_type]. rewrite Ty1.
  pose proof (PL_sep _ Ja) as JA.
  intros b pd lv mp Hlv Hpd.
  destruct (JA ((b ++ G pd lv (t_comments lb)) ++ [91%N]) [] (lv + 1) mp ltac:(lia) pend_ok_nil) as (body2 & W2 & Lx2).
  set (gc := Gc lv (t_comments rb)).
  assert (Ggc : wgap gc) by (apply Gc_gap; [exact indent_blank|exact Hc2]).
  exists (G pd lv (t_comments lb)), (91%N :: body2 ++ gc ++ [93%N]). split.
  { psimp. cbn [app]. rewrite W2.
    assert (E : (match es with [] => @nil N | _ :: _ => [] end) = []) by (destruct es; reflexivity).
    rewrite E. rewrite prun_close by exact Hlv. rewrite prun_nil. fold gc.
    f_equal. rewrite <- !app_assoc. reflexivity. }
  split; [apply G_gap; assumption|].
  split; [intros _; apply nofuse_other; discriminate|].
  split; [intros H1 H2; apply G_nolf; assumption|]. split; [reflexivity|].
  intros K HK gs l Tg Hl.
  change (91%N :: body2 ++ gc ++ [93%N]) with ([91%N] ++ body2 ++ gc ++ [93%N]) in Hl.
  destruct (P_punct0 T_LBRACKET [91%N] gs _ K l type_text_lbracket ltac:(pfree) Tg Hl)
    as (t1 & l2 & L2 & T1 & I1 & N1 & R2).
  rewrite rta_app in R2.
  assert (KK : forall g0, kont g0 (rta (gc ++ [93%N]) K)).
  { intro g0. apply kont_gap_char; [exact Ggc|reflexivity|discriminate|reflexivity|discriminate]. }
  destruct (Lx2 _ (KK _) l2 R2) as (es' & tsA & l3 & L3 & R3 & MA & SA).
  rewrite <- (app_nil_r [93%N]) in R3.
  destruct (P_punct T_RBRACKET [93%N] gc [] K l3 type_text_rbracket ltac:(pfree) Ggc R3)
    as (t2 & l4 & L4 & T2 & I2 & _ & R4).
  exists (EArray t1 es' t2), ([t1] ++ tsA ++ [t2]), l4.
  split; [eapply lexes_app; [exact L2|eapply lexes_app; eassumption]|].
  split; [exact R4|]. split; [|split].
  - intro R. cbn [m_expr]. rewrite T1, T2. change (T_LBRACKET =? T_LBRACKET) with true.
    change (T_RBRACKET =? T_RBRACKET) with true. cbn [negb orb app].
    rewrite eat_tok_refl, <- app_assoc, MA. cbn [app]. apply eat_tok_refl.
  - unfold shape_expr. cbn [tmap_expr]. change (tmap_expr norm_tok) with shape_expr. rewrite SA.
    rewrite (norm_eq t1 lb), (norm_eq t2 rb) by congruence. reflexivity.
  - exists t1, (tsA ++ [t2]). repeat split; assumption.
Qed.

(* ---------- object literals ---------- *)

Definition LxPR (body : str) (gl : list (expr * expr)) : Prop :=
  forall K, kont ENil K -> forall l, l_rest l = rta body K ->
    exists ps' ts l', lexes l ts l' /\ l_rest l' = K /\
      (forall R, m_props m_expr ps' (ts ++ R) = Some R) /\ map shp ps' = map shp gl.

Definition PPR (ops : list wop) (gl : list (expr * expr)) : Prop :=
  forall b pd lv mp, 0 <= lv -> pend_ok pd -> exists body,
    prun (ps b pd lv mp) ops = ps (b ++ body) (match gl with [] => pd | _ => [] end) lv mp /\ LxPR body gl.

Lemma kont_colon {g} X K : kont g (rta (58%N :: X) K).
Proof. rewrite rta_cons_nb by discriminate. apply kont_cons; [reflexivity|discriminate]. Qed.

Lemma PPR_sep gl : Forall (fun kv => key_ok (fst kv) = true /\ PEx (fst kv) /\ PEx (snd kv)) gl ->
  PPR (sep_map [WRune 44%N; WSpace] prop_ops gl) gl.
Proof.
  induction 1 as [|[k v] gl (Kk & (lk & ck & Ok & Jk) & (lv0 & cv & Ov & Jv)) Hps IH]; intros b pd lv mp Hlv Hpd.
  - exists []. split; [rewrite app_nil_r; reflexivity|].
    intros K HK l Hl. exists [], [], l. repeat split; try constructor. exact Hl.
  - cbn [fst snd] in *.
    destruct (Jk b pd lv mp Hlv Hpd) as (g & body & W & Gg & _ & _ & Hd & Lx).
    destruct (Jv ((b ++ g ++ body) ++ [58%N]) [32%N] lv mp Hlv pend_ok_sp) as (g2 & body2 & W2 & Gg2 & _ & _ & Hd2 & Lx2).
    assert (ONE : forall X K, kont ENil (rta X K) -> forall l, l_rest l = rta (g ++ body ++ 58%N :: g2 ++ body2 ++ X) K ->
              exists k' v' ts l', lexes l ts l' /\ l_rest l' = rta X K /\ key_ok k' = true /\
                (forall R, exists R1, m_expr k' (ts ++ R) = Some R1 /\
                   exists tc R2, eat T_COLON R1 = Some (tc, R2) /\ m_expr v' R2 = Some R) /\
                shape_expr k' = shape_expr k /\ shape_expr v' = shape_expr v).
    { intros X K HK l Hl.
      destruct (LxE_gap g body k _ ck (58%N :: g2 ++ body2 ++ X) K l Lx Gg Hd Ok (kont_colon _ _) Hl)
        as (k' & tsk & l1 & L1 & R1 & Mk & Sk & _).
      destruct (P_colon [] _ K l1 wgap_nil R1) as (tc & l2 & L2 & Tc & R2).
      destruct (LxE_gap g2 body2 v _ cv X K l2 Lx2 Gg2 Hd2 Ov (kont_sub _ _ _ HK eq_refl) R2) as (v' & tsv & l3 & L3 & R3 & Mv & Sv & _).
      exists k', v', (tsk ++ [tc] ++ tsv), l3.
      split; [eapply lexes_app; [exact L1|eapply lexes_app; eassumption]|]. split; [exact R3|].
      split; [rewrite (key_ok_shape _ _ Sk); exact Kk|]. split; [|split; assumption].
      intro R. eexists. rewrite <- !app_assoc. split; [apply Mk|].
      cbn [app eat]. rewrite Tc. change (T_COLON =? T_COLON) with true. cbn iota.
      do 2 eexists. split; [reflexivity|apply Mv]. }
    destruct gl as [|kv2 gl'].
    + exists (g ++ body ++ 58%N :: g2 ++ body2). split.
      { rewrite sep_map_one. unfold prop_ops. cbn [fst snd]. rewrite app_nil_r, prun_app, W. psimp. cbn [app]. rewrite W2.
        f_equal. rewrite <- !app_assoc. reflexivity. }
      intros K HK l Hl.
      destruct (ONE [] K HK l) as (k' & v' & ts & l' & L & R & Kk' & M & Sk & Sv).
      { rewrite Hl, !app_nil_r. reflexivity. }
      exists [(k', v')], ts, l'. split; [exact L|]. split; [exact R|]. split.
      * intro R0. cbn [m_props]. rewrite Kk'. cbn [negb].
        destruct (M R0) as (R1 & -> & tc & R2 & -> & ->). reflexivity.
      * cbn [map]. unfold shp. cbn [fst snd]. rewrite Sk, Sv. reflexivity.
    + destruct (IH ((((b ++ g ++ body) ++ [58%N]) ++ g2 ++ body2) ++ [44%N]) [32%N] lv mp Hlv pend_ok_sp) as (body3 & W3 & Lx3).
      exists ((g ++ body ++ 58%N :: g2 ++ body2) ++ 44%N :: body3). split.
      { rewrite sep_map_cons2. unfold prop_ops at 1. cbn [fst snd]. rewrite app_nil_r, !prun_app, W. psimp. cbn [app].
        rewrite W2. psimp. cbn [app]. rewrite W3. f_equal. rewrite <- !app_assoc. cbn [app]. rewrite <- !app_assoc. reflexivity. }
      intros K HK l Hl.
      destruct (ONE (44%N :: body3) K (kont_comma _ _) l) as (k' & v' & ts & l1 & L1 & R1 & Kk' & M & Sk & Sv).
      { rewrite Hl, <- !app_assoc. cbn [app]. rewrite <- !app_assoc. reflexivity. }
      destruct (P_comma [] body3 K l1 wgap_nil R1) as (tc & l2 & L2 & Tc & R2).
      destruct (Lx3 K HK l2 R2) as (ps2 & ts2 & l3 & L3 & R3 & M3 & S3).
      exists ((k', v') :: ps2), (ts ++ [tc] ++ ts2), l3.
      split; [eapply lexes_app; [exact L1|eapply lexes_app; eassumption]|]. split; [exact R3|].
      split.
      * intro R0. destruct ps2 as [|p2 ps2']; [discriminate S3|].
        cbn [m_props]. rewrite Kk'. cbn [negb]. rewrite <- !app_assoc.
        destruct (M ([tc] ++ ts2 ++ R0)) as (Ra & -> & tcc & Rb & -> & ->).
        cbn [app eat]. rewrite Tc. change (T_COMMA =? T_COMMA) with true. cbn iota. apply M3.
      * cbn [map]. unfold shp at 1 3. cbn [fst snd]. rewrite Sk, Sv. f_equal. exact S3.
Qed.

Lemma P_object lb gl rb : punct lb T_LBRACE = true ->
  match gl with [] => tok_eqb rb zero_token | _ => punct rb T_RBRACE end = true ->
  NLF (t_comments lb) -> NLF (t_comments rb) ->
  Forall (fun kv => key_ok (fst kv) = true /\ PEx (fst kv) /\ PEx (snd kv)) gl ->
  PE (EObject lb gl rb) (t_comments lb).
Proof.
  intros Hl1 Hl3 Hc1 Hc2 Jp.
  destruct (punct_inv _ _ Hl1) as [Ty1 TT1]. rewrite type_text_lbrace in TT1. inversion TT1 as [Li1].
  exists 123%N. split; [split; [split; [repeat split; discriminate|reflexivity]|reflexivity]|].
  cbn [write_expr first_type]. rewrite Ty1.
  pose proof (PPR_sep _ Jp) as JA.
  intros b pd lv mp Hlv Hpd.
  destruct (JA ((b ++ G pd lv (t_comments lb)) ++ [123%N]) [] (lv + 1) mp ltac:(lia) pend_ok_nil) as (body2 & W2 & Lx2).
  set (gc := Gc lv (t_comments rb)).
  assert (Ggc : wgap gc) by (apply Gc_gap; [exact indent_blank|exact Hc2]).
  exists (G pd lv (t_comments lb)), (123%N :: body2 ++ gc ++ [125%N]). split.
  { psimp. cbn [app]. fold prop_ops. change (fun prop : expr * expr => prop_ops prop) with prop_ops. rewrite W2.
    assert (E : (match gl with [] => @nil N | _ :: _ => [] end) = []) by (destruct gl; reflexivity).
    rewrite E. rewrite prun_close by exact Hlv. rewrite prun_nil. fold gc.
    f_equal. rewrite <- !app_assoc. reflexivity. }
  split; [apply G_gap; assumption|].
  split; [intros _; apply nofuse_other; discriminate|].
  split; [intros H1 H2; apply G_nolf; assumption|]. split; [reflexivity|].
  intros K HK gs l Tg Hl.
  change (123%N :: body2 ++ gc ++ [125%N]) with ([123%N] ++ body2 ++ gc ++ [125%N]) in Hl.
  destruct (P_punct0 T_LBRACE [123%N] gs _ K l type_text_lbrace ltac:(pfree) Tg Hl)
    as (t1 & l2 & L2 & T1 & I1 & N1 & R2).
  rewrite rta_app in R2.
  assert (KK : forall g0, kont g0 (rta (gc ++ [125%N]) K)).
  { intro g0. apply kont_gap_char; [exact Ggc|reflexivity|discriminate|reflexivity|discriminate]. }
  destruct (Lx2 _ (KK _) l2 R2) as (ps' & tsA & l3 & L3 & R3 & MA & SA).
  rewrite <- (app_nil_r [125%N]) in R3.
  destruct (P_punct T_RBRACE [125%N] gc [] K l3 type_text_rbrace ltac:(pfree) Ggc R3)
    as (t2 & l4 & L4 & T2 & I2 & _ & R4).
  destruct gl as [|kv ps0].
  - apply tok_eqb_eq in Hl3. subst rb.
    destruct ps' as [|? ?]; [|discriminate SA].
    assert (tsA = []).
    { specialize (MA []). cbn [m_props] in MA. rewrite app_nil_r in MA. inversion MA. reflexivity. }
    subst tsA.
    exists (EObject t1 [] zero_token), ([t1] ++ [] ++ [t2]), l4.
    split; [eapply lexes_app; [exact L2|eapply lexes_app; eassumption]|].
    split; [exact R4|]. split; [|split].
    + intro R. cbn [m_expr]. rewrite T1. change (T_LBRACE =? T_LBRACE) with true. cbn [negb app].
      rewrite eat_tok_refl. rewrite tok_eqb_refl. cbn [app eat]. rewrite T2. reflexivity.
    + unfold shape_expr. cbn [tmap_expr map]. rewrite (norm_eq t1 lb) by congruence. reflexivity.
    + exists t1, ([] ++ [t2]). repeat split; assumption.
  - destruct (punct_inv _ _ Hl3) as [Ty2 TT2]. rewrite type_text_rbrace in TT2. inversion TT2 as [Li2].
    destruct ps' as [|p' ps'']; [discriminate SA|].
    exists (EObject t1 (p' :: ps'') t2), ([t1] ++ tsA ++ [t2]), l4.
    split; [eapply lexes_app; [exact L2|eapply lexes_app; eassumption]|].
    split; [exact R4|]. split; [|split].
    + intro R. cbn [m_expr]. rewrite T1, T2. change (T_LBRACE =? T_LBRACE) with true.
      change (T_RBRACE =? T_RBRACE) with true. cbn [negb app].
      rewrite eat_tok_refl, <- app_assoc, MA. cbn [app]. apply eat_tok_refl.
    + unfold shape_expr. cbn [tmap_expr]. change (tmap_expr norm_tok) with shape_expr.
      fold shp. change (fun kv : expr * expr => shp kv) with shp.
      rewrite (norm_eq t1 lb), (norm_eq t2 rb) by congruence.
      f_equal. exact SA.
    + exists t1, (tsA ++ [t2]). repeat split; assumption.
Qed.

(* ================================================================== *)
(* 4. names and keywords behind a gap                                  *)
(* ================================================================== *)

Lemma P_ident_step i g X K l : ident_lexical i = true -> wgap g ->
  is_ident_char (hd 0%N (rta X K)) = false -> l_rest l = rta (g ++ id_value i ++ X) K ->
  exists t l', lexes l [t] l' /\ t_type t = T_IDENT /\ t_lit t = id_value i /\ l_rest l' = rta X K /\
    (forall R, m_ident (mkident t (id_value i)) (t :: R) = Some R) /\
    tmap_ident norm_tok (mkident t (id_value i)) = tmap_ident norm_tok i.
Proof.
  intros H Gg HK Hl. unfold ident_lexical in H. apply andb_true_iff in H as [H H3].
  apply andb_true_iff in H as [H1 H2]. apply Z.eqb_eq in H1. apply str_eqb_spec in H2.
  destruct (P_word _ _ g X K l H3 eq_refl ltac:(discriminate) ltac:(discriminate) HK Gg Hl)
    as (t & l' & L & Ty & Li & _ & R).
  exists t, l'. repeat split; try assumption.
  - intro R0. unfold m_ident, ident_ok. cbn [id_tok id_value]. rewrite Ty, Li, str_eqb_refl.
    change (T_IDENT =? T_IDENT) with true. cbn [andb]. apply eat_tok_refl.
  - unfold tmap_ident. cbn [id_tok id_value]. rewrite (norm_eq t (id_tok i)) by congruence. reflexivity.
Qed.

Lemma wgap_sp : wgap [32%N]. Proof. apply wgap_allws. reflexivity. Qed.
Lemma wgap_sp_app g : wgap g -> wgap (32%N :: g).
Proof. intro H. apply (wgap_app [32%N] g wgap_sp H). Qed.

Lemma has_lf_sp g : has_lf (32%N :: g) = has_lf g.
Proof. rewrite has_lf_cons. reflexivity. Qed.


(* ---------- let name [= value] ---------- *)

Definition LxLet (body : str) (t : token) (name : ident) (v : expr) : Prop :=
  forall K, kont ENil K -> forall gs l, trv gs -> l_rest l = gs ++ rta body K ->
    exists t1 n' v' ts l', lexes l (t1 :: id_tok n' :: ts) l' /\ l_rest l' = K /\
      t_type t1 = T_LET /\ norm_tok t1 = norm_tok t /\ t_nl t1 = has_lf gs /\
      (forall R, m_ident n' (id_tok n' :: R) = Some R) /\ tmap_ident norm_tok n' = tmap_ident norm_tok name /\
      shape_expr v' = shape_expr v /\
      ((is_enil v = true /\ ts = []) \/
       (is_enil v = false /\ exists teq tsv, ts = teq :: tsv /\ t_type teq = T_ASSIGN /\
          forall R, m_expr v' (tsv ++ R) = Some R)).

Definition PLet (t : token) (name : ident) (v : expr) : Prop :=
  forall b pd lv mp, 0 <= lv -> pend_ok pd -> exists body,
    prun (ps b pd lv mp) (let_ops t name v) = ps (b ++ G pd lv (t_comments t) ++ body) [] lv mp /\
    hd 0%N body = 108%N /\ LxLet body t name v.

Lemma P_let_core t name v lv0 : t_type t = T_LET -> t_lit t = kw_let -> ident_lexical name = true ->
  NLF (t_comments (id_tok name)) -> (is_enil v = false -> PE v lv0) -> PLet t name v.
Proof.
  intros Ty Li Hn Hcn Jv b pd lv mp Hlv Hpd.
  pose proof (ident_first _ Hn) as HL.
  set (gn := G [] lv (t_comments (id_tok name))).
  assert (Ggn : wgap (32%N :: gn)).
  { apply wgap_sp_app. apply G_gap; [exact indent_blank|exact pend_ok_nil|exact Hcn]. }
  destruct (is_enil v) eqn:Ev.
  - exists (kw_let ++ (32%N :: gn) ++ id_value name). split.
    { unfold let_ops, write_ident. rewrite Ev. cbn [negb]. rewrite app_nil_r. psimp. fold gn. cbn [app].
      f_equal. unfold kw_let. rewrite <- !app_assoc. reflexivity. }
    split; [reflexivity|].
    intros K [HK _] gs l Tg Hl.
    destruct (P_word0 T_LET kw_let gs ((32%N :: gn) ++ id_value name) K l relex_let eq_refl ltac:(discriminate)
                ltac:(discriminate)) as (t1 & l1 & L1 & Ty1 & Li1 & Nl1 & R1); [|exact Tg|exact Hl|].
    { rewrite <- (app_nil_r (id_value name)).
      apply (nic_gap (32%N :: gn) (id_value name) [] K _ Ggn eq_refl (letter_sst _ HL)). discriminate. }
    rewrite <- (app_nil_r (id_value name)) in R1.
    destruct (P_ident_step name (32%N :: gn) [] K l1 Hn Ggn HK R1) as (t2 & l2 & L2 & Ty2 & Li2 & R2 & M2 & S2).
    exists t1, (mkident t2 (id_value name)), v, [], l2. cbn [id_tok].
    split; [exact (lexes_app _ _ _ _ _ L1 L2)|]. split; [exact R2|]. split; [exact Ty1|].
    split; [apply norm_eq; congruence|]. split; [exact Nl1|]. split; [exact M2|]. split; [exact S2|]. split; [reflexivity|].
    left. split; [exact Ev|reflexivity].
  - destruct (Jv eq_refl) as (cv & Ov & J).
    destruct (J ((((b ++ G pd lv (t_comments t)) ++ kw_let ++ [32%N]) ++ gn ++ id_value name) ++ [32%N; 61%N]) [32%N] lv mp Hlv pend_ok_sp)
      as (g2 & body2 & W & Gg2 & Gn2 & _ & Hd2 & Lx).
    exists (kw_let ++ (32%N :: gn) ++ id_value name ++ [32%N; 61%N] ++ g2 ++ body2). split.
    { unfold let_ops, write_ident. rewrite Ev. cbn [negb]. psimp. fold gn. cbn [app].
      match goal with |- prun (ps ?x _ _ _) _ = _ =>
        replace x with ((((b ++ G pd lv (t_comments t)) ++ kw_let ++ [32%N]) ++ gn ++ id_value name) ++ [32%N; 61%N])
          by (unfold kw_let; rewrite <- !app_assoc; reflexivity) end.
      rewrite W. f_equal. unfold kw_let. rewrite <- !app_assoc. reflexivity. }
    split; [reflexivity|].
    intros K HK gs l Tg Hl.
    destruct (P_word0 T_LET kw_let gs ((32%N :: gn) ++ id_value name ++ [32%N; 61%N] ++ g2 ++ body2) K l relex_let eq_refl ltac:(discriminate)
                ltac:(discriminate)) as (t1 & l1 & L1 & Ty1 & Li1 & Nl1 & R1); [|exact Tg|exact Hl|].
    { apply (nic_gap (32%N :: gn) (id_value name) _ K _ Ggn eq_refl (letter_sst _ HL)). discriminate. }

    assert (NI : is_ident_char (hd 0%N (rta ([32%N; 61%N] ++ g2 ++ body2) K)) = false).
    { change ([32%N; 61%N] ++ g2 ++ body2) with ([32%N] ++ [61%N] ++ g2 ++ body2).
      apply (nic_gap [32%N] [61%N] _ K 61%N wgap_sp eq_refl); [split; [reflexivity|discriminate]|discriminate]. }
    destruct (P_ident_step name (32%N :: gn) ([32%N; 61%N] ++ g2 ++ body2) K l1 Hn Ggn NI R1)
      as (t2 & l2 & L2 & Ty2 & Li2 & R2 & M2 & S2).
    change ([32%N; 61%N] ++ g2 ++ body2) with ([32%N] ++ [61%N] ++ g2 ++ body2) in R2.
    assert (PB : pbnd [61%N] (hd 0%N (rta (g2 ++ body2) K))).
    { rewrite <- (app_nil_r body2).
      apply (pbnd_gap ((((b ++ G pd lv (t_comments t)) ++ kw_let ++ [32%N]) ++ gn ++ id_value name) ++ [32%N]) [61%N] g2 body2 [] K cv Gg2 Hd2 Ov).
      intro E. specialize (Gn2 E). rewrite <- app_assoc. exact Gn2. }
    destruct (P_punct T_ASSIGN [61%N] [32%N] (g2 ++ body2) K l2 type_text_assign PB wgap_sp R2)
      as (t3 & l3 & L3 & Ty3 & _ & _ & R3).
    rewrite <- (app_nil_r body2) in R3.
    destruct (LxE_gap g2 body2 v _ cv [] K l3 Lx Gg2 Hd2 Ov (kont_sub _ _ _ HK eq_refl) R3) as (v' & tsv & l4 & L4 & R4 & Mv & Sv & _).
    exists t1, (mkident t2 (id_value name)), v', (t3 :: tsv), l4. cbn [id_tok].
    split; [exact (lexes_app _ _ _ _ _ L1 (lexes_app _ _ _ _ _ L2 (lexes_app _ _ _ _ _ L3 L4)))|].
    split; [exact R4|]. split; [exact Ty1|].
    split; [apply norm_eq; congruence|]. split; [exact Nl1|]. split; [exact M2|]. split; [exact S2|]. split; [exact Sv|].
    right. split; [exact Ev|]. exists t3, tsv. split; [reflexivity|]. split; [exact Ty3|exact Mv].
Qed.

Lemma P_let t name v lv0 : t_type t = T_LET -> t_lit t = kw_let -> ident_lexical name = true ->
  NLF (t_comments t) -> NLF (t_comments (id_tok name)) -> (is_enil v = false -> PE v lv0) ->
  PE (ELet t name v) (t_comments t).
Proof.
  intros Ty Li Hn Hct Hcn Jv. pose proof (P_let_core t name v lv0 Ty Li Hn Hcn Jv) as JL.
  exists 108%N. split; [split; [split; [repeat split; discriminate|reflexivity]|reflexivity]|].
  intros b pd lv mp Hlv Hpd. destruct (JL b pd lv mp Hlv Hpd) as (body & W & Hd & Lx).
  exists (G pd lv (t_comments t)), body. split.
  { cbn [write_expr]. cbn [app]. rewrite app_nil_r. exact W. }
  split; [apply G_gap; assumption|].
  split; [intros _; apply nofuse_other; discriminate|].
  split; [intros H1 H2; apply G_nolf; assumption|]. split; [exact Hd|].
  intros K HK gs l Tg Hl.
  destruct (Lx K HK gs l Tg Hl) as (t1 & n' & v' & ts & l' & L & R & Ty1 & N1 & Nl1 & Mn & Sn & Sv & C).
  exists (ELet t1 n' v'), (t1 :: id_tok n' :: ts), l'.
  split; [exact L|]. split; [exact R|]. split; [|split].
  - intro R0. cbn [m_expr app]. rewrite Ty1. change (T_LET =? T_LET) with true. cbn [negb].
    rewrite eat_tok_refl, Mn, enil_match, (is_enil_shape _ _ Sv).
    destruct C as [[E ->]|(E & teq & tsv & -> & Teq & Mv)]; rewrite E.
    + reflexivity.
    + cbn [app eat]. rewrite Teq. change (T_ASSIGN =? T_ASSIGN) with true. cbn iota. apply Mv.
  - unfold shape_expr in *. cbn [tmap_expr]. rewrite N1, Sn, Sv. reflexivity.
  - cbn [first_type]. exists t1, (id_tok n' :: ts). repeat split; [congruence|exact Nl1].
Qed.

(* ================================================================== *)
(* 5. statements                                                       *)
(* ================================================================== *)

Definition LxS (body : str) (s : stmt) : Prop :=
  forall K gs l, trv gs -> l_rest l = gs ++ rta body K ->
    exists s' ts l', lexes l ts l' /\ ts <> [] /\ l_rest l' = K /\
      (forall nx R, m_stmt s' nx (ts ++ R) = Some R) /\ shape_stmt s' = shape_stmt s.

(* the text of a statement starts with a lexeme and ends in ';' or '}' *)
Definition send (body : str) : Prop := last body 0%N = 59%N \/ last body 0%N = 125%N.
Definition sbody (body : str) : Prop := (sst (hd 0%N body) /\ is_space_go (hd 0%N body) = false) /\ send body.

Lemma sbody_ne body : sbody body -> body <> [].
Proof. intros [[[_ H] _] _] E. subst body. cbn in H. congruence. Qed.
Lemma send_app a b : b <> [] -> send b -> send (a ++ b).
Proof. intros Ne H. unfold send. rewrite (last_app_ne a b Ne). exact H. Qed.
Lemma send_semi a : send (a ++ [59%N]).
Proof. left. apply last_last. Qed.
Lemma send_rbrace a : send (a ++ [125%N]).
Proof. right. apply last_last. Qed.
Lemma send_cons c b : b <> [] -> send b -> send (c :: b).
Proof. intros Ne H. apply (send_app [c] b Ne H). Qed.

Definition PSo (ops : list wop) (s : stmt) : Prop :=
  forall b pd lv mp, 0 <= lv -> pend_ok pd -> exists g body,
    prun (ps b pd lv mp) ops = ps (b ++ g ++ body) [] lv mp /\ wgap g /\ sbody body /\ LxS body s.

Definition PS (s : stmt) : Prop := PSo (write_stmt s) s.

Lemma LxS_gap g body s X K l : LxS body s -> wgap g -> sbody body ->
  l_rest l = rta (g ++ body ++ X) K ->
  exists s' ts l', lexes l ts l' /\ ts <> [] /\ l_rest l' = rta X K /\
    (forall nx R, m_stmt s' nx (ts ++ R) = Some R) /\ shape_stmt s' = shape_stmt s.
Proof.
  intros Lx Gg [[[S1 S2] _] _] Hl.
  destruct (gap_split g body X K _ Gg eq_refl S1 S2) as (g' & E & T' & _ & _ & _ & _).
  rewrite E in Hl. exact (Lx (rta X K) g' l T' Hl).
Qed.

Lemma kont_semi' {g} X K : kont g (rta (59%N :: X) K).
Proof. rewrite rta_cons_nb by discriminate. apply kont_cons; [reflexivity|discriminate]. Qed.

Lemma P_sexpr e le : PE e le -> is_enil e = false -> statement_keyword (first_type e) = false -> PS (SExpr e).
Proof.
  intros (c & Oc & J) Ne Kw b pd lv mp Hlv Hpd.
  destruct (J b pd lv mp Hlv Hpd) as (g & body & W & Gg & _ & _ & Hd & Lx).
  exists g, (body ++ [59%N]). split.
  { cbn [write_stmt]. rewrite Ne. rewrite prun_app, W. psimp. cbn [app]. f_equal. rewrite <- !app_assoc. reflexivity. }
  split; [exact Gg|]. split; [split; [rewrite (hd_app_ost body _ c Oc Hd); split; [apply ost_sst; exact Oc|apply ost_nsp; exact Oc]|apply send_semi]|].
  intros K gs l Tg Hl. rewrite rta_app in Hl.
  destruct (Lx _ (kont_semi' [] K) gs l Tg Hl) as (e' & ts & l1 & L1 & R1 & M & S & (t0 & ts0 & E & F & _)).
  destruct (P_semi [] [] K l1 wgap_nil R1) as (tsemi & l2 & L2 & Tsemi & R2).
  exists (SExpr e'), (ts ++ [tsemi]), l2.
  split; [eapply lexes_app; eassumption|]. split; [subst ts; discriminate|]. split; [exact R2|]. split.
  - intros nx R. rewrite <- app_assoc. cbn [m_stmt]. rewrite E at 1. cbn [app].
    rewrite F, Kw, M. apply m_end_semi. exact Tsemi.
  - cbn [shape_stmt tmap_stmt]. change (tmap_expr norm_tok) with shape_expr. rewrite S. reflexivity.
Qed.

Lemma P_slet t name v : NLF (t_comments t) -> PLet t name v -> PS (SLet t name v).
Proof.
  intros Hct JL b pd lv mp Hlv Hpd. destruct (JL b pd lv mp Hlv Hpd) as (body & W & Hd & Lx).
  exists (G pd lv (t_comments t)), (body ++ [59%N]). split.
  { cbn [write_stmt].
    match goal with |- prun _ ?ops = _ => replace ops with (let_ops t name v ++ [WSemi])
      by (unfold let_ops; cbn [app]; rewrite <- !app_assoc; reflexivity) end.
    rewrite prun_app, W. psimp. cbn [app]. f_equal. rewrite <- !app_assoc. reflexivity. }
  split; [apply G_gap; assumption|].
  split.
  { split; [|apply send_semi]. destruct body as [|x body']; [discriminate Hd|]. cbn [hd app] in *. subst x. split; [split; [reflexivity|discriminate]|reflexivity]. }
  intros K gs l Tg Hl. rewrite rta_app in Hl.
  destruct (Lx _ (kont_semi' [] K) gs l Tg Hl) as (t1 & n' & v' & ts & l1 & L & R & Ty1 & N1 & _ & Mn & Sn & Sv & C).
  destruct (P_semi [] [] K l1 wgap_nil R) as (tsemi & l2 & L2 & Tsemi & R2).
  exists (SLet t1 n' v'), ((t1 :: id_tok n' :: ts) ++ [tsemi]), l2.
  split; [eapply lexes_app; eassumption|]. split; [discriminate|]. split; [exact R2|]. split.
  - intros nx R0. cbn [m_stmt app]. rewrite Ty1. change (T_LET =? T_LET) with true. cbn [negb].
    rewrite eat_tok_refl, Mn, enil_match, (is_enil_shape _ _ Sv).
    destruct C as [[E ->]|(E & teq & tsv & -> & Teq & Mv)]; rewrite E.
    + cbn [app]. apply m_end_semi. exact Tsemi.
    + cbn [app eat]. rewrite Teq. change (T_ASSIGN =? T_ASSIGN) with true. cbn iota.
      rewrite <- app_assoc, Mv. cbn [app]. apply m_end_semi. exact Tsemi.
  - cbn [shape_stmt tmap_stmt]. change (tmap_expr norm_tok) with shape_expr. rewrite N1, Sn, Sv. reflexivity.
Qed.

Lemma nic_semi X K : is_ident_char (hd 0%N (rta (59%N :: X) K)) = false.
Proof. rewrite rta_cons_nb by discriminate. reflexivity. Qed.

(* the operand of [return] starts on the same line: it carries no leading comments *)
Lemma P_sreturn t v : t_type t = T_RETURN -> t_lit t = kw_return -> NLF (t_comments t) ->
  (is_enil v = false -> PE v []) -> PS (SReturn t v).
Proof.
  intros Ty Li Hct Jv b pd lv mp Hlv Hpd.
  destruct (is_enil v) eqn:Ev.
  - exists (G pd lv (t_comments t)), (kw_return ++ [59%N]). split.
    { cbn [write_stmt]. rewrite Ev. cbn [negb app]. psimp. cbn [app]. f_equal. unfold kw_return. rewrite <- !app_assoc. reflexivity. }
    split; [apply G_gap; assumption|]. split; [split; [split; [split; [reflexivity|discriminate]|reflexivity]|apply send_semi]|].
    intros K gs l Tg Hl.
    destruct (P_word0 T_RETURN kw_return gs [59%N] K l relex_return eq_refl ltac:(discriminate) ltac:(discriminate)
                (nic_semi [] K) Tg Hl) as (t1 & l1 & L1 & Ty1 & Li1 & _ & R1).
    destruct (P_semi [] [] K l1 wgap_nil R1) as (tsemi & l2 & L2 & Tsemi & R2).
    exists (SReturn t1 v), ([t1] ++ [tsemi]), l2.
    split; [eapply lexes_app; eassumption|]. split; [discriminate|]. split; [exact R2|]. split.
    + intros nx R. cbn [m_stmt app]. rewrite Ty1. change (T_RETURN =? T_RETURN) with true. cbn [negb].
      rewrite eat_tok_refl, enil_match, Ev. apply m_end_semi. exact Tsemi.
    + cbn [shape_stmt tmap_stmt]. rewrite (norm_eq t1 t) by congruence. reflexivity.
  - destruct (Jv eq_refl) as (cv & Ov & J).
    destruct (J (((b ++ G pd lv (t_comments t)) ++ kw_return) ++ [32%N]) [] lv mp Hlv pend_ok_nil)
      as (g2 & body2 & W & Gg2 & _ & Gl2 & Hd2 & Lx).
    exists (G pd lv (t_comments t)), (kw_return ++ (32%N :: g2) ++ body2 ++ [59%N]). split.
    { cbn [write_stmt]. rewrite Ev. cbn [negb]. psimp. cbn [app].
      change [114%N; 101%N; 116%N; 117%N; 114%N; 110%N] with kw_return.
      rewrite W. psimp. cbn [app]. f_equal. rewrite <- !app_assoc. reflexivity. }
    split; [apply G_gap; assumption|].
    split; [split; [split; [split; [reflexivity|discriminate]|reflexivity]|rewrite !app_assoc; apply send_semi]|].
    intros K gs l Tg Hl.
    assert (Gg3 : wgap (32%N :: g2)) by (apply wgap_sp_app; exact Gg2).
    destruct (P_word0 T_RETURN kw_return gs ((32%N :: g2) ++ body2 ++ [59%N]) K l relex_return eq_refl
                ltac:(discriminate) ltac:(discriminate)) as (t1 & l1 & L1 & Ty1 & Li1 & _ & R1); [|exact Tg|exact Hl|].
    { apply (nic_gap (32%N :: g2) body2 _ K cv Gg3 Hd2 (ost_sst _ Ov)). discriminate. }
    destruct (LxE_gap (32%N :: g2) body2 v _ cv [59%N] K l1 Lx Gg3 Hd2 Ov (kont_semi' [] K) R1)
      as (v' & ts & l2 & L2 & R2 & M & S & (t0 & ts0 & E & F & Nl)).
    assert (Nl0 : t_nl t0 = false).
    { apply Nl. rewrite has_lf_sp. apply Gl2; [exact notin_nil|reflexivity]. }
    destruct (P_semi [] [] K l2 wgap_nil R2) as (tsemi & l3 & L3 & Tsemi & R3).
    exists (SReturn t1 v'), ([t1] ++ ts ++ [tsemi]), l3.
    split; [eapply lexes_app; [exact L1|eapply lexes_app; eassumption]|].
    split; [discriminate|]. split; [exact R3|]. split.
    + intros nx R. cbn [m_stmt app]. rewrite Ty1. change (T_RETURN =? T_RETURN) with true. cbn [negb].
      rewrite eat_tok_refl, enil_match, (is_enil_shape _ _ S), Ev.
      rewrite <- app_assoc. specialize (M ([tsemi] ++ R)). subst ts. cbn [app] in *.
      rewrite Nl0, M. apply m_end_semi. exact Tsemi.
    + cbn [shape_stmt tmap_stmt]. change (tmap_expr norm_tok) with shape_expr.
      rewrite S, (norm_eq t1 t) by congruence. reflexivity.
Qed.

(* ---------- statement lists ---------- *)

Definition LxSS (body : str) (ss : list stmt) : Prop :=
  forall K gs l, trv gs -> l_rest l = gs ++ rta body K ->
    exists ss' ts l', lexes l ts l' /\ l_rest l' = K /\
      (forall nx R, m_stmts m_stmt ss' nx (ts ++ R) = Some R) /\ map shape_stmt ss' = map shape_stmt ss.

Lemma LxSS_gap g body ss X K l : LxSS body ss -> wgap g -> sbody body ->
  l_rest l = rta (g ++ body ++ X) K ->
  exists ss' ts l', lexes l ts l' /\ l_rest l' = rta X K /\
    (forall nx R, m_stmts m_stmt ss' nx (ts ++ R) = Some R) /\ map shape_stmt ss' = map shape_stmt ss.
Proof.
  intros Lx Gg [[[S1 S2] _] _] Hl.
  destruct (gap_split g body X K _ Gg eq_refl S1 S2) as (g' & E & T' & _ & _ & _ & _).
  rewrite E in Hl. exact (Lx (rta X K) g' l T' Hl).
Qed.

Lemma sst_hd_app (a b : str) : sst (hd 0%N a) -> hd 0%N (a ++ b) = hd 0%N a.
Proof. intros [_ H]. destruct a; [cbn in H; congruence|reflexivity]. Qed.

Lemma PSS_sep (f : stmt -> list wop) ss : forall s, Forall (fun x => PSo (f x) x) (s :: ss) ->
  forall b pd lv mp, 0 <= lv -> pend_ok pd -> exists g body,
    prun (ps b pd lv mp) (sep_map [WNewline] f (s :: ss)) = ps (b ++ g ++ body) [] lv mp /\
    wgap g /\ sbody body /\ LxSS body (s :: ss).
Proof.
  induction ss as [|y ss IH]; intros s F b pd lv mp Hlv Hpd.
  - inversion F as [|? ? Js _]; subst. destruct (Js b pd lv mp Hlv Hpd) as (g & body & W & Gg & Hs & Lx).
    exists g, body. split; [rewrite sep_map_one; exact W|]. split; [exact Gg|]. split; [exact Hs|].
    intros K gs l Tg Hl. destruct (Lx K gs l Tg Hl) as (s' & ts & l' & L & _ & R & M & S).
    exists [s'], ts, l'. split; [exact L|]. split; [exact R|]. split.
    + intros nx R0. cbn [m_stmts]. rewrite M. reflexivity.
    + cbn [map]. rewrite S. reflexivity.
  - inversion F as [|? ? Js F']; subst. destruct (Js b pd lv mp Hlv Hpd) as (g & body & W & Gg & Hs & Lx).
    destruct (IH y F' (b ++ g ++ body) [LF] lv mp Hlv pend_ok_lf) as (g2 & body2 & W2 & Gg2 & Hs2 & Lx2).
    exists g, (body ++ g2 ++ body2). split.
    { rewrite sep_map_cons2, !prun_app, W. psimp. rewrite W2. f_equal. rewrite <- !app_assoc. reflexivity. }
    split; [exact Gg|].
    split.
    { destruct Hs as [[Hs Hn] Se]. split; [rewrite (sst_hd_app _ _ Hs); split; [exact Hs|exact Hn]|].
      rewrite app_assoc. apply send_app; [exact (sbody_ne _ Hs2)|apply Hs2]. }
    intros K gs l Tg Hl. rewrite rta_app in Hl.
    destruct (Lx _ gs l Tg Hl) as (s' & ts & l1 & L1 & _ & R1 & M1 & S1).
    rewrite <- (app_nil_r body2) in R1.
    destruct (LxSS_gap g2 body2 (y :: ss) [] K l1 Lx2 Gg2 Hs2 R1) as (ss2 & ts2 & l2 & L2 & R2 & M2 & S2).
    exists (s' :: ss2), (ts ++ ts2), l2.
    split; [eapply lexes_app; eassumption|]. split; [exact R2|]. split.
    + intros nx R0. cbn [m_stmts]. rewrite <- app_assoc, M1. apply M2.
    + cbn [map]. rewrite S1. f_equal. exact S2.
Qed.

Lemma PSo_indent s : PS s -> PSo (WIndent :: write_stmt s ++ []) s.
Proof.
  intros J b pd lv mp Hlv Hpd.
  destruct (J b (add_pend pd TAB) lv mp Hlv (pend_ok_add pd TAB Hpd ltac:(auto))) as (g & body & W & R).
  exists g, body. split; [|exact R]. rewrite app_nil_r, prun_cons_ps, pt_indent. exact W.
Qed.

Lemma PSo_plain s : PS s -> PSo (write_stmt s ++ []) s.
Proof. intros J. unfold PSo. rewrite app_nil_r. exact J. Qed.

(* ---------- blocks ---------- *)

Lemma P_sblock lb ss rb : punct lb T_LBRACE = true -> punct rb T_RBRACE = true ->
  NLF (t_comments lb) -> NLF (t_comments rb) -> Forall PS ss -> PS (SBlock lb ss rb).
Proof.
  intros Hl1 Hl2 Hc1 Hc2 Js.
  destruct (punct_inv _ _ Hl1) as [Ty1 TT1]. rewrite type_text_lbrace in TT1. inversion TT1 as [Li1].
  destruct (punct_inv _ _ Hl2) as [Ty2 TT2]. rewrite type_text_rbrace in TT2. inversion TT2 as [Li2].
  intros b pd lv mp Hlv Hpd.
  set (g0 := G pd lv (t_comments lb)).
  set (gb := G [LF; TAB] lv (t_comments rb)).
  assert (Gg0 : wgap g0) by (apply G_gap; assumption).
  assert (Ggb : wgap gb) by (apply G_gap; [exact indent_blank|exact pend_ok_lftab|exact Hc2]).
  destruct ss as [|s ss].
  - exists g0, (123%N :: gb ++ [125%N]). split.
    { cbn [write_stmt sep_map app]. psimp. fold g0. cbn [app]. rewrite prun_block_close by exact Hlv. fold gb.
      rewrite prun_nil. f_equal. rewrite <- !app_assoc. reflexivity. }
    split; [exact Gg0|].
    split; [split; [split; [split; [reflexivity|discriminate]|reflexivity]|apply (send_rbrace (123%N :: gb))]|].
    intros K gs l Tg Hl.
    change (123%N :: gb ++ [125%N]) with ([123%N] ++ gb ++ [125%N]) in Hl.
    destruct (P_punct0 T_LBRACE [123%N] gs _ K l type_text_lbrace ltac:(pfree) Tg Hl)
      as (t1 & l1 & L1 & T1 & I1 & _ & R1).
    rewrite <- (app_nil_r [125%N]) in R1.
    destruct (P_punct T_RBRACE [125%N] gb [] K l1 type_text_rbrace ltac:(pfree) Ggb R1)
      as (t2 & l3 & L3 & T2 & I2 & _ & R3).
    exists (SBlock t1 [] t2), ([t1] ++ [t2]), l3.
    split; [eapply lexes_app; eassumption|].
    split; [discriminate|]. split; [exact R3|]. split.
    + intros nx R. cbn [m_stmt app]. rewrite T1, T2. change (T_LBRACE =? T_LBRACE) with true.
      change (T_RBRACE =? T_RBRACE) with true. cbn [negb orb m_stmts].
      rewrite eat_tok_refl. apply eat_tok_refl.
    + cbn [shape_stmt tmap_stmt map]. rewrite (norm_eq t1 lb), (norm_eq t2 rb) by congruence. reflexivity.
  - assert (F : Forall (fun x => PSo ((fun stmt => WIndent :: write_stmt stmt ++ []) x) x) (s :: ss)).
    { apply Forall_forall. intros x Hx. apply PSo_indent. exact (proj1 (Forall_forall _ _) Js x Hx). }
    destruct (PSS_sep _ ss s F ((b ++ g0) ++ [123%N]) [LF] (lv + 1) mp ltac:(lia) pend_ok_lf)
      as (g2 & body2 & W2 & Gg2 & Hs2 & Lx2).
    exists g0, (123%N :: (g2 ++ body2) ++ gb ++ [125%N]). split.
    { cbn [write_stmt]. psimp. fold g0. cbn [app]. rewrite W2. rewrite prun_block_close by exact Hlv. fold gb.
      rewrite prun_nil. f_equal. rewrite <- !app_assoc. reflexivity. }
    split; [exact Gg0|].
    split; [split; [split; [split; [reflexivity|discriminate]|reflexivity]|
                    change (123%N :: (g2 ++ body2) ++ gb ++ [125%N]) with ((123%N :: g2 ++ body2) ++ gb ++ [125%N]);
                    rewrite app_assoc; apply send_rbrace]|].
    intros K gs l Tg Hl.
    change (123%N :: (g2 ++ body2) ++ gb ++ [125%N]) with ([123%N] ++ (g2 ++ body2) ++ gb ++ [125%N]) in Hl.
    destruct (P_punct0 T_LBRACE [123%N] gs _ K l type_text_lbrace ltac:(pfree) Tg Hl)
      as (t1 & l1 & L1 & T1 & I1 & _ & R1).
    rewrite <- app_assoc in R1.
    destruct (LxSS_gap g2 body2 (s :: ss) (gb ++ [125%N]) K l1 Lx2 Gg2 Hs2 R1) as (ss' & ts & l2 & L2 & R2 & M & S).
    rewrite <- (app_nil_r [125%N]) in R2.
    destruct (P_punct T_RBRACE [125%N] gb [] K l2 type_text_rbrace ltac:(pfree) Ggb R2)
      as (t2 & l3 & L3 & T2 & I2 & _ & R3).
    exists (SBlock t1 ss' t2), ([t1] ++ ts ++ [t2]), l3.
    split; [eapply lexes_app; [exact L1|eapply lexes_app; eassumption]|].
    split; [discriminate|]. split; [exact R3|]. split.
    + intros nx R. cbn [m_stmt app]. rewrite T1, T2. change (T_LBRACE =? T_LBRACE) with true.
      change (T_RBRACE =? T_RBRACE) with true. cbn [negb orb].
      rewrite eat_tok_refl, <- app_assoc, M. cbn [app]. apply eat_tok_refl.
    + cbn [shape_stmt tmap_stmt]. change (tmap_stmt norm_tok) with shape_stmt. rewrite S.
      rewrite (norm_eq t1 lb), (norm_eq t2 rb) by congruence. reflexivity.
Qed.

(* ---------- parameters and function tails ---------- *)

Definition IOK (i : ident) : Prop := ident_lexical i = true /\ NLF (t_comments (id_tok i)).

Definition LxPar (body : str) (ps0 : list ident) : Prop :=
  forall K, is_ident_char (hd 0%N K) = false -> forall l, l_rest l = rta body K ->
    exists ps' ts l', lexes l ts l' /\ l_rest l' = K /\
      (forall R, m_params ps' (ts ++ R) = Some R) /\
      map (tmap_ident norm_tok) ps' = map (tmap_ident norm_tok) ps0.

Definition PPar (ops : list wop) (ps0 : list ident) : Prop :=
  forall b pd lv mp, 0 <= lv -> pend_ok pd -> exists body,
    prun (ps b pd lv mp) ops = ps (b ++ body) (match ps0 with [] => pd | _ => [] end) lv mp /\ LxPar body ps0.

Lemma nic_comma X K : is_ident_char (hd 0%N (rta (44%N :: X) K)) = false.
Proof. rewrite rta_cons_nb by discriminate. reflexivity. Qed.

Lemma PPar_sep ps0 : Forall IOK ps0 ->
  PPar (sep_map [WRune 44%N; WSpace] (fun p => write_ident p ++ []) ps0) ps0.
Proof.
  induction 1 as [|x ps0 [Hx Hcx] Hps IH]; intros b pd lv mp Hlv Hpd.
  - exists []. split; [rewrite app_nil_r; reflexivity|].
    intros K HK l Hl. exists [], [], l. repeat split; try constructor. exact Hl.
  - set (gx := G pd lv (t_comments (id_tok x))).
    assert (Ggx : wgap gx) by (apply G_gap; assumption).
    destruct ps0 as [|y ps'].
    + exists (gx ++ id_value x). split.
      { rewrite sep_map_one. unfold write_ident. psimp. fold gx. cbn [app]. rewrite <- !app_assoc. reflexivity. }
      intros K HK l Hl. rewrite <- (app_nil_r (id_value x)) in Hl.
      destruct (P_ident_step x gx [] K l Hx Ggx HK Hl) as (t & l' & L & Ty & Li & R & M & S).
      exists [mkident t (id_value x)], [t], l'. split; [exact L|]. split; [exact R|]. split.
      * intro R0. cbn [m_params app]. apply M.
      * cbn [map]. rewrite S. reflexivity.
    + destruct (IH (((b ++ gx) ++ id_value x) ++ [44%N]) [32%N] lv mp Hlv pend_ok_sp) as (body2 & W2 & Lx2).
      exists (gx ++ id_value x ++ 44%N :: body2). split.
      { rewrite sep_map_cons2. unfold write_ident at 1. psimp. fold gx. cbn [app]. rewrite W2. f_equal.
        rewrite <- !app_assoc. reflexivity. }
      intros K HK l Hl.
      destruct (P_ident_step x gx (44%N :: body2) K l Hx Ggx (nic_comma _ _) Hl) as (t & l1 & L1 & Ty & Li & R1 & M1 & S1).
      destruct (P_comma [] body2 K l1 wgap_nil R1) as (tc & l2 & L2 & Tc & R2).
      destruct (Lx2 K HK l2 R2) as (ps2 & ts2 & l3 & L3 & R3 & M3 & S3).
      exists (mkident t (id_value x) :: ps2), ([t] ++ [tc] ++ ts2), l3.
      split; [eapply lexes_app; [exact L1|eapply lexes_app; eassumption]|]. split; [exact R3|].
      split.
      * intro R. destruct ps2 as [|p2 ps2']; [discriminate S3|].
        cbn [m_params app]. rewrite M1. cbn [eat]. rewrite Tc.
        change (T_COMMA =? T_COMMA) with true. cbn iota. apply M3.
      * cbn [map]. rewrite S1. f_equal. exact S3.
Qed.

Lemma nic_rparen X K : is_ident_char (hd 0%N (rta (41%N :: X) K)) = false.
Proof. rewrite rta_cons_nb by discriminate. reflexivity. Qed.

Lemma P_ftail params body : Forall IOK params -> PS body -> is_block body = true ->
  forall b lv mp, 0 <= lv -> exists txt,
    prun (ps b [] lv mp) (ftail_ops params body) = ps (b ++ 40%N :: txt) [] lv mp /\ send (40%N :: txt) /\
    forall K l, l_rest l = rta (40%N :: txt) K ->
      exists ps' body' ts l', lexes l ts l' /\ l_rest l' = K /\
        (forall R, m_ftail ps' body' (ts ++ R) = Some R) /\
        map (tmap_ident norm_tok) ps' = map (tmap_ident norm_tok) params /\
        shape_stmt body' = shape_stmt body.
Proof.
  intros Hp Jb Bl b lv mp Hlv.
  destruct (PPar_sep _ Hp (b ++ [40%N]) [] lv mp Hlv pend_ok_nil) as (tp & Wp & Lp).
  destruct (Jb (((b ++ [40%N]) ++ tp) ++ [41%N]) [32%N] lv mp Hlv pend_ok_sp) as (gb & tb & Wb & Ggb & Hsb & Lb).
  exists (tp ++ 41%N :: gb ++ tb). split.
  { unfold ftail_ops. psimp. cbn [app]. rewrite Wp.
    assert (E : (match params with [] => @nil N | _ :: _ => [] end) = []) by (destruct params; reflexivity).
    rewrite E. psimp. cbn [app]. rewrite ?app_nil_r, Wb. f_equal. rewrite <- !app_assoc. reflexivity. }
  split.
  { change (40%N :: tp ++ 41%N :: gb ++ tb) with ((40%N :: tp) ++ (41%N :: gb) ++ tb). rewrite app_assoc.
    apply send_app; [exact (sbody_ne _ Hsb)|apply Hsb]. }
  intros K l Hl.
  change (40%N :: tp ++ 41%N :: gb ++ tb) with ([] ++ [40%N] ++ tp ++ 41%N :: gb ++ tb) in Hl.
  destruct (P_punct T_LPAREN [40%N] [] _ K l type_text_lparen ltac:(pfree) wgap_nil Hl)
    as (t1 & l1 & L1 & T1 & _ & _ & R1).
  rewrite rta_app in R1.
  destruct (Lp _ (nic_rparen _ K) l1 R1) as (ps' & tsp & l2 & L2 & R2 & Mp & Sp).
  change (41%N :: gb ++ tb) with ([] ++ [41%N] ++ gb ++ tb) in R2.
  destruct (P_punct T_RPAREN [41%N] [] _ K l2 type_text_rparen ltac:(pfree) wgap_nil R2)
    as (t2 & l3 & L3 & T2 & _ & _ & R3).
  rewrite <- (app_nil_r tb) in R3.
  destruct (LxS_gap gb tb body [] K l3 Lb Ggb Hsb R3) as (body' & tsb & l4 & L4 & _ & R4 & Mb & Sb).
  exists ps', body', ([t1] ++ tsp ++ [t2] ++ tsb), l4.
  split; [eapply lexes_app; [exact L1|eapply lexes_app; [exact L2|eapply lexes_app; eassumption]]|].
  split; [exact R4|]. split; [|split; assumption].
  intro R. unfold m_ftail. cbn [app eat]. rewrite T1. change (T_LPAREN =? T_LPAREN) with true. cbn iota.
  rewrite <- !app_assoc, Mp. cbn [app eat]. rewrite T2. change (T_RPAREN =? T_RPAREN) with true. cbn iota.
  pose proof (is_block_shape _ _ Sb) as Bl'. rewrite Bl in Bl'.
  destruct body'; try discriminate Bl'. apply Mb.
Qed.

Lemma nic_lparen X K : is_ident_char (hd 0%N (rta (40%N :: X) K)) = false.
Proof. rewrite rta_cons_nb by discriminate. reflexivity. Qed.

Lemma P_sfunc t name params body : t_type t = T_FUNCTION -> t_lit t = kw_function -> NLF (t_comments t) ->
  IOK name -> Forall IOK params -> PS body -> is_block body = true -> PS (SFunc t name params body).
Proof.
  intros Ty Li Hct [Hn Hcn] Hp Jb Bl b pd lv mp Hlv Hpd.
  pose proof (ident_first _ Hn) as HL.
  set (g0 := G pd lv (t_comments t)).
  set (gn := G [] lv (t_comments (id_tok name))).
  assert (Ggn : wgap (32%N :: gn)).
  { apply wgap_sp_app. apply G_gap; [exact indent_blank|exact pend_ok_nil|exact Hcn]. }
  destruct (P_ftail params body Hp Jb Bl ((((b ++ g0) ++ kw_function ++ [32%N]) ++ gn) ++ id_value name) lv mp Hlv) as (txt & W & Se & Lx).
  exists g0, (kw_function ++ (32%N :: gn) ++ id_value name ++ 40%N :: txt). split.
  { cbn [write_stmt]. fold (ftail_ops params body). unfold write_ident. psimp. fold g0. fold gn. cbn [app].
    change [102%N; 117%N; 110%N; 99%N; 116%N; 105%N; 111%N; 110%N; 32%N] with (kw_function ++ [32%N]).
    rewrite W. f_equal. rewrite <- !app_assoc. reflexivity. }
  split; [apply G_gap; assumption|].
  split; [split; [split; [split; [reflexivity|discriminate]|reflexivity]|rewrite !app_assoc; apply send_app; [discriminate|exact Se]]|].
  intros K gs l Tg Hl.
  destruct (P_word0 T_FUNCTION kw_function gs ((32%N :: gn) ++ id_value name ++ 40%N :: txt) K l relex_function eq_refl
              ltac:(discriminate) ltac:(discriminate)) as (t1 & l1 & L1 & Ty1 & Li1 & _ & R1); [|exact Tg|exact Hl|].
  { apply (nic_gap (32%N :: gn) (id_value name) _ K _ Ggn eq_refl (letter_sst _ HL)). discriminate. }
  destruct (P_ident_step name (32%N :: gn) (40%N :: txt) K l1 Hn Ggn (nic_lparen _ _) R1)
    as (t2 & l2 & L2 & Ty2 & Li2 & R2 & M2 & S2).
  destruct (Lx K l2 R2) as (ps' & body' & ts & l3 & L3 & R3 & M3 & Sp & Sb).
  exists (SFunc t1 (mkident t2 (id_value name)) ps' body'), ([t1] ++ [t2] ++ ts), l3.
  split; [eapply lexes_app; [exact L1|eapply lexes_app; eassumption]|].
  split; [discriminate|]. split; [exact R3|]. split.
  - intros nx R. cbn [m_stmt app]. rewrite Ty1. change (T_FUNCTION =? T_FUNCTION) with true. cbn [negb].
    rewrite eat_tok_refl, M2. apply (M3 R).
  - cbn [shape_stmt tmap_stmt]. change (tmap_stmt norm_tok) with shape_stmt.
    rewrite S2, Sp, Sb, (norm_eq t1 t) by congruence. reflexivity.
Qed.

Lemma P_func t name params body : t_type t = T_FUNCTION -> t_lit t = kw_function -> NLF (t_comments t) ->
  match name with Some n => IOK n | None => True end ->
  Forall IOK params -> PS body -> is_block body = true -> PE (EFunc t name params body) (t_comments t).
Proof.
  intros Ty Li Hct Hn Hp Jb Bl.
  exists 102%N. split; [split; [split; [repeat split; discriminate|reflexivity]|reflexivity]|].
  cbn [first_type]. rewrite Ty.
  intros b pd lv mp Hlv Hpd.
  set (g0 := G pd lv (t_comments t)).
  destruct name as [n|].
  - destruct Hn as [Hn Hcn]. pose proof (ident_first _ Hn) as HL.
    set (gn := G [] lv (t_comments (id_tok n))).
    assert (Ggn : wgap (32%N :: gn)).
    { apply wgap_sp_app. apply G_gap; [exact indent_blank|exact pend_ok_nil|exact Hcn]. }
    destruct (P_ftail params body Hp Jb Bl (((((b ++ g0) ++ kw_function) ++ [32%N]) ++ gn) ++ id_value n) lv mp Hlv) as (txt & W & _ & Lx).
    exists g0, (kw_function ++ (32%N :: gn) ++ id_value n ++ 40%N :: txt). split.
    { cbn [write_expr]. fold (ftail_ops params body). unfold write_ident. cbn [app]. psimp. fold g0. fold gn. cbn [app].
      change [102%N; 117%N; 110%N; 99%N; 116%N; 105%N; 111%N; 110%N] with kw_function.
      rewrite W. f_equal. rewrite <- !app_assoc. reflexivity. }
    split; [apply G_gap; assumption|].
    split; [intros _; apply nofuse_other; discriminate|].
    split; [intros H1 H2; apply G_nolf; assumption|]. split; [reflexivity|].
    intros K _ gs l Tg Hl.
    destruct (P_word0 T_FUNCTION kw_function gs ((32%N :: gn) ++ id_value n ++ 40%N :: txt) K l relex_function eq_refl
                ltac:(discriminate) ltac:(discriminate)) as (t1 & l1 & L1 & Ty1 & Li1 & Nl1 & R1); [|exact Tg|exact Hl|].
    { apply (nic_gap (32%N :: gn) (id_value n) _ K _ Ggn eq_refl (letter_sst _ HL)). discriminate. }
    destruct (P_ident_step n (32%N :: gn) (40%N :: txt) K l1 Hn Ggn (nic_lparen _ _) R1)
      as (t2 & l2 & L2 & Ty2 & Li2 & R2 & M2 & S2).
    destruct (Lx K l2 R2) as (ps' & body' & ts & l3 & L3 & R3 & M3 & Sp & Sb).
    exists (EFunc t1 (Some (mkident t2 (id_value n))) ps' body'), ([t1] ++ [t2] ++ ts), l3.
    split; [eapply lexes_app; [exact L1|eapply lexes_app; eassumption]|].
    split; [exact R3|]. split; [|split].
    + intro R. cbn [m_expr app]. rewrite Ty1. change (T_FUNCTION =? T_FUNCTION) with true. cbn [negb].
      rewrite eat_tok_refl, M2. apply (M3 R).
    + unfold shape_expr. cbn [tmap_expr option_map]. change (tmap_stmt norm_tok) with shape_stmt.
      rewrite S2, Sp, Sb, (norm_eq t1 t) by congruence. reflexivity.
    + exists t1, ([t2] ++ ts). repeat split; assumption.
  - destruct (P_ftail params body Hp Jb Bl ((b ++ g0) ++ kw_function) lv mp Hlv) as (txt & W & _ & Lx).
    exists g0, (kw_function ++ 40%N :: txt). split.
    { cbn [write_expr]. fold (ftail_ops params body). cbn [app]. psimp. fold g0. cbn [app].
      change [102%N; 117%N; 110%N; 99%N; 116%N; 105%N; 111%N; 110%N] with kw_function.
      rewrite W. f_equal. rewrite <- !app_assoc. reflexivity. }
    split; [apply G_gap; assumption|].
    split; [intros _; apply nofuse_other; discriminate|].
    split; [intros H1 H2; apply G_nolf; assumption|]. split; [reflexivity|].
    intros K _ gs l Tg Hl.
    destruct (P_word0 T_FUNCTION kw_function gs (40%N :: txt) K l relex_function eq_refl
                ltac:(discriminate) ltac:(discriminate) (nic_lparen _ _) Tg Hl)
      as (t1 & l1 & L1 & Ty1 & Li1 & Nl1 & R1).
    destruct (Lx K l1 R1) as (ps' & body' & ts & l3 & L3 & R3 & M3 & Sp & Sb).
    exists (EFunc t1 None ps' body'), ([t1] ++ ts), l3.
    split; [eapply lexes_app; eassumption|].
    split; [exact R3|]. split; [|split].
    + intro R. cbn [m_expr app]. rewrite Ty1. change (T_FUNCTION =? T_FUNCTION) with true. cbn [negb].
      rewrite eat_tok_refl. apply (M3 R).
    + unfold shape_expr. cbn [tmap_expr]. change (tmap_stmt norm_tok) with shape_stmt.
      rewrite Sp, Sb, (norm_eq t1 t) by congruence. reflexivity.
    + exists t1, ts. repeat split; assumption.
Qed.

(* ---------- keyword ( condition ) ---------- *)

Lemma P_kwcond ty kw c lc : relex_word ty kw = true -> is_word_type ty = true -> ty <> T_INT -> ty <> T_FLOAT ->
  PE c lc ->
  forall b lv mp, 0 <= lv -> exists txt,
    (forall rest, prun (ps b [] lv mp) (WString kw :: WSpace :: WRune 40%N :: write_expr c ++ WRune 41%N :: WSpace :: rest)
                  = prun (ps (b ++ kw ++ 32%N :: 40%N :: txt ++ [41%N]) [32%N] lv mp) rest) /\
    forall X K gs l, trv gs -> l_rest l = gs ++ rta (kw ++ 32%N :: 40%N :: txt ++ 41%N :: X) K ->
      exists t1 tl c' tsc tr l', lexes l ([t1; tl] ++ tsc ++ [tr]) l' /\ l_rest l' = rta X K /\
        t_type t1 = ty /\ t_lit t1 = kw /\ t_type tl = T_LPAREN /\ t_type tr = T_RPAREN /\
        (forall R, m_expr c' (tsc ++ R) = Some R) /\ shape_expr c' = shape_expr c.
Proof.
  intros H W NI NF (cc0 & Oc & J) b lv mp Hlv.
  destruct (J ((b ++ kw) ++ [32%N; 40%N]) [] lv mp Hlv pend_ok_nil) as (g & body & Wc & Gg & _ & _ & Hd & Lx).
  exists (g ++ body). split.
  { intro rest. psimp. cbn [app]. rewrite Wc. psimp. cbn [app].
    f_equal. f_equal. rewrite <- !app_assoc. cbn [app]. rewrite <- ?app_assoc. reflexivity. }
  intros X K gs l Tg Hl.
  change (kw ++ 32%N :: 40%N :: (g ++ body) ++ 41%N :: X) with (kw ++ [32%N] ++ [40%N] ++ (g ++ body) ++ 41%N :: X) in Hl.
  destruct (P_word0 ty kw gs ([32%N] ++ [40%N] ++ (g ++ body) ++ 41%N :: X) K l H W NI NF) as (t1 & l1 & L1 & Ty1 & Li1 & _ & R1); [|exact Tg|exact Hl|].
  { apply (nic_gap [32%N] [40%N] _ K 40%N wgap_sp eq_refl); [split; [reflexivity|discriminate]|discriminate]. }
  destruct (P_punct T_LPAREN [40%N] [32%N] _ K l1 type_text_lparen ltac:(pfree) wgap_sp R1)
    as (tl & l2 & L2 & Tl & _ & _ & R2).
  rewrite <- app_assoc in R2.
  destruct (LxE_gap g body c _ cc0 (41%N :: X) K l2 Lx Gg Hd Oc) with (2 := R2)
    as (c' & tsc & l3 & L3 & R3 & M & S & _).
  { rewrite rta_cons_nb by discriminate. apply kont_cons; [reflexivity|discriminate]. }
  change (41%N :: X) with ([] ++ [41%N] ++ X) in R3.
  destruct (P_punct T_RPAREN [41%N] [] X K l3 type_text_rparen ltac:(pfree) wgap_nil R3)
    as (tr & l4 & L4 & Tr & _ & _ & R4).
  exists t1, tl, c', tsc, tr, l4.
  split; [exact (lexes_app _ _ _ _ _ (lexes_app _ _ _ _ _ L1 L2) (lexes_app _ _ _ _ _ L3 L4))|].
  repeat split; assumption.
Qed.

(* ---------- while ---------- *)

Lemma P_swhile t c body lc : t_type t = T_WHILE -> t_lit t = kw_while -> NLF (t_comments t) ->
  PE c lc -> PS body -> PS (SWhile t c body).
Proof.
  intros Ty Li Hct Jc Jb b pd lv mp Hlv Hpd.
  set (g0 := G pd lv (t_comments t)).
  destruct (P_kwcond T_WHILE kw_while c lc relex_while eq_refl ltac:(discriminate) ltac:(discriminate) Jc (b ++ g0) lv mp Hlv)
    as (txt & Wc & Lc).
  destruct (Jb ((b ++ g0) ++ kw_while ++ 32%N :: 40%N :: txt ++ [41%N]) [32%N] lv mp Hlv pend_ok_sp) as (gb & tb & Wb & Ggb & Hsb & Lb).
  exists g0, (kw_while ++ 32%N :: 40%N :: txt ++ 41%N :: gb ++ tb). split.
  { cbn [write_stmt]. rewrite prun_lead. fold g0.
    change [119%N; 104%N; 105%N; 108%N; 101%N] with kw_while.
    rewrite Wc, app_nil_r, Wb. f_equal. rewrite <- !app_assoc. cbn [app]. rewrite <- !app_assoc. reflexivity. }
  split; [apply G_gap; assumption|].
  split; [split; [split; [split; [reflexivity|discriminate]|reflexivity]|
                  change (kw_while ++ 32%N :: 40%N :: txt ++ 41%N :: gb ++ tb) with (kw_while ++ (32%N :: 40%N :: txt) ++ (41%N :: gb) ++ tb);
                  rewrite !app_assoc; apply send_app; [exact (sbody_ne _ Hsb)|apply Hsb]]|].
  intros K gs l Tg Hl.
  destruct (Lc (gb ++ tb) K gs l Tg Hl) as (t1 & tl & c' & tsc & tr & l1 & L1 & R1 & Ty1 & Li1 & Tl & Tr & Mc & Sc).
  rewrite <- (app_nil_r tb) in R1.
  destruct (LxS_gap gb tb body [] K l1 Lb Ggb Hsb R1) as (body' & tsb & l2 & L2 & _ & R2 & Mb & Sb).
  exists (SWhile t1 c' body'), (([t1; tl] ++ tsc ++ [tr]) ++ tsb), l2.
  split; [eapply lexes_app; eassumption|]. split; [discriminate|]. split; [exact R2|]. split.
  - intros nx R. cbn [m_stmt app]. rewrite Ty1. change (T_WHILE =? T_WHILE) with true. cbn [negb].
    rewrite eat_tok_refl. cbn [eat]. rewrite Tl. change (T_LPAREN =? T_LPAREN) with true. cbn iota.
    rewrite <- !app_assoc, Mc. cbn [app eat]. rewrite Tr. change (T_RPAREN =? T_RPAREN) with true. cbn iota.
    apply Mb.
  - cbn [shape_stmt tmap_stmt]. change (tmap_stmt norm_tok) with shape_stmt. change (tmap_expr norm_tok) with shape_expr.
    rewrite Sc, Sb, (norm_eq t1 t) by congruence. reflexivity.
Qed.

(* ---------- if [else] ---------- *)

Lemma P_sif t c thn els lc : t_type t = T_IF -> t_lit t = kw_if -> NLF (t_comments t) -> PE c lc -> PS thn ->
  (is_snil els = false -> PS els) -> PS (SIf t c thn els).
Proof.
  intros Ty Li Hct Jc Jt Je b pd lv mp Hlv Hpd.
  set (g0 := G pd lv (t_comments t)).
  destruct (P_kwcond T_IF kw_if c lc relex_if eq_refl ltac:(discriminate) ltac:(discriminate) Jc (b ++ g0) lv mp Hlv)
    as (txt & Wc & Lc).
  destruct (Jt ((b ++ g0) ++ kw_if ++ 32%N :: 40%N :: txt ++ [41%N]) [32%N] lv mp Hlv pend_ok_sp) as (gt & tt & Wt & Ggt & Hst & Lt).
  destruct (is_snil els) eqn:Ee.
  - exists g0, (kw_if ++ 32%N :: 40%N :: txt ++ 41%N :: gt ++ tt). split.
    { cbn [write_stmt]. rewrite Ee. cbn [negb]. rewrite prun_lead. fold g0.
      change [105%N; 102%N] with kw_if.
      rewrite Wc, !app_nil_r, Wt. f_equal. rewrite <- !app_assoc. cbn [app]. rewrite <- !app_assoc. reflexivity. }
    split; [apply G_gap; assumption|].
    split; [split; [split; [split; [reflexivity|discriminate]|reflexivity]|
                    change (kw_if ++ 32%N :: 40%N :: txt ++ 41%N :: gt ++ tt) with (kw_if ++ (32%N :: 40%N :: txt) ++ (41%N :: gt) ++ tt);
                    rewrite !app_assoc; apply send_app; [exact (sbody_ne _ Hst)|apply Hst]]|].
    intros K gs l Tg Hl.
    destruct (Lc (gt ++ tt) K gs l Tg Hl) as (t1 & tl & c' & tsc & tr & l1 & L1 & R1 & Ty1 & Li1 & Tl & Tr & Mc & Sc).
    rewrite <- (app_nil_r tt) in R1.
    destruct (LxS_gap gt tt thn [] K l1 Lt Ggt Hst R1) as (thn' & tst & l2 & L2 & _ & R2 & Mt & St).
    exists (SIf t1 c' thn' SNil), (([t1; tl] ++ tsc ++ [tr]) ++ tst), l2.
    split; [eapply lexes_app; eassumption|]. split; [discriminate|]. split; [exact R2|]. split.
    + intros nx R. cbn [m_stmt app]. rewrite Ty1. change (T_IF =? T_IF) with true. cbn [negb].
      rewrite eat_tok_refl. cbn [eat]. rewrite Tl. change (T_LPAREN =? T_LPAREN) with true. cbn iota.
      rewrite <- !app_assoc, Mc. cbn [app eat]. rewrite Tr. change (T_RPAREN =? T_RPAREN) with true. cbn iota.
      rewrite Mt. reflexivity.
    + apply is_snil_true in Ee. subst els.
      cbn [shape_stmt tmap_stmt]. change (tmap_stmt norm_tok) with shape_stmt. change (tmap_expr norm_tok) with shape_expr.
      rewrite Sc, St, (norm_eq t1 t) by congruence. reflexivity.
  - destruct (Je eq_refl ((((b ++ g0) ++ kw_if ++ 32%N :: 40%N :: txt ++ [41%N]) ++ gt ++ tt) ++ 32%N :: kw_else ++ [32%N]) [] lv mp Hlv pend_ok_nil)
      as (ge & te & We & Gge & Hse & Le).
    assert (Gge' : wgap (32%N :: ge)) by (apply wgap_sp_app; exact Gge).
    exists g0, (kw_if ++ 32%N :: 40%N :: txt ++ 41%N :: gt ++ tt ++ 32%N :: kw_else ++ (32%N :: ge) ++ te). split.
    { cbn [write_stmt]. rewrite Ee. cbn [negb]. rewrite prun_lead. fold g0.
      change [105%N; 102%N] with kw_if.
      rewrite Wc, !app_nil_r, prun_app, Wt. psimp. cbn [app].
      change [32%N; 101%N; 108%N; 115%N; 101%N; 32%N] with (32%N :: kw_else ++ [32%N]).
      rewrite We. f_equal. repeat (rewrite <- ?app_assoc; cbn [app]). reflexivity. }
    split; [apply G_gap; assumption|].
    split; [split; [split; [split; [reflexivity|discriminate]|reflexivity]|
                    change (kw_if ++ 32%N :: 40%N :: txt ++ 41%N :: gt ++ tt ++ 32%N :: kw_else ++ (32%N :: ge) ++ te)
                      with (kw_if ++ (32%N :: 40%N :: txt) ++ (41%N :: gt) ++ tt ++ (32%N :: kw_else) ++ (32%N :: ge) ++ te);
                    rewrite !app_assoc; apply send_app; [exact (sbody_ne _ Hse)|apply Hse]]|].
    intros K gs l Tg Hl.
    destruct (Lc (gt ++ tt ++ 32%N :: kw_else ++ (32%N :: ge) ++ te) K gs l Tg Hl)
      as (t1 & tl & c' & tsc & tr & l1 & L1 & R1 & Ty1 & Li1 & Tl & Tr & Mc & Sc).
    destruct (LxS_gap gt tt thn _ K l1 Lt Ggt Hst R1) as (thn' & tst & l2 & L2 & _ & R2 & Mt & St).
    change (32%N :: kw_else ++ (32%N :: ge) ++ te) with ([32%N] ++ kw_else ++ (32%N :: ge) ++ te) in R2.
    destruct (P_word T_ELSE kw_else [32%N] ((32%N :: ge) ++ te) K l2 relex_else eq_refl
                ltac:(discriminate) ltac:(discriminate)) as (t2 & l3 & L3 & Ty2 & Li2 & _ & R3); [|exact wgap_sp|exact R2|].
    { rewrite <- (app_nil_r te). apply (nic_gap (32%N :: ge) te [] K _ Gge' eq_refl (proj1 (proj1 Hse))). discriminate. }
    rewrite <- (app_nil_r te) in R3.
    destruct (LxS_gap (32%N :: ge) te els [] K l3 Le Gge' Hse R3) as (els' & tse & l4 & L4 & Ne4 & R4 & Me & Se).
    exists (SIf t1 c' thn' els'), (([t1; tl] ++ tsc ++ [tr]) ++ tst ++ [t2] ++ tse), l4.
    split; [eapply lexes_app; [exact L1|eapply lexes_app; [exact L2|eapply lexes_app; eassumption]]|].
    split; [discriminate|]. split; [exact R4|]. split.
    + intros nx R. cbn [m_stmt app]. rewrite Ty1. change (T_IF =? T_IF) with true. cbn [negb].
      rewrite eat_tok_refl. cbn [eat]. rewrite Tl. change (T_LPAREN =? T_LPAREN) with true. cbn iota.
      rewrite <- !app_assoc, Mc. cbn [app eat]. rewrite Tr. change (T_RPAREN =? T_RPAREN) with true. cbn iota.
      rewrite Mt, snil_match, (is_snil_shape _ _ Se), Ee. cbn [eat]. rewrite Ty2.
      change (T_ELSE =? T_ELSE) with true. cbn iota. apply Me.
    + cbn [shape_stmt tmap_stmt]. change (tmap_stmt norm_tok) with shape_stmt. change (tmap_expr norm_tok) with shape_expr.
      rewrite Sc, St, Se, (norm_eq t1 t) by congruence. reflexivity.
Qed.

(* ---------- for ---------- *)

Definition LxOpt (txt : str) (e : expr) : Prop :=
  forall K, kont ENil K -> forall l, l_rest l = rta txt K ->
    exists e' ts l', lexes l ts l' /\ l_rest l' = K /\
      (forall R, (if is_enil e' then Some (ts ++ R) else m_expr e' (ts ++ R)) = Some R) /\
      shape_expr e' = shape_expr e.

Definition POpt (e : expr) : Prop :=
  forall b pd lv mp, 0 <= lv -> pend_ok pd -> exists txt,
    prun (ps b pd lv mp) (opt_ops e) = ps (b ++ txt) (if is_enil e then pd else []) lv mp /\ LxOpt txt e.

Lemma P_opt e le : (is_enil e = false -> PE e le) -> POpt e.
Proof.
  intros J b pd lv mp Hlv Hpd. unfold opt_ops. destruct (is_enil e) eqn:Ee.
  - apply is_enil_true in Ee. subst e. exists []. split; [cbn [negb]; rewrite app_nil_r; reflexivity|].
    intros K _ l Hl. exists ENil, [], l. split; [constructor|]. split; [exact Hl|]. split; reflexivity.
  - destruct (J eq_refl) as (c & Oc & Je). destruct (Je b pd lv mp Hlv Hpd) as (g & body & W & Gg & _ & _ & Hd & Lx).
    exists (g ++ body). split; [cbn [negb]; rewrite app_nil_r; exact W|].
    intros K HK l Hl. rewrite <- (app_nil_r body) in Hl.
    destruct (LxE_gap g body e _ c [] K l Lx Gg Hd Oc (kont_sub _ _ _ HK eq_refl) Hl) as (e' & ts & l' & L & R & M & S & _).
    exists e', ts, l'. split; [exact L|]. split; [exact R|]. split; [|exact S].
    intro R0. rewrite (is_enil_shape _ _ S), Ee. apply M.
Qed.

Definition spn (e : expr) : str := if is_enil e then [32%N] else [].

Lemma spn_gap e : wgap (spn e).
Proof. unfold spn. destruct (is_enil e); [exact wgap_sp|exact wgap_nil]. Qed.

Lemma fl_spn e lv : fl (if is_enil e then [32%N] else []) lv = spn e.
Proof. unfold spn. destruct (is_enil e); reflexivity. Qed.

Lemma P_sfor t i c u body : t_type t = T_FOR -> t_lit t = kw_for -> NLF (t_comments t) ->
  POpt i -> POpt c -> POpt u -> PS body -> PS (SFor t i c u body).
Proof.
  intros Ty Li Hct Ji Jc Ju Jb b pd lv mp Hlv Hpd.
  set (g0 := G pd lv (t_comments t)).
  destruct (Ji (((b ++ g0) ++ kw_for) ++ [32%N; 40%N]) [] lv mp Hlv pend_ok_nil) as (ti & Wi & Lxi).
  destruct (Jc (((((b ++ g0) ++ kw_for) ++ [32%N; 40%N]) ++ ti) ++ [59%N]) [32%N] lv mp Hlv pend_ok_sp) as (tc & Wc & Lxc).
  destruct (Ju (((((((b ++ g0) ++ kw_for) ++ [32%N; 40%N]) ++ ti) ++ [59%N]) ++ tc) ++ spn c ++ [59%N]) [32%N] lv mp Hlv pend_ok_sp)
    as (tu & Wu & Lxu).
  destruct (Jb (((((((((b ++ g0) ++ kw_for) ++ [32%N; 40%N]) ++ ti) ++ [59%N]) ++ tc) ++ spn c ++ [59%N]) ++ tu) ++ spn u ++ [41%N])
              [32%N] lv mp Hlv pend_ok_sp) as (gb & tb & Wb & Ggb & Hsb & Lb).
  exists g0, (kw_for ++ [32%N; 40%N] ++ ti ++ 59%N :: tc ++ spn c ++ 59%N :: tu ++ spn u ++ 41%N :: gb ++ tb). split.
  { cbn [write_stmt]. fold (opt_ops i). fold (opt_ops c). fold (opt_ops u).
    change [102%N; 111%N; 114%N] with kw_for.
    psimp. fold g0. cbn [app]. rewrite Wi.
    assert (E1 : (if is_enil i then @nil N else []) = []) by (destruct (is_enil i); reflexivity).
    rewrite E1. psimp. cbn [app]. rewrite Wc. psimp. rewrite fl_spn. rewrite Wu. psimp. rewrite fl_spn. rewrite ?app_nil_r, Wb.
    f_equal. repeat (rewrite <- ?app_assoc; cbn [app]). reflexivity. }
  split; [apply G_gap; assumption|].
  split; [split; [split; [split; [reflexivity|discriminate]|reflexivity]|
                  change (kw_for ++ [32%N; 40%N] ++ ti ++ 59%N :: tc ++ spn c ++ 59%N :: tu ++ spn u ++ 41%N :: gb ++ tb)
                    with (kw_for ++ [32%N; 40%N] ++ ti ++ (59%N :: tc) ++ spn c ++ (59%N :: tu) ++ spn u ++ (41%N :: gb) ++ tb);
                  rewrite !app_assoc; apply send_app; [exact (sbody_ne _ Hsb)|apply Hsb]]|].
  intros K gs l Tg Hl.
  change (kw_for ++ [32%N; 40%N] ++ ti ++ 59%N :: tc ++ spn c ++ 59%N :: tu ++ spn u ++ 41%N :: gb ++ tb)
    with (kw_for ++ [32%N] ++ [40%N] ++ ti ++ 59%N :: tc ++ spn c ++ 59%N :: tu ++ spn u ++ 41%N :: gb ++ tb) in Hl.
  destruct (P_word0 T_FOR kw_for gs ([32%N] ++ [40%N] ++ ti ++ 59%N :: tc ++ spn c ++ 59%N :: tu ++ spn u ++ 41%N :: gb ++ tb) K l
              relex_for eq_refl ltac:(discriminate) ltac:(discriminate)) as (t1 & l1 & L1 & Ty1 & Li1 & _ & R1); [|exact Tg|exact Hl|].
  { apply (nic_gap [32%N] [40%N] _ K 40%N wgap_sp eq_refl); [split; [reflexivity|discriminate]|discriminate]. }
  destruct (P_punct T_LPAREN [40%N] [32%N] _ K l1 type_text_lparen ltac:(pfree) wgap_sp R1)
    as (tl & l2 & L2 & Tl & _ & _ & R2).
  rewrite rta_app in R2.
  destruct (Lxi _ (kont_semi' _ K) l2 R2) as (i' & tsi & l3 & L3 & R3 & Mi & Si).
  destruct (P_semi [] _ K l3 wgap_nil R3) as (s1 & l4 & L4 & Ts1 & R4).
  rewrite rta_app in R4.
  assert (K2 : forall g0, kont g0 (rta (spn c ++ 59%N :: tu ++ spn u ++ 41%N :: gb ++ tb) K)).
  { intro ge0. apply kont_gap_char; [apply spn_gap|reflexivity|discriminate|reflexivity|discriminate]. }
  destruct (Lxc _ (K2 _) l4 R4) as (c' & tsc & l5 & L5 & R5 & Mc & Sc).
  destruct (P_semi (spn c) _ K l5 (spn_gap c) R5) as (s2 & l6 & L6 & Ts2 & R6).
  rewrite rta_app in R6.
  assert (K3 : forall g0, kont g0 (rta (spn u ++ 41%N :: gb ++ tb) K)).
  { intro ge0. apply kont_gap_char; [apply spn_gap|reflexivity|discriminate|reflexivity|discriminate]. }
  destruct (Lxu _ (K3 _) l6 R6) as (u' & tsu & l7 & L7 & R7 & Mu & Su).
  change (spn u ++ 41%N :: gb ++ tb) with (spn u ++ [41%N] ++ gb ++ tb) in R7.
  destruct (P_punct T_RPAREN [41%N] (spn u) _ K l7 type_text_rparen ltac:(pfree) (spn_gap u) R7)
    as (tr & l8 & L8 & Tr & _ & _ & R8).
  rewrite <- (app_nil_r tb) in R8.
  destruct (LxS_gap gb tb body [] K l8 Lb Ggb Hsb R8) as (body' & tsb & l9 & L9 & _ & R9 & Mb & Sb).
  exists (SFor t1 i' c' u' body'), ([t1] ++ [tl] ++ tsi ++ [s1] ++ tsc ++ [s2] ++ tsu ++ [tr] ++ tsb), l9.
  split.
  { repeat (eapply lexes_app; [eassumption|]). exact L9. }
  split; [discriminate|]. split; [exact R9|]. split.
  - intros nx R. cbn [m_stmt app]. rewrite Ty1. change (T_FOR =? T_FOR) with true. cbn [negb].
    rewrite eat_tok_refl. cbn [eat]. rewrite Tl. change (T_LPAREN =? T_LPAREN) with true. cbn iota.
    repeat (rewrite <- app_assoc; cbn [app]).
    rewrite enil_match, Mi. cbn [eat]. rewrite Ts1. change (T_SEMICOLON =? T_SEMICOLON) with true. cbn iota.
    rewrite enil_match, Mc. cbn [eat]. rewrite Ts2. change (T_SEMICOLON =? T_SEMICOLON) with true. cbn iota.
    rewrite enil_match, Mu. cbn [eat]. rewrite Tr. change (T_RPAREN =? T_RPAREN) with true. cbn iota.
    apply Mb.
  - cbn [shape_stmt tmap_stmt]. change (tmap_stmt norm_tok) with shape_stmt. change (tmap_expr norm_tok) with shape_expr.
    rewrite Si, Sc, Su, Sb, (norm_eq t1 t) by congruence. reflexivity.
Qed.

End PrettyJ.

End PrettyJ.
Import PrettyJ.

(* PrettyMain.v -- every parsed tree over tokens of a lexed source satisfies the invariant; the round trip *)

(* ================================================================== *)
(* 1. what the lexer guarantees about trivia lists                     *)
(* ================================================================== *)

Lemma nolf_trim s : nolf s = true -> nolf (trim_right_spaces s) = true.
Proof.
  intro H. destruct (trim_right_spaces_prefix s) as [t Ht]. rewrite Ht in H.
  unfold nolf in *. rewrite forallb_app in H. apply andb_true_iff in H. exact (proj1 H).
Qed.

Lemma NLF_snoc cs c : NLF cs -> nolf c = true -> NLF (cs ++ [c]).
Proof. intros H Hc. apply Forall_app. split; [exact H|constructor; [exact Hc|constructor]]. Qed.

Lemma trivia_inv : forall rest mode line col had cs r' line' col' had' cs',
  trivia mode rest line col had cs = (r', line', col', had', cs') ->
  NLF cs -> (match mode with TComment acc => nolf acc = true | _ => True end) -> (cs <> [] -> had = true) ->
  NLF cs' /\ (r' <> [] -> cs' <> [] -> had' = true).
Proof.
  induction rest as [|c r IH]; intros mode line col had cs r' line' col' had' cs' H N M Hh.
  - cbn [trivia] in H. destruct mode as [| |acc]; inversion H; subst; try (split; [exact N|intros Q; congruence]).
    split; [apply NLF_snoc; [exact N|apply nolf_trim; exact M]|intros Q; congruence].
  - destruct mode as [| |acc]; cbn [trivia] in H.
    + destruct (isWhitespace c).
      * destruct (N.eqb c LF).
        -- eapply IH; [exact H|apply NLF_snoc; [exact N|reflexivity]|exact I|reflexivity].
        -- eapply IH; [exact H|exact N|exact I|exact Hh].
      * destruct (N.eqb c SLASH && N.eqb (hd 0%N r) SLASH).
        -- eapply IH; [exact H|exact N|exact I|exact Hh].
        -- inversion H; subst. split; [exact N|]. intros _ Q. exact (Hh Q).
    + eapply IH; [exact H|exact N|reflexivity|exact Hh].
    + destruct (N.eqb c LF) eqn:E.
      * eapply IH; [exact H|apply NLF_snoc; [exact N|apply nolf_trim; exact M]|exact I|reflexivity].
      * eapply IH; [exact H|exact N| |exact Hh]. cbn iota. unfold nolf in *. rewrite forallb_app, M. cbn [forallb].
        rewrite E. reflexivity.
Qed.

Lemma hc_eta l : hc (l_had_nl l) (l_comments l) l = l.
Proof. destruct l; reflexivity. Qed.

Lemma next_token_trivia l : let t := fst (next_token l) in
  NLF (t_comments t) /\ (t_nl t = false -> t_type t <> T_EOF -> t_comments t = []).
Proof.
  cbv zeta. unfold next_token, next_token_with.
  set (l1 := read_leading_comments l).
  assert (Q : NLF (l_comments l1) /\ (l_rest l1 <> [] -> l_comments l1 <> [] -> l_had_nl l1 = true)).
  { unfold l1, read_leading_comments.
    destruct (trivia TWs (l_rest l) (l_line l) (l_col l) false []) as [[[[r line] col] had] cs] eqn:T.
    cbn [l_comments l_rest l_had_nl].
    apply (trivia_inv _ _ _ _ _ _ _ _ _ _ _ T); [constructor|exact I|congruence]. }
  destruct Q as [Q1 Q2].
  rewrite <- (hc_eta l1), base_next_token_hc. unfold mt. cbn [fst thc t_comments t_nl t_type].
  split; [exact Q1|]. intros Nl Ne.
  destruct (l_comments l1) as [|c0 cs0] eqn:C; [reflexivity|exfalso].
  destruct (l_rest l1) as [|x r] eqn:R.
  - apply Ne. rewrite base_next_token_eof; [reflexivity|]. unfold at_eof. rewrite R. reflexivity.
  - rewrite Q2 in Nl; [discriminate Nl|discriminate|discriminate].
Qed.

(* ================================================================== *)
(* 2. the facts about one token the induction uses                     *)
(* ================================================================== *)

Definition TP (t : token) : Prop :=
  TL t /\ blank_eol_free (t_lit t) = true /\ NLF (t_comments t) /\
  (t_nl t = false -> t_type t <> T_EOF -> t_comments t = []).

Lemma tokenize_from_TP : forall f l toks,
  tokenize_from f l = Some toks -> forallb tok_lex toks = true -> literals_trim_safe toks = true ->
  Forall TP toks.
Proof.
  induction f as [|f IH]; intros l toks H HL HB; cbn [tokenize_from] in H; [discriminate H|].
  pose proof (next_token_trivia l) as Hc. cbv zeta in Hc.
  destruct (next_token l) as [t l']. cbn [fst] in Hc.
  destruct (t_type t =? T_EOF).
  - inversion H; subst toks. unfold literals_trim_safe in HB. cbn [forallb] in *.
    apply andb_true_iff in HL as [L1 _]. apply andb_true_iff in HB as [B1 _].
    constructor; [|constructor]. split; [exact L1|]. split; [exact B1|exact Hc].
  - destruct (tokenize_from f l') as [ts|] eqn:E; [|discriminate H].
    inversion H; subst toks. unfold literals_trim_safe in HB. cbn [forallb] in *.
    apply andb_true_iff in HL as [L1 L2]. apply andb_true_iff in HB as [B1 B2].
    constructor; [|exact (IH l' ts E L2 B2)]. split; [exact L1|]. split; [exact B1|exact Hc].
Qed.

Lemma lexed_TP src toks : tokenize src = Some toks -> strings_stable toks = true ->
  literals_trim_safe toks = true -> Forall TP toks.
Proof.
  intros H SS TS. exact (tokenize_from_TP _ _ _ H (lexed_tokens_lexical src toks H SS) TS).
Qed.

Lemma TP_TL t : TP t -> TL t. Proof. intros [H _]. exact H. Qed.
Lemma Forall_TP_TL ts : Forall TP ts -> Forall TL ts.
Proof. apply Forall_impl. exact TP_TL. Qed.

Lemma eat_tok_TP t ts r : eat_tok t ts = Some r -> Forall TP ts -> TP t /\ Forall TP r.
Proof. intros H F. apply eat_tok_inv in H. subst ts. inversion F as [|? ? Tt Fr]; subst. split; [exact Tt|exact Fr]. Qed.
Lemma eat_TP ty ts t r : eat ty ts = Some (t, r) -> Forall TP ts -> TP t /\ t_type t = ty /\ Forall TP r.
Proof. intros H F. apply eat_inv in H as [-> Ty]. inversion F as [|? ? Tt Fr]; subst. split; [exact Tt|]. split; [reflexivity|exact Fr]. Qed.

Lemma m_ident_TP i ts r : m_ident i ts = Some r -> Forall TP ts -> IOK i /\ Forall TP r.
Proof.
  intros H F. destruct (m_ident_TL _ _ _ H (Forall_TP_TL _ F)) as [Hi _].
  apply m_ident_inv in H as (-> & Ty & Mk). inversion F as [|? ? Tt Fr]; subst. split; [|exact Fr].
  split; [exact Hi|]. destruct Tt as (_ & _ & C & _). exact C.
Qed.

Lemma m_expr_TP e ts r : m_expr e ts = Some r -> Forall TP ts -> Forall TP r.
Proof. intros H F. exact (Forall_suf _ _ _ (m_expr_suf _ _ _ H) F). Qed.
Lemma m_stmt_TP s nx ts r : m_stmt s nx ts = Some r -> Forall TP ts -> Forall TP r.
Proof. intros H F. exact (Forall_suf _ _ _ (m_stmt_suf _ _ _ _ H) F). Qed.

Lemma params_TP ps : forall ts r, m_params ps ts = Some r -> Forall TP ts ->
  Forall IOK ps /\ Forall TP r.
Proof.
  induction ps as [|p ps IH]; intros ts r H F.
  - injection H as <-. split; [constructor|exact F].
  - rewrite m_params_cons in H. destruct (m_ident p ts) as [r1|] eqn:E; [|discriminate H].
    destruct (m_ident_TP _ _ _ E F) as [Hp F1].
    destruct ps as [|q ps']; cbn [m_ptail] in H.
    + injection H as <-. split; [constructor; [exact Hp|constructor]|exact F1].
    + destruct (eat T_COMMA r1) as [[tc r2]|] eqn:E2; [|discriminate H].
      destruct (eat_TP _ _ _ _ E2 F1) as (_ & _ & F2).
      destruct (IH _ _ H F2) as [Hps Fr]. split; [constructor; assumption|exact Fr].
Qed.

(* the trivia list the printer writes first for an expression *)
Fixpoint lead (e : expr) : list str :=
  match e with
  | ENil => []
  | EIdent i => t_comments (id_tok i)
  | EInt t | EFloat t | EString t _ | ERaw t _ | EBool t _ | ENull t => t_comments t
  | ELet t _ _ => t_comments t
  | EBinary _ l _ _ => lead l
  | EUnary t _ _ => t_comments t
  | EPostfix _ l _ => lead l
  | EGroup lp _ _ => t_comments lp
  | ECall _ f _ => lead f
  | EMember _ o _ _ => lead o
  | EAssign _ l _ => lead l
  | ECompound _ l _ _ => lead l
  | EFunc t _ _ _ => t_comments t
  | EArray lb _ _ => t_comments lb
  | EObject lb _ _ => t_comments lb
  end.

Lemma m_expr_lead : forall e f ts r, m_expr e (f :: ts) = Some r -> t_comments f = lead e.
Proof.
  induction e; intros f ts r H; cbn [m_expr lead] in *; try discriminate H.
  - apply m_ident_inv in H as (E & _). injection E as -> _. reflexivity.
  - minv H. apply eat_tok_inv in H. injection H as -> _. reflexivity.
  - minv H. apply eat_tok_inv in H. injection H as -> _. reflexivity.
  - minv H. apply eat_tok_inv in H. injection H as -> _. reflexivity.
  - minv H. apply eat_tok_inv in H. injection H as -> _. reflexivity.
  - minv H. apply eat_tok_inv in H. injection H as -> _. reflexivity.
  - minv H. apply eat_tok_inv in H. injection H as -> _. reflexivity.
  - destruct (negb (t_type t =? T_LET)); [discriminate H|].
    destruct (eat_tok t (f :: ts)) as [r1|] eqn:E; [|discriminate H].
    apply eat_tok_inv in E. injection E as -> _. reflexivity.
  - minv H; eapply IHe1; eassumption.
  - minv H. apply eat_tok_inv in E0. injection E0 as -> _. reflexivity.
  - minv H. eapply IHe; eassumption.
  - minv H. apply eat_tok_inv in E0. injection E0 as -> _. reflexivity.
  - minv H; eapply IHe; eassumption.
  - destruct (m_expr e1 (f :: ts)) as [r1|] eqn:E; [|discriminate H]. eapply IHe1; eassumption.
  - minv H; eapply IHe1; eassumption.
  - destruct (if t_type t =? T_PLUS_ASSIGN then Some [43%N] else if t_type t =? T_MINUS_ASSIGN then Some [45%N] else None);
      [|discriminate H]. minv H. eapply IHe1; eassumption.
  - destruct (negb (t_type t =? T_FUNCTION)); [discriminate H|].
    destruct (eat_tok t (f :: ts)) as [r1|] eqn:E; [|discriminate H].
    apply eat_tok_inv in E. injection E as -> _. reflexivity.
  - minv H. apply eat_tok_inv in E0. injection E0 as -> _. reflexivity.
  - destruct (negb (t_type t =? T_LBRACE)); [discriminate H|].
    destruct (eat_tok t (f :: ts)) as [r1|] eqn:E; [|discriminate H].
    apply eat_tok_inv in E. injection E as -> _. reflexivity.
Qed.

(* ================================================================== *)
(* 3. every parsed tree over such tokens                               *)
(* ================================================================== *)

Section Main.
Variable indent : str.
Hypothesis indent_blank : blank_str indent.

Local Notation PE := (PrettyJ.PE indent).
Local Notation PEx := (PrettyJ.PEx indent).
Local Notation PS := (PrettyJ.PS indent).
Local Notation PLet := (PrettyJ.PLet indent).
Local Notation POpt := (PrettyJ.POpt indent).

Lemma TP_text t s : TP t -> type_text (t_type t) = Some s -> t_lit t = s.
Proof. intros H. apply TL_text. apply TP_TL. exact H. Qed.

Section Step.
  Variable n : nat.
  Hypothesis IHe : forall e, (esize e <= n)%nat -> forall ts r, m_expr e ts = Some r -> wfx e = true ->
    Forall TP ts -> PE e (lead e).
  Hypothesis IHs : forall s, (ssize s <= n)%nat -> forall nx ts r, m_stmt s nx ts = Some r -> wf_stmt s = true ->
    Forall TP ts -> PS s.

  Lemma IHe_wf e : (esize e <= n)%nat -> forall ts r, m_expr e ts = Some r -> wf_expr e = true ->
    Forall TP ts -> PE e (lead e).
  Proof. intros Hn ts r H Hw F. eapply IHe; eauto. apply wf_wfx. exact Hw. Qed.

  Lemma IHe_x e : (esize e <= n)%nat -> forall ts r, m_expr e ts = Some r -> wf_expr e = true ->
    Forall TP ts -> PEx e.
  Proof. intros Hn ts r H Hw F. exists (lead e). eapply IHe_wf; eauto. Qed.

  Lemma exprs_P es : (esizes es <= n)%nat -> wf_exprs wf_expr es = true ->
    forall ts r, m_exprs m_expr es ts = Some r -> Forall TP ts -> Forall PEx es /\ Forall TP r.
  Proof.
    induction es as [|e es IH]; intros Hn Hw ts r H F.
    - injection H as <-. split; [constructor|exact F].
    - cbn [esizes fold_right] in Hn. fold (esizes es) in Hn. cbn [wf_exprs] in Hw.
      apply andb_true_iff in Hw as [Hw1 Hw2].
      rewrite m_exprs_cons in H. destruct (m_expr e ts) as [r1|] eqn:E; [|discriminate H].
      pose proof (IHe_x e ltac:(lia) _ _ E Hw1 F) as Je. pose proof (m_expr_TP _ _ _ E F) as F1.
      destruct es as [|q es']; cbn [m_tail] in H.
      + injection H as <-. split; [constructor; [exact Je|constructor]|exact F1].
      + destruct (eat T_COMMA r1) as [[tc r2]|] eqn:E2; [|discriminate H].
        destruct (eat_TP _ _ _ _ E2 F1) as (_ & _ & F2).
        destruct (IH ltac:(lia) Hw2 _ _ H F2) as [Js Fr]. split; [constructor; assumption|exact Fr].
  Qed.

  Lemma props_P ps : (psizes ps <= n)%nat -> wf_props wf_expr ps = true ->
    forall ts r, m_props m_expr ps ts = Some r -> Forall TP ts ->
    Forall (fun kv => key_ok (fst kv) = true /\ PEx (fst kv) /\ PEx (snd kv)) ps /\ Forall TP r.
  Proof.
    induction ps as [|[k v] ps IH]; intros Hn Hw ts r H F.
    - injection H as <-. split; [constructor|exact F].
    - cbn [psizes fold_right fst snd] in Hn. fold (psizes ps) in Hn. cbn [wf_props] in Hw.
      apply andb_true_iff in Hw as [Hw Hw3]. apply andb_true_iff in Hw as [Hw1 Hw2].
      cbn [m_props] in H.
      destruct (key_ok k) eqn:Kk; cbn [negb] in H; [|discriminate H].
      destruct (m_expr k ts) as [r1|] eqn:E1; [|discriminate H].
      pose proof (IHe_x k ltac:(lia) _ _ E1 Hw1 F) as Jk. pose proof (m_expr_TP _ _ _ E1 F) as F1.
      destruct (eat T_COLON r1) as [[tc r2]|] eqn:E2; [|discriminate H].
      destruct (eat_TP _ _ _ _ E2 F1) as (_ & _ & F2).
      destruct (m_expr v r2) as [r3|] eqn:E3; [|discriminate H].
      pose proof (IHe_x v ltac:(lia) _ _ E3 Hw2 F2) as Jv. pose proof (m_expr_TP _ _ _ E3 F2) as F3.
      assert (Hd : key_ok (fst (k, v)) = true /\ PEx (fst (k, v)) /\ PEx (snd (k, v))) by (cbn [fst snd]; auto).
      destruct ps as [|kv ps'].
      + injection H as <-. split; [constructor; [exact Hd|constructor]|exact F3].
      + destruct (eat T_COMMA r3) as [[tm r4]|] eqn:E4; [|discriminate H].
        destruct (eat_TP _ _ _ _ E4 F3) as (_ & _ & F4).
        destruct (IH ltac:(lia) Hw3 _ _ H F4) as [Js Fr]. split; [constructor; assumption|exact Fr].
  Qed.

  Lemma stmts_P ss : (ssizes ss <= n)%nat -> wf_stmts wf_stmt ss = true ->
    forall nx ts r, m_stmts m_stmt ss nx ts = Some r -> Forall TP ts -> Forall PS ss /\ Forall TP r.
  Proof.
    induction ss as [|s ss IH]; intros Hn Hw nx ts r H F.
    - injection H as <-. split; [constructor|exact F].
    - cbn [ssizes fold_right] in Hn. fold (ssizes ss) in Hn. cbn [wf_stmts] in Hw.
      apply andb_true_iff in Hw as [Hw1 Hw2]. cbn [m_stmts] in H.
      destruct (m_stmt s nx ts) as [r1|] eqn:E; [|discriminate H].
      pose proof (IHs s ltac:(lia) _ _ _ E Hw1 F) as Js. pose proof (m_stmt_TP _ _ _ _ E F) as F1.
      destruct (IH ltac:(lia) Hw2 _ _ _ H F1) as [Jss Fr]. split; [constructor; assumption|exact Fr].
  Qed.

  Lemma no_paren_lt' e k : wf_expr e = true -> k <= level e -> exists pv, prec_opt e = Some pv /\ (pv <? k) = false.
  Proof. intros Hw Hk. destruct (wf_prec e Hw) as (pv & Hp & Hl). exists pv. split; [exact Hp|lia]. Qed.
  Lemma no_paren_le' e k : wf_expr e = true -> k < level e -> exists pv, prec_opt e = Some pv /\ (pv <=? k) = false.
  Proof. intros Hw Hk. destruct (wf_prec e Hw) as (pv & Hp & Hl). exists pv. split; [exact Hp|lia]. Qed.

  Lemma expr_stepP e : (esize e <= S n)%nat -> forall ts r, m_expr e ts = Some r -> wfx e = true ->
    Forall TP ts -> PE e (lead e).
  Proof.
    intros Hn ts r H Hw F.
    destruct e as [ | i | t | t | t v | t v | t b | t | t name value | t e1 op e2 | t op e | t e op | t e rp
                  | t e args | t e1 e2 computed | t e1 e2 | t e1 op e2 | t name params body | t elems rb | t props rb ];
      cbn [m_expr] in H; try discriminate H; cbn [esize] in Hn; cbn [lead].
    - (* EIdent *) destruct (m_ident_TP _ _ _ H F) as [[Hi Hc] _]. apply (P_ident indent indent_blank i _ Hi eq_refl Hc).
    - (* EInt *)
      destruct ((t_type t =? T_INT) && go_int_ok (t_lit t)) eqn:C; [|discriminate H].
      apply andb_true_iff in C as [C1 C2]. destruct (eat_tok_TP _ _ _ H F) as [(Tt & Bt & Ct & _) _].
      apply (P_int indent indent_blank t _); [|exact Bt|reflexivity|exact Ct]. rewrite C1, C2. apply Z.eqb_eq in C1.
      rewrite (TL_word _ _ Tt C1) by auto. reflexivity.
    - (* EFloat *)
      destruct ((t_type t =? T_FLOAT) && go_float_ok (t_lit t)) eqn:C; [|discriminate H].
      apply andb_true_iff in C as [C1 C2]. destruct (eat_tok_TP _ _ _ H F) as [(Tt & Bt & Ct & _) _].
      apply (P_float indent indent_blank t _); [|exact Bt|reflexivity|exact Ct]. rewrite C1, C2. apply Z.eqb_eq in C1.
      rewrite (TL_word _ _ Tt C1) by auto. reflexivity.
    - (* EString *)
      destruct ((t_type t =? T_STRING) && str_eqb v (t_lit t)) eqn:C; [|discriminate H].
      destruct (eat_tok_TP _ _ _ H F) as [(Tt & Bt & Ct & _) _].
      pose proof C as C0. apply andb_true_iff in C0 as [C1 C2]. apply Z.eqb_eq in C1. apply str_eqb_spec in C2. subst v.
      apply (P_string indent indent_blank t _ _); [|exact Bt|reflexivity|exact Ct]. cbn [lexical]. rewrite C. cbn [andb].
      apply TL_string; assumption.
    - (* ERaw *)
      destruct ((t_type t =? T_RAW_STRING) && str_eqb v (t_lit t)) eqn:C; [|discriminate H].
      destruct (eat_tok_TP _ _ _ H F) as [(Tt & Bt & Ct & _) _].
      pose proof C as C0. apply andb_true_iff in C0 as [C1 C2]. apply Z.eqb_eq in C1. apply str_eqb_spec in C2. subst v.
      apply (P_raw indent indent_blank t _ _); [|exact Bt|reflexivity|exact Ct]. cbn [lexical]. rewrite C. cbn [andb].
      apply TL_raw; assumption.
    - (* EBool *)
      destruct (((t_type t =? T_TRUE) || (t_type t =? T_FALSE)) && Bool.eqb b (t_type t =? T_TRUE)) eqn:C; [|discriminate H].
      destruct (eat_tok_TP _ _ _ H F) as [(Tt & Bt & Ct & _) _].
      apply (P_bool indent indent_blank t b _); [|reflexivity|exact Ct]. cbn [lexical].
      apply andb_true_iff in C as [C1 C2]. apply Bool.eqb_prop in C2. subst b.
      apply orb_true_iff in C1 as [C1|C1]; apply Z.eqb_eq in C1.
      + rewrite C1. rewrite (TL_kw _ _ _ Tt C1 eq_refl). exact relex_true.
      + rewrite C1. rewrite (TL_kw _ _ _ Tt C1 eq_refl). exact relex_false.
    - (* ENull *)
      destruct (t_type t =? T_NULL) eqn:C; [|discriminate H].
      destruct (eat_tok_TP _ _ _ H F) as [(Tt & Bt & Ct & _) _].
      apply (P_null indent indent_blank t _); [|reflexivity|exact Ct]. cbn [lexical]. rewrite C. cbn [andb].
      apply Z.eqb_eq in C. rewrite (TL_kw _ _ _ Tt C eq_refl). reflexivity.
    - (* ELet *)
      destruct (t_type t =? T_LET) eqn:C; cbn [negb] in H; [|discriminate H]. apply Z.eqb_eq in C.
      destruct (eat_tok t ts) as [r1|] eqn:E1; [|discriminate H].
      destruct (eat_tok_TP _ _ _ E1 F) as [(Tt & Bt & Ct & _) F1].
      destruct (m_ident name r1) as [r2|] eqn:E2; [|discriminate H].
      destruct (m_ident_TP _ _ _ E2 F1) as [[Hnm Hcn] F2].
      apply (P_let indent indent_blank t name value (lead value)); [exact C|exact (TL_kw _ _ _ Tt C eq_refl)|exact Hnm|exact Ct|exact Hcn|].
      intro Ev. rewrite enil_match, Ev in H.
      destruct (eat T_ASSIGN r2) as [[teq r3]|] eqn:E3; [|discriminate H].
      destruct (eat_TP _ _ _ _ E3 F2) as (_ & _ & F3).
      cbn [wfx] in Hw. rewrite Ev in Hw.
      eapply IHe_wf; [|exact H|exact Hw|exact F3]. lia.
    - (* EBinary *)
      cbn [wfx wf_expr] in Hw.
      destruct (binop_level (t_type t)) as [lv|] eqn:B; [|discriminate H].
      destruct (str_eqb op (t_lit t)) eqn:Eo; cbn [negb] in H; [|discriminate H]. apply str_eqb_spec in Eo.
      destruct (m_expr e1 ts) as [r1|] eqn:E1; [|discriminate H].
      destruct (eat_tok t r1) as [r2|] eqn:E2; [|discriminate H].
      pose proof (m_expr_TP _ _ _ E1 F) as F1. destruct (eat_tok_TP _ _ _ E2 F1) as [(Tt & Bt & Ct & _) F2].
      apply andb_true_iff in Hw as [Hw W2]. apply andb_true_iff in Hw as [Hw W1]. apply andb_true_iff in Hw as [L1 L2].
      destruct (no_paren_lt' e1 lv W1 ltac:(lia)) as (pl & Pl & Cl).
      destruct (no_paren_le' e2 lv W2 ltac:(lia)) as (pr & Pr & Cr).
      apply (P_binary indent indent_blank t e1 op e2 lv pl pr (lead e1) (lead e2) B (TL_binop _ _ Tt B) Eo Pl Cl Pr Cr Ct).
      + exact (IHe_wf e1 ltac:(lia) _ _ E1 W1 F).
      + exact (IHe_wf e2 ltac:(lia) _ _ H W2 F2).
    - (* EUnary *)
      cbn [wfx wf_expr] in Hw.
      destruct ((t_type t =? T_NOT) || (t_type t =? T_MINUS) || (t_type t =? T_INCREMENT) || (t_type t =? T_DECREMENT)) eqn:Tys;
        cbn [negb orb] in H; [|discriminate H].
      destruct (str_eqb op (t_lit t)) eqn:Eo; cbn [negb] in H; [|discriminate H]. apply str_eqb_spec in Eo.
      destruct (eat_tok t ts) as [r1|] eqn:E1; [|discriminate H].
      destruct (eat_tok_TP _ _ _ E1 F) as [(Tt & Bt & Ct & _) F1].
      apply andb_true_iff in Hw as [Hw W1].
      assert (Hlv : 9 <= level e).
      { destruct ((t_type t =? T_INCREMENT) || (t_type t =? T_DECREMENT)).
        - apply assignable_level in Hw. lia.
        - unfold L_UNARY in Hw. lia. }
      destruct (no_paren_lt' e 9 W1 Hlv) as (pr & Pr & Cr).
      assert (TT : type_text (t_type t) = Some (t_lit t)).
      { assert (X : exists s, type_text (t_type t) = Some s).
        { repeat (apply orb_true_iff in Tys; destruct Tys as [Tys|Tys]); apply Z.eqb_eq in Tys; rewrite Tys;
            eexists; reflexivity. }
        destruct X as [s X]. rewrite (TL_text _ _ Tt X). exact X. }
      apply (P_unary indent indent_blank t op e pr (lead e) TT Eo Tys Pr Cr Ct).
      exact (IHe_wf e ltac:(lia) _ _ H W1 F1).
    - (* EPostfix *)
      cbn [wfx wf_expr] in Hw.
      destruct ((t_type t =? T_INCREMENT) || (t_type t =? T_DECREMENT)) eqn:Tys; cbn [negb orb] in H; [|discriminate H].
      destruct (str_eqb op (t_lit t)) eqn:Eo; cbn [negb orb] in H; [|discriminate H]. apply str_eqb_spec in Eo.
      destruct (t_nl t) eqn:Nlt; [discriminate H|].
      destruct (m_expr e ts) as [r1|] eqn:E1; [|discriminate H].
      pose proof (m_expr_TP _ _ _ E1 F) as F1. destruct (eat_tok_TP _ _ _ H F1) as [(Tt & Bt & Ct & Nt) F2].
      apply andb_true_iff in Hw as [Hw W1]. apply assignable_level in Hw.
      destruct (no_paren_lt' e 10 W1 ltac:(lia)) as (pl & Pl & Cl).
      assert (TT : type_text (t_type t) = Some (t_lit t)).
      { assert (X : exists s, type_text (t_type t) = Some s).
        { apply orb_true_iff in Tys; destruct Tys as [Tys|Tys]; apply Z.eqb_eq in Tys; rewrite Tys;
            eexists; reflexivity. }
        destruct X as [s X]. rewrite (TL_text _ _ Tt X). exact X. }
      assert (Ecs : t_comments t = []).
      { apply Nt; [exact Nlt|]. intro Q. rewrite Q in Tys. discriminate Tys. }
      apply (P_postfix indent t e op pl (lead e) TT Eo Tys Pl Cl Ecs).
      exact (IHe_wf e ltac:(lia) _ _ E1 W1 F).
    - (* EGroup *)
      cbn [wfx wf_expr] in Hw.
      destruct (t_type t =? T_LPAREN) eqn:C1; cbn [negb orb] in H; [|discriminate H].
      destruct (t_type rp =? T_RPAREN) eqn:C2; cbn [negb orb] in H; [|discriminate H].
      apply Z.eqb_eq in C1, C2.
      destruct (eat_tok t ts) as [r1|] eqn:E1; [|discriminate H].
      destruct (eat_tok_TP _ _ _ E1 F) as [(Tt & Bt & Ct & _) F1].
      destruct (m_expr e r1) as [r2|] eqn:E2; [|discriminate H].
      pose proof (m_expr_TP _ _ _ E2 F1) as F2. destruct (eat_tok_TP _ _ _ H F2) as [(Trp & _ & Crp & _) _].
      apply (P_group indent indent_blank t e rp (lead e)).
      + exact (TL_punct _ _ _ Tt C1 type_text_lparen).
      + exact (TL_punct _ _ _ Trp C2 type_text_rparen).
      + exact Ct.
      + exact Crp.
      + exact (IHe_wf e ltac:(lia) _ _ E2 Hw F1).
    - (* ECall *)
      cbn [wfx wf_expr] in Hw.
      destruct (t_type t =? T_LPAREN) eqn:C1; cbn [negb] in H; [|discriminate H]. apply Z.eqb_eq in C1.
      destruct (m_expr e ts) as [r1|] eqn:E1; [|discriminate H].
      pose proof (m_expr_TP _ _ _ E1 F) as F1.
      destruct (eat_tok t r1) as [r2|] eqn:E2; [|discriminate H].
      destruct (eat_tok_TP _ _ _ E2 F1) as [(Tt & Bt & Ct & _) F2].
      destruct (m_exprs m_expr args r2) as [r3|] eqn:E3; [|discriminate H].
      apply andb_true_iff in Hw as [Hw W2]. apply andb_true_iff in Hw as [_ W1].
      fold (esizes args) in Hn.
      destruct (exprs_P args ltac:(lia) W2 _ _ E3 F2) as [Ja _].
      apply (P_call indent indent_blank t e args (lead e)); [exact C1|exact (TL_text _ _ Tt ltac:(rewrite C1; reflexivity))|exact Ct| |exact Ja].
      exact (IHe_wf e ltac:(lia) _ _ E1 W1 F).
    - (* EMember *)
      cbn [wfx wf_expr] in Hw.
      destruct (m_expr e1 ts) as [r1|] eqn:E1; [|discriminate H].
      pose proof (m_expr_TP _ _ _ E1 F) as F1.
      apply andb_true_iff in Hw as [Hw W2]. apply andb_true_iff in Hw as [Wlv W1].
      pose proof (IHe_wf e1 ltac:(lia) _ _ E1 W1 F) as Jo.
      destruct computed.
      + destruct (t_type t =? T_LBRACKET) eqn:C1; cbn [negb] in H; [|discriminate H]. apply Z.eqb_eq in C1.
        destruct (eat_tok t r1) as [r2|] eqn:E2; [|discriminate H].
        destruct (eat_tok_TP _ _ _ E2 F1) as [(Tt & Bt & Ct & _) F2].
        destruct (m_expr e2 r2) as [r3|] eqn:E3; [|discriminate H].
        apply (P_member_computed indent indent_blank t e1 e2 (lead e1) (lead e2));
          [exact C1|exact (TL_text _ _ Tt ltac:(rewrite C1; reflexivity))|exact Ct|exact Jo|].
        exact (IHe_wf e2 ltac:(lia) _ _ E3 W2 F2).
      + destruct (t_type t =? T_DOT) eqn:C1; cbn [negb] in H; [|discriminate H]. apply Z.eqb_eq in C1.
        destruct (eat_tok t r1) as [r2|] eqn:E2; [|discriminate H].
        destruct (eat_tok_TP _ _ _ E2 F1) as [(Tt & Bt & Ct & _) F2].
        destruct e2; try discriminate H.
        destruct (m_ident_TP _ _ _ H F2) as [[Hi Hci] _].
        apply (P_member_dot indent indent_blank t e1 i (lead e1));
          [exact C1|exact (TL_text _ _ Tt ltac:(rewrite C1; reflexivity))|exact Ct|exact Hi|exact Hci| |exact Jo].
        apply obj_ok_level. exact Wlv.
    - (* EAssign *)
      cbn [wfx wf_expr] in Hw.
      destruct (t_type t =? T_ASSIGN) eqn:C1; cbn [negb] in H; [|discriminate H]. apply Z.eqb_eq in C1.
      destruct (m_expr e1 ts) as [r1|] eqn:E1; [|discriminate H].
      pose proof (m_expr_TP _ _ _ E1 F) as F1.
      destruct (eat_tok t r1) as [r2|] eqn:E2; [|discriminate H].
      destruct (eat_tok_TP _ _ _ E2 F1) as [(Tt & Bt & Ct & _) F2].
      apply andb_true_iff in Hw as [Hw W2]. apply andb_true_iff in Hw as [_ W1].
      apply (P_assign indent indent_blank t e1 e2 (lead e1) (lead e2)); [exact C1|exact (TL_text _ _ Tt ltac:(rewrite C1; reflexivity))|exact Ct| |].
      + exact (IHe_wf e1 ltac:(lia) _ _ E1 W1 F).
      + exact (IHe_wf e2 ltac:(lia) _ _ H W2 F2).
    - (* ECompound *)
      cbn [wfx wf_expr] in Hw.
      destruct (if t_type t =? T_PLUS_ASSIGN then Some [43%N] else if t_type t =? T_MINUS_ASSIGN then Some [45%N] else None)
        as [w|] eqn:Want; [|discriminate H].
      destruct (str_eqb op w) eqn:Eo; cbn [negb] in H; [|discriminate H]. apply str_eqb_spec in Eo. subst w.
      destruct (m_expr e1 ts) as [r1|] eqn:E1; [|discriminate H].
      pose proof (m_expr_TP _ _ _ E1 F) as F1.
      destruct (eat_tok t r1) as [r2|] eqn:E2; [|discriminate H].
      destruct (eat_tok_TP _ _ _ E2 F1) as [(Tt & Bt & Ct & _) F2].
      apply andb_true_iff in Hw as [Hw W2]. apply andb_true_iff in Hw as [_ W1].
      assert (X : (t_type t = T_PLUS_ASSIGN \/ t_type t = T_MINUS_ASSIGN) /\ type_text (t_type t) = Some (op ++ [61%N])).
      { destruct (Z.eqb_spec (t_type t) T_PLUS_ASSIGN) as [Q|Q].
        - inversion Want; subst op. rewrite Q. split; [left|]; reflexivity.
        - destruct (Z.eqb_spec (t_type t) T_MINUS_ASSIGN) as [Q2|Q2]; [|discriminate Want].
          inversion Want; subst op. rewrite Q2. split; [right|]; reflexivity. }
      destruct X as [X1 X2].
      apply (P_compound indent indent_blank t e1 op e2 (t_type t) (lead e1) (lead e2) X1 eq_refl X2 (TL_text _ _ Tt X2) Want Ct).
      + exact (IHe_wf e1 ltac:(lia) _ _ E1 W1 F).
      + exact (IHe_wf e2 ltac:(lia) _ _ H W2 F2).
    - (* EFunc *)
      cbn [wfx wf_expr] in Hw.
      destruct (t_type t =? T_FUNCTION) eqn:C1; cbn [negb] in H; [|discriminate H]. apply Z.eqb_eq in C1.
      destruct (eat_tok t ts) as [r1|] eqn:E1; [|discriminate H].
      destruct (eat_tok_TP _ _ _ E1 F) as [(Tt & Bt & Ct & _) F1].
      destruct (match name with Some n0 => m_ident n0 r1 | None => Some r1 end) as [r2|] eqn:E2; [|discriminate H].
      assert (Hnm : match name with Some n0 => IOK n0 | None => True end /\ Forall TP r2).
      { destruct name as [n0|].
        - exact (m_ident_TP _ _ _ E2 F1).
        - injection E2 as <-. split; [exact I|exact F1]. }
      destruct Hnm as [Hnm F2].
      destruct (eat T_LPAREN r2) as [[tl r3]|] eqn:E3; [|discriminate H].
      destruct (eat_TP _ _ _ _ E3 F2) as (_ & _ & F3).
      destruct (m_params params r3) as [r4|] eqn:E4; [|discriminate H].
      destruct (params_TP _ _ _ E4 F3) as [Hps F4].
      destruct (eat T_RPAREN r4) as [[tr r5]|] eqn:E5; [|discriminate H].
      destruct (eat_TP _ _ _ _ E5 F4) as (_ & _ & F5).
      assert (Bl : is_block body = true) by (destruct body; try discriminate H; reflexivity).
      apply (P_func indent indent_blank); [exact C1|exact (TL_kw _ _ _ Tt C1 eq_refl)|exact Ct|exact Hnm|exact Hps| |exact Bl].
      destruct body; try discriminate Bl.
      eapply IHs; [|exact H|exact Hw|exact F5]. lia.
    - (* EArray *)
      cbn [wfx wf_expr] in Hw.
      destruct (t_type t =? T_LBRACKET) eqn:C1; cbn [negb orb] in H; [|discriminate H].
      destruct (t_type rb =? T_RBRACKET) eqn:C2; cbn [negb orb] in H; [|discriminate H].
      apply Z.eqb_eq in C1, C2.
      destruct (eat_tok t ts) as [r1|] eqn:E1; [|discriminate H].
      destruct (eat_tok_TP _ _ _ E1 F) as [(Tt & Bt & Ct & _) F1].
      destruct (m_exprs m_expr elems r1) as [r2|] eqn:E2; [|discriminate H].
      fold (esizes elems) in Hn.
      destruct (exprs_P elems ltac:(lia) Hw _ _ E2 F1) as [Ja F2].
      destruct (eat_tok_TP _ _ _ H F2) as [(Trb & _ & Crb & _) _].
      apply (P_array indent indent_blank); [exact (TL_punct _ _ _ Tt C1 type_text_lbracket)|exact (TL_punct _ _ _ Trb C2 type_text_rbracket)|exact Ct|exact Crb|exact Ja].
    - (* EObject *)
      cbn [wfx wf_expr] in Hw.
      destruct (t_type t =? T_LBRACE) eqn:C1; cbn [negb] in H; [|discriminate H]. apply Z.eqb_eq in C1.
      destruct (eat_tok t ts) as [r1|] eqn:E1; [|discriminate H].
      destruct (eat_tok_TP _ _ _ E1 F) as [(Tt & Bt & Ct & _) F1].
      pose proof (TL_punct _ _ _ Tt C1 type_text_lbrace) as Plb.
      destruct props as [|p ps].
      + destruct (tok_eqb rb zero_token) eqn:Z; [|discriminate H].
        apply (P_object indent indent_blank); [exact Plb|exact Z|exact Ct| |constructor].
        apply tok_eqb_eq in Z. subst rb. constructor.
      + destruct (t_type rb =? T_RBRACE) eqn:C2; cbn [negb] in H; [|discriminate H]. apply Z.eqb_eq in C2.
        destruct (m_props m_expr (p :: ps) r1) as [r2|] eqn:E2; [|discriminate H].
        fold (psizes (p :: ps)) in Hn.
        destruct (props_P (p :: ps) ltac:(lia) Hw _ _ E2 F1) as [Jp F2].
        destruct (eat_tok_TP _ _ _ H F2) as [(Trb & _ & Crb & _) _].
        apply (P_object indent indent_blank); [exact Plb|exact (TL_punct _ _ _ Trb C2 type_text_rbrace)|exact Ct|exact Crb|exact Jp].
  Qed.

  Lemma opt_stepP e ts r : (esize e <= n)%nat ->
    (if is_enil e then Some ts else m_expr e ts) = Some r -> (if is_enil e then true else wfx e) = true ->
    Forall TP ts -> POpt e /\ Forall TP r.
  Proof.
    intros Hn H Hw F. destruct (is_enil e) eqn:Ev.
    - injection H as <-. split; [|exact F]. apply (P_opt indent e []). intro X. congruence.
    - split; [|exact (m_expr_TP _ _ _ H F)]. apply (P_opt indent e (lead e)). intros _. exact (IHe e Hn _ _ H Hw F).
  Qed.

  Lemma stmt_stepP s : (ssize s <= S n)%nat -> forall nx ts r, m_stmt s nx ts = Some r -> wf_stmt s = true ->
    Forall TP ts -> PS s.
  Proof.
    intros Hn nx ts r H Hw F.
    destruct s as [ | t name value | t value | e | t name params body | t stmts rb | t c thn els | t c body | t i c u body ];
      cbn [m_stmt] in H; try discriminate H; cbn [ssize] in Hn; cbn [wf_stmt] in Hw.
    - (* SLet *)
      destruct (t_type t =? T_LET) eqn:C; cbn [negb] in H; [|discriminate H]. apply Z.eqb_eq in C.
      destruct (eat_tok t ts) as [r1|] eqn:E1; [|discriminate H].
      destruct (eat_tok_TP _ _ _ E1 F) as [(Tt & Bt & Ct & _) F1].
      destruct (m_ident name r1) as [r2|] eqn:E2; [|discriminate H].
      destruct (m_ident_TP _ _ _ E2 F1) as [[Hnm Hcn] F2].
      apply (P_slet indent indent_blank); [exact Ct|].
      apply (P_let_core indent indent_blank t name value (lead value)); [exact C|exact (TL_kw _ _ _ Tt C eq_refl)|exact Hnm|exact Hcn|].
      intro Ev. rewrite enil_match, Ev in H. rewrite enil_match, Ev in Hw.
      destruct (eat T_ASSIGN r2) as [[teq r3]|] eqn:E3; [|discriminate H].
      destruct (eat_TP _ _ _ _ E3 F2) as (_ & _ & F3).
      destruct (m_expr value r3) as [r4|] eqn:E4; [|discriminate H].
      eapply IHe_wf; [|exact E4|exact Hw|exact F3]. lia.
    - (* SReturn *)
      destruct (t_type t =? T_RETURN) eqn:C; cbn [negb] in H; [|discriminate H]. apply Z.eqb_eq in C.
      destruct (eat_tok t ts) as [r1|] eqn:E1; [|discriminate H].
      destruct (eat_tok_TP _ _ _ E1 F) as [(Tt & Bt & Ct & _) F1].
      apply (P_sreturn indent indent_blank); [exact C|exact (TL_kw _ _ _ Tt C eq_refl)|exact Ct|].
      intro Ev. rewrite enil_match, Ev in H. rewrite enil_match, Ev in Hw.
      destruct r1 as [|f r1']; [discriminate H|]. destruct (t_nl f) eqn:Nlf; [discriminate H|].
      destruct (m_expr value (f :: r1')) as [r2|] eqn:E2; [|discriminate H].
      assert (Ld : lead value = []).
      { rewrite <- (m_expr_lead _ _ _ _ E2). inversion F1 as [|? ? (_ & _ & _ & Nf) _]; subst.
        apply Nf; [exact Nlf|]. pose proof (m_expr_start _ _ _ _ E2 Hw) as St.
        destruct (expr_start_neq _ St) as (_ & _ & _ & _ & Q & _). exact Q. }
      rewrite <- Ld. eapply IHe_wf; [|exact E2|exact Hw|exact F1]. lia.
    - (* SExpr *)
      destruct ts as [|f ts']; [discriminate H|].
      destruct (statement_keyword (t_type f)) eqn:Kw; [discriminate H|].
      destruct (m_expr e (f :: ts')) as [r1|] eqn:E1; [|discriminate H].
      apply (P_sexpr indent e (lead e)).
      + eapply IHe_wf; [|exact E1|exact Hw|exact F]. lia.
      + apply wf_not_nil. exact Hw.
      + rewrite <- (m_expr_first _ _ _ _ E1). exact Kw.
    - (* SFunc *)
      destruct (t_type t =? T_FUNCTION) eqn:C1; cbn [negb] in H; [|discriminate H]. apply Z.eqb_eq in C1.
      destruct (eat_tok t ts) as [r1|] eqn:E1; [|discriminate H].
      destruct (eat_tok_TP _ _ _ E1 F) as [(Tt & Bt & Ct & _) F1].
      destruct (m_ident name r1) as [r2|] eqn:E2; [|discriminate H].
      destruct (m_ident_TP _ _ _ E2 F1) as [Hnm F2].
      destruct (eat T_LPAREN r2) as [[tl r3]|] eqn:E3; [|discriminate H].
      destruct (eat_TP _ _ _ _ E3 F2) as (_ & _ & F3).
      destruct (m_params params r3) as [r4|] eqn:E4; [|discriminate H].
      destruct (params_TP _ _ _ E4 F3) as [Hps F4].
      destruct (eat T_RPAREN r4) as [[tr r5]|] eqn:E5; [|discriminate H].
      destruct (eat_TP _ _ _ _ E5 F4) as (_ & _ & F5).
      assert (Bl : is_block body = true) by (destruct body; try discriminate H; reflexivity).
      apply (P_sfunc indent indent_blank); [exact C1|exact (TL_kw _ _ _ Tt C1 eq_refl)|exact Ct|exact Hnm|exact Hps| |exact Bl].
      destruct body; try discriminate Bl.
      eapply IHs; [|exact H|exact Hw|exact F5]. lia.
    - (* SBlock *)
      destruct (t_type t =? T_LBRACE) eqn:C1; cbn [negb orb] in H; [|discriminate H].
      destruct (t_type rb =? T_RBRACE) eqn:C2; cbn [negb orb] in H; [|discriminate H].
      apply Z.eqb_eq in C1, C2.
      destruct (eat_tok t ts) as [r1|] eqn:E1; [|discriminate H].
      destruct (eat_tok_TP _ _ _ E1 F) as [(Tt & Bt & Ct & _) F1].
      destruct (m_stmts m_stmt stmts rb r1) as [r2|] eqn:E2; [|discriminate H].
      fold (ssizes stmts) in Hn.
      destruct (stmts_P stmts ltac:(lia) Hw _ _ _ E2 F1) as [Js F2].
      destruct (eat_tok_TP _ _ _ H F2) as [(Trb & _ & Crb & _) _].
      apply (P_sblock indent indent_blank); [exact (TL_punct _ _ _ Tt C1 type_text_lbrace)|exact (TL_punct _ _ _ Trb C2 type_text_rbrace)|exact Ct|exact Crb|exact Js].
    - (* SIf *)
      destruct (t_type t =? T_IF) eqn:C1; cbn [negb] in H; [|discriminate H]. apply Z.eqb_eq in C1.
      destruct (eat_tok t ts) as [r1|] eqn:E1; [|discriminate H].
      destruct (eat_tok_TP _ _ _ E1 F) as [(Tt & Bt & Ct & _) F1].
      destruct (eat T_LPAREN r1) as [[tl r2]|] eqn:E2; [|discriminate H].
      destruct (eat_TP _ _ _ _ E2 F1) as (_ & _ & F2).
      destruct (m_expr c r2) as [r3|] eqn:E3; [|discriminate H].
      pose proof (m_expr_TP _ _ _ E3 F2) as F3.
      destruct (eat T_RPAREN r3) as [[tr r4]|] eqn:E4; [|discriminate H].
      destruct (eat_TP _ _ _ _ E4 F3) as (_ & _ & F4).
      destruct (m_stmt thn nx r4) as [r5|] eqn:E5; [|discriminate H].
      pose proof (m_stmt_TP _ _ _ _ E5 F4) as F5.
      apply andb_true_iff in Hw as [Hw We]. apply andb_true_iff in Hw as [Hw Wt]. apply andb_true_iff in Hw as [Wc _].
      apply (P_sif indent indent_blank t c thn els (lead c)); [exact C1|exact (TL_kw _ _ _ Tt C1 eq_refl)|exact Ct| | |].
      + eapply IHe_wf; [|exact E3|exact Wc|exact F2]. lia.
      + eapply IHs; [|exact E5|exact Wt|exact F4]. lia.
      + intro Ee. rewrite snil_match, Ee in H. rewrite snil_match, Ee in We.
        destruct (eat T_ELSE r5) as [[te r6]|] eqn:E6; [|discriminate H].
        destruct (eat_TP _ _ _ _ E6 F5) as (_ & _ & F6).
        apply andb_true_iff in We as [We _]. apply andb_true_iff in We as [_ We].
        eapply IHs; [|exact H|exact We|exact F6]. lia.
    - (* SWhile *)
      destruct (t_type t =? T_WHILE) eqn:C1; cbn [negb] in H; [|discriminate H]. apply Z.eqb_eq in C1.
      destruct (eat_tok t ts) as [r1|] eqn:E1; [|discriminate H].
      destruct (eat_tok_TP _ _ _ E1 F) as [(Tt & Bt & Ct & _) F1].
      destruct (eat T_LPAREN r1) as [[tl r2]|] eqn:E2; [|discriminate H].
      destruct (eat_TP _ _ _ _ E2 F1) as (_ & _ & F2).
      destruct (m_expr c r2) as [r3|] eqn:E3; [|discriminate H].
      pose proof (m_expr_TP _ _ _ E3 F2) as F3.
      destruct (eat T_RPAREN r3) as [[tr r4]|] eqn:E4; [|discriminate H].
      destruct (eat_TP _ _ _ _ E4 F3) as (_ & _ & F4).
      apply andb_true_iff in Hw as [Hw Wb]. apply andb_true_iff in Hw as [Wc _].
      apply (P_swhile indent indent_blank t c body (lead c)); [exact C1|exact (TL_kw _ _ _ Tt C1 eq_refl)|exact Ct| |].
      + eapply IHe_wf; [|exact E3|exact Wc|exact F2]. lia.
      + eapply IHs; [|exact H|exact Wb|exact F4]. lia.
    - (* SFor *)
      rewrite init_wf_eq in Hw.
      destruct (t_type t =? T_FOR) eqn:C1; cbn [negb] in H; [|discriminate H]. apply Z.eqb_eq in C1.
      destruct (eat_tok t ts) as [r1|] eqn:E1; [|discriminate H].
      destruct (eat_tok_TP _ _ _ E1 F) as [(Tt & Bt & Ct & _) F1].
      destruct (eat T_LPAREN r1) as [[tl r2]|] eqn:E2; [|discriminate H].
      destruct (eat_TP _ _ _ _ E2 F1) as (_ & _ & F2).
      rewrite !enil_match in Hw.
      apply andb_true_iff in Hw as [Hw Wb]. apply andb_true_iff in Hw as [Hw _].
      apply andb_true_iff in Hw as [Hw Wu]. apply andb_true_iff in Hw as [Wi Wc].
      rewrite enil_match in H.
      destruct (if is_enil i then Some r2 else m_expr i r2) as [r3|] eqn:E3; [|discriminate H].
      assert (Wi' : (if is_enil i then true else wfx i) = true).
      { destruct (is_enil i) eqn:Ei; [reflexivity|]. apply init_wfx; assumption. }
      destruct (opt_stepP i r2 r3 ltac:(lia) E3 Wi' F2) as [Ji F3].
      destruct (eat T_SEMICOLON r3) as [[s1 r4]|] eqn:E4; [|discriminate H].
      destruct (eat_TP _ _ _ _ E4 F3) as (_ & _ & F4).
      rewrite enil_match in H.
      destruct (if is_enil c then Some r4 else m_expr c r4) as [r5|] eqn:E5; [|discriminate H].
      assert (Wc' : (if is_enil c then true else wfx c) = true).
      { destruct (is_enil c) eqn:Ei; [reflexivity|]. apply wf_wfx; assumption. }
      destruct (opt_stepP c r4 r5 ltac:(lia) E5 Wc' F4) as [Jc F5].
      destruct (eat T_SEMICOLON r5) as [[s2 r6]|] eqn:E6; [|discriminate H].
      destruct (eat_TP _ _ _ _ E6 F5) as (_ & _ & F6).
      rewrite enil_match in H.
      destruct (if is_enil u then Some r6 else m_expr u r6) as [r7|] eqn:E7; [|discriminate H].
      assert (Wu' : (if is_enil u then true else wfx u) = true).
      { destruct (is_enil u) eqn:Ei; [reflexivity|]. apply wf_wfx; assumption. }
      destruct (opt_stepP u r6 r7 ltac:(lia) E7 Wu' F6) as [Ju F7].
      destruct (eat T_RPAREN r7) as [[tr r8]|] eqn:E8; [|discriminate H].
      destruct (eat_TP _ _ _ _ E8 F7) as (_ & _ & F8).
      apply (P_sfor indent indent_blank); [exact C1|exact (TL_kw _ _ _ Tt C1 eq_refl)|exact Ct|exact Ji|exact Jc|exact Ju|].
      eapply IHs; [|exact H|exact Wb|exact F8]. lia.
  Qed.
End Step.

Lemma P_all : forall n,
  (forall e, (esize e <= n)%nat -> forall ts r, m_expr e ts = Some r -> wfx e = true -> Forall TP ts -> PE e (lead e)) /\
  (forall s, (ssize s <= n)%nat -> forall nx ts r, m_stmt s nx ts = Some r -> wf_stmt s = true ->
     Forall TP ts -> PS s).
Proof.
  induction n as [|n [IHe IHs]].
  - split; [intros e H; destruct e; cbn [esize] in H; lia | intros s H; destruct s; cbn [ssize] in H; lia].
  - split; [apply expr_stepP | apply stmt_stepP]; assumption.
Qed.

Lemma stmts_PS ss nx ts r : m_stmts m_stmt ss nx ts = Some r -> wf_stmts wf_stmt ss = true ->
  Forall TP ts -> Forall PS ss.
Proof.
  intros H Hw F.
  destruct (stmts_P (ssizes ss) (fun s Hs => proj2 (P_all _) s Hs) ss (le_n _) Hw _ _ _ H F) as [J _]. exact J.
Qed.

End Main.

(* ================================================================== *)
(* 4. programs: the text after cleanEmptyLines lexes and parses back   *)
(* ================================================================== *)

Section Final.
Variable indent : str.
Hypothesis indent_blank : blank_str indent.

Local Notation pc := (PrettyWr.pc indent).
Local Notation prun := (PrettyWr.prun indent).
Local Notation PS := (PrettyJ.PS indent).

(* what is written for the trivia of the end-of-input token *)
Definition gend (ce : list str) : str := match ce with [] => [] | _ => rc indent ce 0 end.

Lemma gend_trv_end ce : NLF ce -> trv_end (gend ce).
Proof.
  intro H. unfold gend. destruct ce as [|c ce']; [constructor|].
  apply render_first_trv_end; [apply ind_ws; exact indent_blank|exact H].
Qed.

Lemma buf_comments b pd mp ce :
  w_buf (wstep pc (ps b pd 0 mp) (WComments ce)) = b ++ gend ce.
Proof.
  destruct ce as [|c ce'].
  - rewrite pt_comments_nil. cbn [ps w_buf gend]. rewrite app_nil_r. reflexivity.
  - rewrite pt_comments by discriminate. reflexivity.
Qed.

Lemma code_pretty m p :
  r_code (compile (cfg_pretty indent true m) p) =
  clean_empty_lines (w_buf (wstep pc (prun (ps [] [] 0 SourceMap.mapper_new)
       (sep_map [WNewline] (fun stmt => write_stmt stmt ++ []) (p_stmts p))) (WComments (t_comments (p_eof p))))).
Proof.
  assert (E : r_code (compile (cfg_pretty indent true m) p) = r_code (compile pc p)).
  { destruct m; [|reflexivity]. exact (proj1 (map_flag_neutral true indent true p)). }
  rewrite E. unfold compile, finish, run_wops, write_program. cbn [r_code PrettyWr.pc w_pretty].
  rewrite fold_left_app. reflexivity.
Qed.

Lemma tokenize_eof_only Y : trv_end Y -> exists teof, tokenize Y = Some [teof] /\ t_type teof = T_EOF /\ t_lit teof = [].
Proof.
  intro T. unfold tokenize. cbn [tokenize_from].
  pose proof (next_token_end (lx_init Y) T) as E. pose proof (next_token_eof_lit (lx_init Y) E) as L.
  destruct (next_token (lx_init Y)) as [t l']. cbn [fst] in E, L. rewrite E.
  change (T_EOF =? T_EOF) with true. cbn iota. exists t. repeat split; assumption.
Qed.

Lemma TL_eof_lit t : TL t -> t_type t = T_EOF -> t_lit t = [].
Proof.
  intros Te Heof. unfold TL, tok_lex in Te. apply andb_true_iff in Te as [_ Te]. rewrite Heof in Te. cbn in Te.
  apply str_eqb_spec in Te. exact Te.
Qed.

Lemma send_nsp body : send body -> is_space_go (last body 0%N) = false.
Proof. intros [-> | ->]; reflexivity. Qed.

Theorem round_trip_pretty_TP : forall p toks m,
  Forall TP toks -> m_program p toks = true -> wf_program p = true ->
  exists r, reparse (cfg_pretty indent true m) p = Some r /\ pr_errors r = [] /\
            shape_program (pr_program r) = shape_program p.
Proof.
  intros [ss eof] toks m F Hm Hw. unfold m_program, wf_program in *. cbn [p_stmts p_eof] in *.
  apply andb_true_iff in Hm as [Heof Hm]. apply Z.eqb_eq in Heof.
  destruct (m_stmts m_stmt ss eof toks) as [[|e [|? ?]]|] eqn:Em; try discriminate Hm.
  apply tok_eqb_eq in Hm. subst e.
  pose proof (stmts_PS indent indent_blank _ _ _ _ Em Hw F) as Js.
  assert (Te : TP eof).
  { pose proof (m_stmts_suf_all _ _ _ _ Em) as Sf. pose proof (Forall_suf _ _ _ Sf F) as Fe.
    inversion Fe; assumption. }
  destruct Te as (TLe & _ & Ce & _).
  pose proof (TL_eof_lit _ TLe Heof) as Leof.
  unfold reparse. rewrite code_pretty. cbn [p_stmts p_eof].
  destruct ss as [|s ss].
  - (* no statement *)
    cbn [sep_map]. rewrite prun_nil, buf_comments. cbn [app].
    rewrite clean_rta, trim_space_dwe.
    pose proof (rta_trv_end _ (dwe_trv_end _ (dw_trv_end _ (gend_trv_end _ Ce)))) as TY.
    destruct (tokenize_eof_only _ TY) as (teof & Tok & Eeof & Lit). rewrite Tok.
    set (p' := mkprogram [] teof).
    assert (Mp : m_program p' [teof] = true).
    { unfold m_program, p'. cbn [p_eof p_stmts m_stmts]. rewrite Eeof.
      change (T_EOF =? T_EOF) with true. cbn [andb]. apply tok_eqb_refl. }
    destruct (parse_complete p' _ Mp eq_refl) as (r & Hr & Pr & Er & _).
    exists r. split; [exact Hr|]. split; [exact Er|].
    rewrite Pr. unfold shape_program, p'. cbn [p_stmts p_eof map]. f_equal.
    apply norm_eq; congruence.
  - (* statements *)
    assert (Fp : Forall (fun x => PSo indent ((fun stmt => write_stmt stmt ++ []) x) x) (s :: ss)).
    { apply Forall_forall. intros x Hx. apply PSo_plain. exact (proj1 (Forall_forall _ _) Js x Hx). }
    destruct (PSS_sep indent _ ss s Fp [] [] 0 SourceMap.mapper_new ltac:(lia) pend_ok_nil)
      as (g1 & body & W & Gg & Hs & Lx).
    rewrite W, buf_comments. cbn [app].
    destruct Gg as [Tg1 _]. destruct Hs as [[[Hs1 Hs2] Hs3] Se].
    assert (Nb : body <> []) by (intro E; subst body; cbn in Hs2; congruence).
    rewrite clean_rta, <- app_assoc.
    rewrite (trim_space_shape g1 body (gend (t_comments eof)) Tg1 Nb Hs3 (send_nsp _ Se)).
    set (Ke := rta (dwe is_space_go (gend (t_comments eof))) []).
    rewrite !rta_app. fold Ke.
    assert (TK : trv_end Ke) by (apply rta_trv_end, dwe_trv_end, gend_trv_end; exact Ce).
    assert (HZ : rta body Ke <> [] /\ isWhitespace (hd 0%N (rta body Ke)) = false).
    { destruct body as [|c body']; [congruence|]. cbn [hd] in Hs1. rewrite (rta_cons_nb c body' Ke (ws_nz _ Hs1)).
      split; [discriminate|exact Hs1]. }
    destruct HZ as [Z1 Z2].
    destruct (rta_trv _ (dw_trv _ Tg1) (rta body Ke) Z1 Z2) as (g1' & E1 & T1' & _).
    rewrite E1.
    set (Y := g1' ++ rta body Ke).
    destruct (Lx Ke g1' (lx_init Y) T1' eq_refl) as (ss' & ts & l1 & L & R1 & M & Sh).
    assert (TK1 : trv_end (l_rest l1)) by (rewrite R1; exact TK).
    pose proof (next_token_end l1 TK1) as Eeof. pose proof (next_token_eof_lit l1 Eeof) as Lit.
    destruct (next_token l1) as [teof l2] eqn:Neof. cbn [fst] in Eeof, Lit.
    assert (Tok : tokenize Y = Some (ts ++ [teof])).
    { unfold tokenize. pose proof (lexes_len _ _ _ L) as Len. cbn [lx_init l_rest] in Len.
      replace (S (length Y)) with (length ts + S (length Y - length ts))%nat by lia.
      rewrite (tokenize_from_lexes _ _ _ L). cbn [tokenize_from]. rewrite Neof.
      rewrite Eeof. change (T_EOF =? T_EOF) with true. cbn iota. reflexivity. }
    rewrite Tok.
    set (p' := mkprogram ss' teof).
    assert (Mp : m_program p' (ts ++ [teof]) = true).
    { unfold m_program, p'. cbn [p_eof p_stmts]. rewrite Eeof.
      change (T_EOF =? T_EOF) with true. cbn [andb]. rewrite M. apply tok_eqb_refl. }
    assert (Wf : wf_program p' = true).
    { unfold wf_program, p'. cbn [p_stmts]. rewrite <- wf_stmts_shape, Sh, wf_stmts_shape. exact Hw. }
    destruct (parse_complete p' _ Mp Wf) as (r & Hr & Pr & Er & _).
    exists r. split; [exact Hr|]. split; [exact Er|].
    rewrite Pr. unfold shape_program, p'. cbn [p_stmts p_eof]. rewrite Sh. f_equal.
    apply norm_eq; congruence.
Qed.

End Final.

Theorem program_round_trip_pretty : forall src toks p indent m,
  tokenize src = Some toks -> strings_stable toks = true -> literals_trim_safe toks = true ->
  m_program p toks = true -> wf_program p = true -> blank_str indent ->
  exists r, reparse (cfg_pretty indent true m) p = Some r /\ pr_errors r = [] /\
            shape_program (pr_program r) = shape_program p.
Proof.
  intros src toks p indent m Ht SS TS Hm Hw Hb.
  exact (round_trip_pretty_TP indent Hb p toks m (lexed_TP src toks Ht SS TS) Hm Hw).
Qed.

Print Assumptions program_round_trip_pretty.
