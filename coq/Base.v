(* Base.v -- shared conventions of the xjs model.
   Bytes are [N] (invariant < 256), Go strings are [list N], Go [int] is [Z]. *)
From Coq Require Export List ZArith NArith Bool Lia.
From Coq Require Import ZifyBool ZifyN ZifyNat.
Export ListNotations.
Open Scope Z_scope.

Definition byte := N.
Definition str := list N.

Definition is_byte (b : N) : Prop := (b < 256)%N.
Definition bytes (s : str) : Prop := Forall is_byte s.

(* byte-string equality *)
Fixpoint str_eqb (a b : str) : bool :=
  match a, b with
  | [], [] => true
  | x :: a', y :: b' => N.eqb x y && str_eqb a' b'
  | _, _ => false
  end.

Lemma str_eqb_spec a b : str_eqb a b = true <-> a = b.
Proof.
  revert b; induction a as [|x a IH]; intros [|y b]; simpl; split; intro H;
    try discriminate; try reflexivity.
  - apply andb_true_iff in H as [H1 H2]. apply N.eqb_eq in H1. apply IH in H2. congruence.
  - inversion H; subst. rewrite N.eqb_refl. simpl. apply IH. reflexivity.
Qed.

Lemma str_eqb_refl a : str_eqb a a = true.
Proof. apply str_eqb_spec. reflexivity. Qed.

(* positions: 0-based line, 0-based byte column *)
Record pos := mkpos { pline : Z; pcol : Z }.

Definition pos_eqb (a b : pos) : bool := (pline a =? pline b) && (pcol a =? pcol b).

Definition LF : N := 10%N.
Definition CR : N := 13%N.

(* The abstract position of byte offset [k] of [src]:
   (number of LF among the first k bytes, bytes since the last LF). *)
Fixpoint pos_after (p : pos) (s : str) : pos :=
  match s with
  | [] => p
  | c :: s' => pos_after (if N.eqb c LF then mkpos (pline p + 1) 0
                          else mkpos (pline p) (pcol p + 1)) s'
  end.

Definition pos_of_offset (src : str) (k : nat) : pos := pos_after (mkpos 0 0) (firstn k src).

Lemma pos_after_app p a b : pos_after p (a ++ b) = pos_after (pos_after p a) b.
Proof. revert p; induction a as [|c a IH]; intro p; simpl; [reflexivity|apply IH]. Qed.

(* first index of an element in a list of strings *)
Fixpoint index_of (x : str) (l : list str) (i : Z) : option Z :=
  match l with
  | [] => None
  | y :: l' => if str_eqb x y then Some i else index_of x l' (i + 1)
  end.

Definition nthZ {A} (l : list A) (i : Z) (d : A) : A :=
  if i <? 0 then d else nth (Z.to_nat i) l d.

Fixpoint repeat_app {A} (n : nat) (l : list A) : list A :=
  match n with O => [] | S n' => l ++ repeat_app n' l end.
