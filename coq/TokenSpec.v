(* TokenSpec -- the text a program is made of, with layout, comments and statement
   terminators removed: on the source side the concatenation of the token texts, on the
   output side the concatenation of everything the printer writes.  Used by C01: the
   compiled output consists of exactly the source's tokens, in source order
   (specification only; proofs are in TokenProofs.v). *)
Require Import Base GoOps Token Tree Writer PrinterLib Compile.
Require Import Gen.Tables Gen.Printer.

Definition semicolon : N := 59%N.

(* canonical text of a token: strings are re-quoted with double quotes (same value by
   C07), backtick bodies get their backticks re-escaped; ';' and EOF contribute nothing *)
Definition tok_text (t : token) : str :=
  if (t_type t =? T_STRING)%Z then 34%N :: t_lit t ++ [34%N]
  else if (t_type t =? T_RAW_STRING)%Z then 96%N :: replace_all (t_lit t) [96%N] [92%N; 96%N] ++ [96%N]
  else if (t_type t =? T_SEMICOLON)%Z then []
  else if (t_type t =? T_EOF)%Z then []
  else t_lit t.

Definition toks_text (ts : list token) : str := concat (map tok_text ts).

(* what an operation of the printer contributes: its bytes; terminators, layout,
   comments and mappings contribute nothing *)
Definition wop_text (w : wop) : str :=
  match w with
  | WString s => s
  | WRune c => if (c =? semicolon)%N then [] else [c]
  | _ => []
  end.

Definition wops_text (ws : list wop) : str := concat (map wop_text ws).

(* the printer writes the blanks around keywords as part of its strings ("let ", " else ",
   "function "), so both sides are compared with the space bytes removed; the bytes of
   string literals - spaces included - are covered separately by C07_string_printed *)
Definition despace (s : str) : str := filter (fun c => negb (c =? 32)%N) s.

Definition token_preserving (p : program) (toks : list token) : bool :=
  str_eqb (despace (wops_text (write_program p))) (despace (toks_text toks)).

(* ---- canonical spelling of the fixed tokens (hypothesis of C01) ----
   The grammar checks keyword and punctuation tokens by TYPE only, while the printer
   writes their fixed text; so C01 is about token lists whose keyword / operator /
   punctuation tokens are spelled as the lexer spells them.  Keywords: the generated
   table [token_keywords] (token.keywords in the Go source).  Operators and punctuation
   have no table in the Go source (they are the cases of the switch in
   lexer.baseNextToken, Lexer.base_next_token), hence this hand-written one. *)
Definition punct_spelling : list (Z * str) := [
  (T_ASSIGN, [61]%N); (T_PLUS_ASSIGN, [43; 61]%N); (T_MINUS_ASSIGN, [45; 61]%N);
  (T_PLUS, [43]%N); (T_MINUS, [45]%N); (T_MULTIPLY, [42]%N); (T_DIVIDE, [47]%N); (T_MODULO, [37]%N);
  (T_EQ, [61; 61]%N); (T_NOT_EQ, [33; 61]%N); (T_LT, [60]%N); (T_GT, [62]%N);
  (T_LTE, [60; 61]%N); (T_GTE, [62; 61]%N); (T_AND, [38; 38]%N); (T_OR, [124; 124]%N);
  (T_NOT, [33]%N); (T_INCREMENT, [43; 43]%N); (T_DECREMENT, [45; 45]%N);
  (T_COMMA, [44]%N); (T_SEMICOLON, [59]%N); (T_COLON, [58]%N); (T_DOT, [46]%N);
  (T_LPAREN, [40]%N); (T_RPAREN, [41]%N); (T_LBRACE, [123]%N); (T_RBRACE, [125]%N);
  (T_LBRACKET, [91]%N); (T_RBRACKET, [93]%N)
].

Definition token_spelling (ty : Z) : option str :=
  match find (fun kv => snd kv =? ty) token_keywords with
  | Some kv => Some (fst kv)
  | None =>
      match find (fun kv => fst kv =? ty) punct_spelling with
      | Some kv => Some (snd kv)
      | None => None
      end
  end.

(* identifiers, numbers, strings, EOF (and ILLEGAL) have no fixed spelling *)
Definition tok_canonical (t : token) : bool :=
  match token_spelling (t_type t) with
  | Some s => str_eqb (t_lit t) s
  | None => true
  end.

(* ---- from the operation list to the code, in every configuration ---- *)

(* bytes the code writer adds on its own account: blanks, line breaks, indentation,
   statement terminators *)
Definition layout_byte (c : N) : bool :=
  (c =? 32)%N || (c =? 9)%N || (c =? 10)%N || (c =? 11)%N || (c =? 12)%N || (c =? 13)%N || (c =? semicolon)%N.

Definition nolayout (s : str) : str := filter (fun c => negb (layout_byte c)) s.

(* what an operation contributes to the code under a configuration: comments are
   written by the pretty configurations only ("//" + text; an empty item is a blank line) *)
Definition comment_bytes (c : str) : str := match c with [] => [] | _ => [47; 47]%N ++ c end.

Definition wop_bytes (cfg : wcfg) (w : wop) : str :=
  match w with
  | WString s => s
  | WRune c => [c]
  | WComments cs => if w_pretty cfg then concat (map comment_bytes cs) else []
  | _ => []
  end.

Definition wops_bytes (cfg : wcfg) (ws : list wop) : str := concat (map (wop_bytes cfg) ws).

(* the code of a configuration consists of exactly the source's tokens *)
Definition code_tokens (cfg : wcfg) (p : program) (toks : list token) : bool :=
  str_eqb (nolayout (r_code (compile cfg p))) (nolayout (toks_text toks)).
