(* TokenSpec -- the text a program is made of, with layout, comments and statement
   terminators removed: on the source side the concatenation of the token texts, on the
   output side the concatenation of everything the printer writes.  Used by C01: the
   compiled output consists of exactly the source's tokens, in source order
   (specification only; proofs are in TokenProofs.v). *)
Require Import Base GoOps Token Tree Writer PrinterLib Compile.
Require Import Gen.Tables Gen.Printer.

Definition semicolon : N := 59%N.

(* canonical text of a token: strings are re-quoted with double quotes (same value by
   C07), backtick bodies get their backticks re-escaped; ';' and EOF contribute nothing *)
Definition tok_text (t : token) : str :=
  if (t_type t =? T_STRING)%Z then 34%N :: t_lit t ++ [34%N]
  else if (t_type t =? T_RAW_STRING)%Z then 96%N :: replace_all (t_lit t) [96%N] [92%N; 96%N] ++ [96%N]
  else if (t_type t =? T_SEMICOLON)%Z then []
  else if (t_type t =? T_EOF)%Z then []
  else t_lit t.

Definition toks_text (ts : list token) : str := concat (map tok_text ts).

(* what an operation of the printer contributes: its bytes; terminators, layout,
   comments and mappings contribute nothing *)
Definition wop_text (w : wop) : str :=
  match w with
  | WString s => s
  | WRune c => if (c =? semicolon)%N then [] else [c]
  | _ => []
  end.

Definition wops_text (ws : list wop) : str := concat (map wop_text ws).

(* the printer writes the blanks around keywords as part of its strings ("let ", " else ",
   "function "), so both sides are compared with the space bytes removed; the bytes of
   string literals - spaces included - are covered separately by C07_string_printed *)
Definition despace (s : str) : str := filter (fun c => negb (c =? 32)%N) s.

Definition token_preserving (p : program) (toks : list token) : bool :=
  str_eqb (despace (wops_text (write_program p))) (despace (toks_text toks)).

(* ---- from the operation list to the code, in every configuration ---- *)

(* bytes the code writer adds on its own account: blanks, line breaks, indentation,
   statement terminators *)
Definition layout_byte (c : N) : bool :=
  (c =? 32)%N || (c =? 9)%N || (c =? 10)%N || (c =? 11)%N || (c =? 12)%N || (c =? 13)%N || (c =? semicolon)%N.

Definition nolayout (s : str) : str := filter (fun c => negb (layout_byte c)) s.

(* what an operation contributes to the code under a configuration: comments are
   written by the pretty configurations only ("//" + text; an empty item is a blank line) *)
Definition comment_bytes (c : str) : str := match c with [] => [] | _ => [47; 47]%N ++ c end.

Definition wop_bytes (cfg : wcfg) (w : wop) : str :=
  match w with
  | WString s => s
  | WRune c => [c]
  | WComments cs => if w_pretty cfg then concat (map comment_bytes cs) else []
  | _ => []
  end.

Definition wops_bytes (cfg : wcfg) (ws : list wop) : str := concat (map (wop_bytes cfg) ws).

(* the code of a configuration consists of exactly the source's tokens *)
Definition code_tokens (cfg : wcfg) (p : program) (toks : list token) : bool :=
  str_eqb (nolayout (r_code (compile cfg p))) (nolayout (toks_text toks)).
