(* WriterSpec.v -- vocabulary for the writer / printer property statements. *)
Require Import Base Token Tree SourceMap Writer PrinterLib Compile.
Require Import Gen.Printer.

Definition no_cr (s : str) : Prop := ~ In CR s.

Definition no_cr_op (o : wop) : Prop :=
  match o with
  | WString s => no_cr s
  | WRune c => True
  | WComments cs => Forall no_cr cs
  | _ => True
  end.

Definition gen_pos (m : mapping) : pos := mkpos (m_gl m) (m_gc m).

(* lexicographic order on positions *)
Definition pos_le (a b : pos) : Prop :=
  pline a < pline b \/ (pline a = pline b /\ pcol a <= pcol b).

Fixpoint sorted_pos (l : list pos) : Prop :=
  match l with
  | [] => True
  | a :: l' => match l' with [] => True | b :: _ => pos_le a b end /\ sorted_pos l'
  end.

Definition is_semi_op (o : wop) : bool := match o with WSemi => true | _ => false end.
Definition erase_semis (ops : list wop) : list wop := filter (fun o => negb (is_semi_op o)) ops.

Definition is_blank (c : N) : bool := N.eqb c 32 || N.eqb c 9.
Definition blank_str (s : str) : Prop := forallb is_blank s = true.

Definition strip_leading_blanks (s : str) : str := drop_while is_blank s.

(* the lines of a text, each without its leading blanks *)
Definition lines_modulo_indent (code : str) : list str :=
  map strip_leading_blanks (split_lines code []).
