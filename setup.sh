#!/bin/bash
# Build the verification framework from files on disk only (offline).
set -e
cd "$(dirname "$0")"
export GOFLAGS=-mod=mod GOPROXY=off GOSUMDB=off GOTOOLCHAIN=local
mkdir -p build evidence replays
(cd translator && go build -o ../build/xjs2v .)
./build/xjs2v "${XJS_REPO:-/repo}" coq/Gen
(cd coq && coq_makefile -f _CoqProject -o Makefile && timeout 3000 make -j16)
cp "${XJS_REPO:-/repo}/go.sum" harness/go.sum
(cd harness && go build -o ../build/harness .)
# extraction + driver are built (and cached by content hash) by the first check
python3 - <<'PY'
import sys, os
sys.path.insert(0, 'lib')
sys.argv = ['check']
import importlib.util, importlib.machinery
loader = importlib.machinery.SourceFileLoader('checkmod', 'check')
spec = importlib.util.spec_from_loader('checkmod', loader)
m = importlib.util.module_from_spec(spec); loader.exec_module(m)
probs = []
with m.Lock():
    ok = m.step_driver(probs)
print('driver built' if ok else probs)
sys.exit(0 if ok else 1)
PY
echo setup done
