#!/usr/bin/env python3
"""Regenerates /verif/MANIFEST.json from lib/props.py (single source of truth)."""
import json, os, sys
VERIF = os.path.dirname(os.path.dirname(os.path.abspath(__file__)))
sys.path.insert(0, os.path.join(VERIF, "lib"))
from props import PROPS, NOT_CLAIMED  # noqa

ids = [json.loads(l)["id"] for l in open(os.path.join(VERIF, "properties.jsonl"))]
checks = []
for pid in ids:
    if pid not in PROPS:
        continue
    c = PROPS[pid]
    checks.append(dict(
        property_id=pid,
        quick_cmd="./check %s --tier quick" % pid,
        thorough_cmd="./check %s --tier thorough" % pid,
        evidence_file="/verif/evidence/%s.json" % pid,
        replay_cmd_template="./check %s --replay {path}" % pid,
        engine="coq-model",
        level_claimed=dict(category="proof", text=c["level_text"], design_ref=c.get("design_ref", "DESIGN.md 5")),
        level_note=c["level_note"],
        technique=c.get("technique", "Coq proof over an executable model + model/implementation correspondence"),
    ))
na = [dict(property_id=pid, reason=NOT_CLAIMED.get(pid, "not yet claimed in this revision: theorems under construction (DESIGN.md section 9)"))
      for pid in ids if pid not in PROPS]
m = dict(
    version=1,
    setup_cmd="./setup.sh",
    hooks=dict(guard="verif",
               enable="no hooks needed: every observable is public API; the harness links /repo's working tree through a replace directive",
               baseline_off_cmd="cd /repo && GOFLAGS=-mod=mod GOPROXY=off GOSUMDB=off go test -vet=off -count=1 ./...",
               source_commits=[], add_only=True),
    engines=[dict(name="coq-model", path="/verif/coq", serves_properties=[c["property_id"] for c in checks],
                  kind_free_text="Coq 8.16 development: executable Gallina model + specification + theorems; translator /verif/translator "
                                 "regenerates coq/Gen from /repo on every run; harness /verif/harness (Go) and driver /verif/driver (OCaml, "
                                 "extracted model) run implementation and model on the same cases; direct search oracles in the harness")],
    checks=checks,
    notes="See DESIGN.md. ./check <id> decides one property. Genuine defects repaired by unguarded 'fix:' commits in /repo (20) are "
          "listed in /verif/known_findings.json under 'fixed'; recorded defects (KF1-KF20 without the repaired KF9, KF13 and KF15, 'findings') are reported as KNOWN-FINDING "
          "lines and suppress nothing else. Seeded breaking changes used to test the checks are in /verif/seeded (65) and "
          "behaviour-preserving refactorings in /verif/refactors (8); tools/run_seeded.py applies one, runs the checks and reverts.",
    not_applicable=na,
)
json.dump(m, open(os.path.join(VERIF, "MANIFEST.json"), "w"), indent=1)
print("MANIFEST.json: %d checks, %d not claimed" % (len(checks), len(na)))
