#!/usr/bin/env python3
"""run_seeded.py <seeded-dir-or-patch> [props...]: apply a seeded change to /repo, run the
quick checks (all registered, or the listed ones), print which ones raise, and undo it."""
import sys, os, subprocess, json, time
VERIF = os.path.dirname(os.path.dirname(os.path.abspath(__file__)))
sys.path.insert(0, os.path.join(VERIF, "lib"))
from props import PROPS
REPO = os.environ.get("XJS_REPO", "/repo")
arg = sys.argv[1]
patch = arg if arg.endswith(".diff") else os.path.join(arg, "patch.diff")
props = sys.argv[2:] or sorted(PROPS)
st = subprocess.run(["git", "-C", REPO, "status", "--porcelain"], capture_output=True, text=True).stdout.strip()
if st:
    print("refusing: /repo is not clean:\n" + st); sys.exit(2)
r = subprocess.run(["git", "-C", REPO, "apply", os.path.abspath(patch)], capture_output=True, text=True)
if r.returncode != 0:
    print("patch does not apply:", r.stderr); sys.exit(2)
res = {}
# evidence files describe clean-tree runs: keep them out of reach of the seeded runs
import shutil, tempfile
ev_backup = tempfile.mkdtemp(prefix="evidence_")
shutil.copytree(os.path.join(VERIF, "evidence"), os.path.join(ev_backup, "evidence"))
try:
    env = dict(os.environ, GOFLAGS="-mod=mod", GOPROXY="off", GOSUMDB="off", GOTOOLCHAIN="local")
    t = subprocess.run("cd " + REPO + " && go build ./... && go test -vet=off -count=1 ./... 2>&1 | grep -v '^ok\\|no test files' | head -5", shell=True, capture_output=True, text=True, env=env)
    print("baseline with patch:", "OK" if not t.stdout.strip() and t.returncode == 0 else "FAILS: " + t.stdout + t.stderr)
    for p in props:
        t0 = time.time()
        c = subprocess.run([os.path.join(VERIF, "check"), p], capture_output=True, text=True, cwd=VERIF)
        viol = [l for l in c.stdout.splitlines() if l.startswith("VIOLATION")]
        res[p] = dict(rc=c.returncode, violation=viol[0] if viol else "", s=round(time.time() - t0, 1))
        tag = "RAISED" if c.returncode != 0 else "quiet"
        extra = ""
        if viol:
            extra = " no-failing-input-found" if "no-failing-input-found" in viol[0] else " (with failing input)"
        print("  %s: %s%s (%.1fs)" % (p, tag, extra, time.time() - t0))
finally:
    subprocess.run(["git", "-C", REPO, "checkout", "--", "."])
    shutil.rmtree(os.path.join(VERIF, "evidence"))
    shutil.copytree(os.path.join(ev_backup, "evidence"), os.path.join(VERIF, "evidence"))
    shutil.rmtree(ev_backup)
    # regenerate Gen and rebuild on the clean tree so later runs start clean
    subprocess.run([os.path.join(VERIF, "build", "xjs2v"), REPO, os.path.join(VERIF, "coq", "Gen")])
print(json.dumps(res))
