(* Not part of the development: evaluation that validated the statement of C05_groups_by_level_x before it was
   proved (cp to coq/ClimbTest.v; coqc -R . XJS ClimbTest.v; 15 s): on 17,340 trees with prefix / postfix operators and
   groups x 9 levels of a registered infix operator, well_grouped_x holds iff the model parser returns exactly the tree.
   A test, not a proof. *)
Require Import Base Token Tree Parser ClimbSpec ClimbSpec2 ParserSpec.
Require Import Gen.Tables.
Definition p0 := mkpos 0 0.
Definition tk ty (l : str) := mktoken ty l p0 p0 false [].
Definition a := tk T_IDENT [97%N].
Definition d := tk T_INT [49%N].
Definition hat := tk 1000 [94%N]. Definition hash := tk 1001 [35%N]. Definition tilde := tk 1002 [126%N]. Definition q := tk 1003 [63%N].
Definition plus := tk T_PLUS [43%N]. Definition minus := tk T_MINUS [45%N]. Definition bang := tk T_NOT [33%N].
Definition lp := tk T_LPAREN [40%N]. Definition rp := tk T_RPAREN [41%N].
Definition eof := tk T_EOF [].
Definition semi := tk T_SEMICOLON [59%N].
Definition cfgk k smart := mkpcfg false smart [] [] [1002] [(1000, k)] [1003].
Definition cfg2 k k2 := mkpcfg false false [] [] [1002] [(1000, k); (1001, k2)] [1003].
Fixpoint render (e : expr) : list N :=
  match e with
  | EIdent i => id_value i
  | EInt t => t_lit t
  | EBinary t l op r => [40%N] ++ render l ++ op ++ render r ++ [41%N]
  | EUnary t op r => [91%N] ++ op ++ render r ++ [93%N]
  | EPostfix t l op => [123%N] ++ render l ++ op ++ [125%N]
  | EGroup _ e _ => [60%N] ++ render e ++ [62%N]
  | _ => [88%N]
  end.
Fixpoint leqb (x y : list N) : bool := match x, y with [], [] => true | p :: x', q :: y' => N.eqb p q && leqb x' y' | _, _ => false end.
Definition parses_to cfg t sm : bool := match parse_tokens cfg (xstmt_tokens t sm eof) with
  | Some r => match p_stmts (pr_program r), pr_errors r with [SExpr e], [] => leqb (render e) (render (xexpr t)) | _, _ => false end | None => false end.
Definition bops := [hat; plus; minus].
Definition un (ts : list xtree) : list xtree :=
  flat_map (fun e => [XPre bang e; XPre minus e; XPre tilde e; XPost e q; XGroup lp e rp]) ts.
Definition bin (ls rs : list xtree) : list xtree :=
  flat_map (fun l => flat_map (fun op => map (fun r => XBin l op r) rs) bops) ls.
Definition t0 := [XAtom a].
Definition t1 := t0 ++ un t0 ++ bin t0 t0.
Definition t2 := t0 ++ un t1 ++ bin t1 t1.
Definition t3 := t2 ++ un t2 ++ bin t2 t1 ++ bin t1 t2.
Definition ks := [2;5;7;8;9;10;11;12;13].
Definition bad cfg := filter (fun t => negb (Bool.eqb (well_grouped_x cfg t) (parses_to cfg t [semi]))) t3.
Definition allbad := flat_map (fun k => map (fun t => (k, xyield t, well_grouped_x (cfgk k false) t)) (bad (cfgk k false))) ks.
Eval vm_compute in (length t3, length (filter (well_grouped_x (cfgk 10 false)) t3), cfg_ok_x (cfgk 10 true)).
Eval vm_compute in (length allbad, map (fun x => (fst (fst x), map t_lit (snd (fst x)), snd x)) (firstn 4 allbad)).
Eval vm_compute in (length (bad (cfgk 10 true)), length (filter (fun t => negb (Bool.eqb (well_grouped_x (cfgk 9 true) t) (parses_to (cfgk 9 true) t []))) t2)).

(* second grid, added after the proof attempt refuted the first version of right_ok: two registered infix operators *)
Definition bin2 (ls rs : list xtree) : list xtree :=
  flat_map (fun l => flat_map (fun op => map (fun r => XBin l op r) rs) [hat; hash; plus]) ls.
Definition u1 := t0 ++ un t0 ++ bin2 t0 t0.
Definition u2 := t0 ++ un u1 ++ bin2 u1 u1.
Definition u3 := u2 ++ bin2 u2 u1 ++ bin2 u1 u2.
Definition bad2 cfg := filter (fun t => negb (Bool.eqb (well_grouped_x cfg t) (parses_to cfg t [semi]))) u3.
Eval vm_compute in (length u3, map (fun kk => length (bad2 (cfg2 (fst kk) (snd kk)))) [(10,11);(11,12);(11,13);(12,13);(12,11);(9,11);(11,11)]).
