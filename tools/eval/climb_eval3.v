(* Not part of the development: evaluation that validated the statement of C05_groups_by_level_y before the proof
   (cp to coq/ClimbTest.v; ulimit -s unlimited; coqc -R . XJS ClimbTest.v; 2.5 min): 1,905 depth-2 trees x 8 configurations and
   407,670 depth-3 trees x 3 configurations: well_grouped_y holds iff the model parser returns exactly the tree.  A test. *)
Require Import Base Token Tree Parser ClimbSpec ClimbSpec2 ClimbSpec3 ParserSpec.
Require Import Gen.Tables.
Definition p0 := mkpos 0 0.
Definition tk ty (l : str) := mktoken ty l p0 p0 false [].
Definition a := tk T_IDENT [97%N].
Definition hat := tk 1000 [94%N]. Definition hash := tk 1001 [35%N]. Definition tilde := tk 1002 [126%N]. Definition q := tk 1003 [63%N].
Definition plus := tk T_PLUS [43%N]. Definition minus := tk T_MINUS [45%N]. Definition bang := tk T_NOT [33%N].
Definition lp := tk T_LPAREN [40%N]. Definition rp := tk T_RPAREN [41%N].
Definition lb := tk T_LBRACKET [91%N]. Definition rb := tk T_RBRACKET [93%N].
Definition dot := tk T_DOT [46%N]. Definition comma := tk T_COMMA [44%N].
Definition inc := tk T_INCREMENT [43%N;43%N]. Definition asg := tk T_ASSIGN [61%N]. Definition pasg := tk T_PLUS_ASSIGN [43%N;61%N].
Definition eof := tk T_EOF [].
Definition semi := tk T_SEMICOLON [59%N].
Definition cfg2 k k2 smart := mkpcfg false smart [] [] [1002] [(1000, k); (1001, k2)] [1003].
Fixpoint render (e : expr) : list N :=
  match e with
  | EIdent i => id_value i
  | EInt t => t_lit t
  | EBinary t l op r => [40%N] ++ render l ++ op ++ render r ++ [41%N]
  | EUnary t op r => [91%N] ++ op ++ render r ++ [93%N]
  | EPostfix t l op => [123%N] ++ render l ++ op ++ [125%N]
  | EGroup _ e _ => [60%N] ++ render e ++ [62%N]
  | EMember _ o p c => [77%N; if c then 49%N else 48%N] ++ render o ++ [32%N] ++ render p ++ [109%N]
  | ECall _ f args => [67%N] ++ render f ++ flat_map (fun x => 44%N :: render x) args ++ [99%N]
  | EAssign _ l v => [65%N] ++ render l ++ [61%N] ++ render v ++ [97%N]
  | ECompound _ l op v => [75%N] ++ render l ++ op ++ [61%N] ++ render v ++ [107%N]
  | _ => [88%N]
  end.
Fixpoint leqb (x y : list N) : bool := match x, y with [], [] => true | p :: x', q :: y' => N.eqb p q && leqb x' y' | _, _ => false end.
Definition parses_to cfg t sm : bool := match parse_tokens cfg (ystmt_tokens t sm eof) with
  | Some r => match p_stmts (pr_program r), pr_errors r with [SExpr e], [] => leqb (render e) (render (yexpr t)) | _, _ => false end | None => false end.
Definition A := YAtom a.
Definition un1 (e : ytree) : list ytree := [YPre bang e; YPre tilde e; YPost e q; YPost e inc; YGroup lp e rp; YIndex e lb A rb; YIndex A lb e rb;
                      YCall e lp None [] rp; YCall e lp (Some A) [] rp; YCall A lp (Some e) [(comma, e)] rp].
Definition un (ts : list ytree) : list ytree := flat_map un1 ts.
Definition bin1 (l r : ytree) : list ytree := [YBin l hat r; YBin l hash r; YBin l plus r; YMember l dot r; YAssign l asg r; YAssign l pasg r].
Definition bin (ls rs : list ytree) : list ytree := flat_map (fun l => flat_map (bin1 l) rs) ls.
Definition t0 := [A].
Definition t1 := t0 ++ un t0 ++ bin t0 t0.
Definition t2 := t0 ++ un t1 ++ bin t1 t1.
Definition t3 := un t2 ++ bin t2 t1 ++ bin t1 t2.
Definition bad ts cfg := filter (fun t => negb (Bool.eqb (well_grouped_y cfg t) (parses_to cfg t [semi]))) ts.
Eval vm_compute in (length t2, length t3, length (filter (well_grouped_y (cfg2 10 12 false)) t2), cfg_ok_y (cfg2 10 12 true)).
Definition show cfg ts := map (fun t => (map t_lit (yyield t), well_grouped_y cfg t)) (firstn 6 (bad ts cfg)).
Eval vm_compute in (length (bad t2 (cfg2 10 12 false)), show (cfg2 10 12 false) t2).
Eval vm_compute in (map (fun kk => length (bad t2 (cfg2 (fst kk) (snd kk) true))) [(2,9);(9,11);(11,12);(12,13);(13,2);(5,10);(10,10)]).
Eval vm_compute in (map (fun kk => length (bad t3 (cfg2 (fst kk) (snd kk) false))) [(11,12);(10,12);(2,9)], show (cfg2 11 12 false) t3).
