(* Not part of the development: evaluation used to validate the statement of C05_groups_by_level
   before proving it (cp to coq/ClimbTest.v; coqc -R . XJS ClimbTest.v; 15 s): on 3,835 operator trees x 36
   level pairs of two registered operators, well_grouped holds iff the model parser returns exactly the
   tree without error.  A test, not a proof. *)
Require Import Base Token Tree Parser ClimbSpec ParserSpec.
Require Import Gen.Tables.
Definition p0 := mkpos 0 0.
Definition tk ty (l : str) := mktoken ty l p0 p0 false [].
Definition a := tk T_IDENT [97%N]. 
Definition d := tk T_INT [49%N].
Definition hat := tk 1000 [94%N]. Definition hash := tk 1001 [35%N].
Definition plus := tk T_PLUS [43%N]. Definition minus := tk T_MINUS [45%N]. Definition star := tk T_MULTIPLY [42%N]. Definition orr := tk T_OR [124%N;124%N].
Definition eof := tk T_EOF [].
Definition semi := tk T_SEMICOLON [59%N].
Definition cfgk k k2 := mkpcfg false false [] [] [] [(1000, k); (1001, k2)] [].
Fixpoint render (e : expr) : list N :=
  match e with
  | EIdent i => id_value i
  | EInt t => t_lit t
  | EBinary t l op r => [40%N] ++ render l ++ op ++ render r ++ [41%N]
  | _ => [63%N]
  end.
Fixpoint leqb (x y : list N) : bool := match x, y with [], [] => true | p :: x', q :: y' => N.eqb p q && leqb x' y' | _, _ => false end.
Definition parses_to cfg t sm : bool := match parse_tokens cfg (cstmt_tokens t sm eof) with
  | Some r => match p_stmts (pr_program r), pr_errors r with [SExpr e], [] => leqb (render e) (render (cexpr t)) | _, _ => false end | None => false end.
Definition ops := [hat; hash; plus; minus; star; orr].

Definition t0 := [CAtom a].
Definition grow (ls rs : list ctree) : list ctree :=
  flat_map (fun l => flat_map (fun op => map (fun r => CBin l op r) rs) ops) ls.
Definition t1 := t0 ++ grow t0 t0.
Definition t2 := t0 ++ grow t1 t1.
Definition t3 := t2 ++ grow t2 [CAtom d] ++ grow [CAtom d] t2.
Definition ks := [2;3;7;8;9;10;11;12;13]. Definition k2s := [2;7;9;13].
(* for every tree: well_grouped <-> the parser returns exactly it *)
Definition bad cfg := filter (fun t => negb (Bool.eqb (well_grouped cfg t) (parses_to cfg t [semi]))) t3.
Definition allbad := flat_map (fun k => flat_map (fun k2 => map (fun t => (k, k2, cyield t)) (bad (cfgk k k2))) k2s) ks.
Definition nwg := length (filter (well_grouped (cfgk 9 2)) t3).
Eval vm_compute in (length t3, nwg).
Eval vm_compute in (length allbad, map (fun x => (fst (fst x), snd (fst x), map t_lit (snd x))) (firstn 3 allbad)).
Eval vm_compute in (parses_to (cfgk 5 5) (CBin (CBin (CAtom a) hat (CAtom d)) hash (CAtom a)) [], parses_to (cfgk 1 5) (CBin (CAtom a) hat (CAtom d)) [semi], well_grouped (cfgk 1 5) (CBin (CAtom a) hat (CAtom d))).
