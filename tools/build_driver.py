#!/usr/bin/env python3
"""(re)build build/driver from coq/Extract.v and driver/*.ml using check's own step."""
import sys, importlib.machinery, importlib.util, os
V = os.path.dirname(os.path.dirname(os.path.abspath(__file__)))
loader = importlib.machinery.SourceFileLoader('check', os.path.join(V, 'check'))
spec = importlib.util.spec_from_loader('check', loader); m = importlib.util.module_from_spec(spec)
sys.argv = ['check']
try:
    loader.exec_module(m)
except SystemExit:
    pass
pr = []
ok = m.step_driver(pr)
print("driver:", "ok" if ok else "FAILED", str(pr)[:3000])
sys.exit(0 if ok else 1)
