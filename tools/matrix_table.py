#!/usr/bin/env python3
"""matrix_table.py <log> : turns the output of run_seeded.py runs (=== seed / Cxx: RAISED ...)
into the markdown table of DESIGN.md section 8."""
import sys, re
seeds, cur = {}, None
for l in open(sys.argv[1]):
    m = re.match(r"=== (\S+)", l)
    if m:
        cur = m.group(1); seeds[cur] = {}; continue
    m = re.match(r"\s+(C\d\d): (RAISED|quiet)( \(with failing input\)| no-failing-input-found)?", l)
    if m and cur:
        seeds[cur][m.group(1)] = "F" if "failing input)" in (m.group(3) or "") else ("n" if m.group(2) == "RAISED" else ".")
props = ["C%02d" % i for i in range(1, 17)]
print("| seed | " + " | ".join(p[1:] for p in props) + " |")
print("|---|" + "---|" * len(props))
for s, r in seeds.items():
    print("| %s | " % s + " | ".join(("**%s**" % r.get(p, " ") if s.startswith(p) else r.get(p, " ")) for p in props) + " |")
