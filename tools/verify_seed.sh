#!/bin/bash
# verify_seed.sh <worktree> <property> <name>: confirm a seeded change (builds, baseline tests pass,
# demo FAILs with it and PASSes without), then store it under /verif/seeded/<name>/
set -u
wt=$1; prop=$2; name=$3
export GOFLAGS=-mod=mod GOPROXY=off GOSUMDB=off GOTOOLCHAIN=local
cd "$wt" || exit 2
git checkout -q -- . 2>/dev/null
git apply patch.diff || { echo "patch does not apply"; exit 2; }
go build ./... || { echo "does not build"; exit 2; }
t=$(go test -vet=off -count=1 $(go list ./... | grep -v '/demo') 2>&1 | grep -v '^ok\|no test files')
[ -z "$t" ] && tests=ok || { echo "baseline tests FAIL with the change: $t"; tests=fail; }
go run ./demo > /tmp/demo_with.txt 2>&1; rc_with=$?
git apply -R patch.diff
go run ./demo > /tmp/demo_without.txt 2>&1; rc_without=$?
git checkout -q -- .
echo "tests=$tests demo_with_rc=$rc_with demo_without_rc=$rc_without"
if [ "$tests" = ok ] && [ $rc_with -ne 0 ] && [ $rc_without -eq 0 ]; then
  d=/verif/seeded/$name; mkdir -p $d
  cp patch.diff $d/patch.diff; cp demo/main.go $d/demo_main.go; cp meta.txt $d/meta.txt 2>/dev/null
  python3 - "$d" "$prop" <<'PY'
import json,sys,os
d,prop=sys.argv[1],sys.argv[2]
meta=open(os.path.join(d,'meta.txt')).read() if os.path.exists(os.path.join(d,'meta.txt')) else ''
json.dump(dict(property=prop, needs=meta, confirmed=dict(
  builds=True, baseline_tests_pass_with_change=True,
  demo_fails_with_change=open('/tmp/demo_with.txt').read()[-600:],
  demo_passes_without_change=open('/tmp/demo_without.txt').read()[-200:],
  commands=["git apply patch.diff","go build ./...","go test -vet=off -count=1 ./... (library packages)","go run ./demo  # FAIL","git apply -R patch.diff","go run ./demo  # PASS"])),
  open(os.path.join(d,'meta.json'),'w'), indent=1)
PY
  echo "stored in $d"
else
  echo "NOT CONFIRMED"; tail -5 /tmp/demo_with.txt; tail -5 /tmp/demo_without.txt
fi
