#!/bin/bash
# coverage.sh [n]: statement coverage of /repo's packages under the correspondence suites
# (gen + run of every suite with n cases, default 3000).  Lists the uncovered blocks: a
# change confined to them cannot be seen by the correspondence.  Scratch data in a temp dir.
set -e
n=${1:-3000}
export GOFLAGS=-mod=mod GOPROXY=off GOSUMDB=off GOTOOLCHAIN=local
V=$(cd "$(dirname "$0")/.." && pwd)
T=$(mktemp -d /var/tmp/xjscov.XXXXXX)
trap 'rm -rf "$T"' EXIT
cp /repo/go.sum "$V/harness/go.sum"
(cd "$V/harness" && go build -cover -coverpkg=verifharness,github.com/xjslang/xjs/... -o "$T/h" .)
mkdir "$T/cov"
for s in smap lex parse icept reg print writer; do
  GOCOVERDIR="$T/cov" "$T/h" gen $s 11 $n quick "$T/$s.cases"
  GOCOVERDIR="$T/cov" "$T/h" run $s "$T/$s.cases" "$T/$s.out"
done
go tool covdata percent -i="$T/cov" | grep xjslang
go tool covdata textfmt -i="$T/cov" -o "$T/cov.txt"
echo "--- uncovered blocks (file:start,end statements count)"
grep "xjslang/xjs" "$T/cov.txt" | awk '$NF==0 && $(NF-1)>0' | sed 's#github.com/xjslang/xjs/##' | sort
