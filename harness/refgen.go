package main

import (
	"fmt"
	"strings"

	"github.com/xjslang/xjs/ast"
)

// Reference unparser: random syntax trees ("shapes") over the subset's statement and
// expression forms, rendered to text the way ECMAScript reads it, in many layouts.
// It knows nothing about the parser: parentheses are placed by the ECMAScript
// grammar levels, line breaks only where ECMAScript permits one.

type shape struct {
	k    string   // node kind
	s    string   // operator / name / literal text
	kids []*shape // children (nil entries = absent optional child)
}

func sh(k, s string, kids ...*shape) *shape { return &shape{k: k, s: s, kids: kids} }

// ECMAScript levels (higher binds tighter)
const (
	lvAssign = 2
	lvOr     = 3
	lvAnd    = 4
	lvEq     = 5
	lvRel    = 6
	lvAdd    = 7
	lvMul    = 8
	lvUnary  = 9
	lvPost   = 10
	lvCall   = 11
	lvPrim   = 13
)

var opLevel = map[string]int{"||": lvOr, "&&": lvAnd, "==": lvEq, "!=": lvEq, "<": lvRel, ">": lvRel, "<=": lvRel, ">=": lvRel,
	"+": lvAdd, "-": lvAdd, "*": lvMul, "/": lvMul, "%": lvMul}

func (n *shape) level() int {
	switch n.k {
	case "asg":
		return lvAssign
	case "bin":
		return opLevel[n.s]
	case "un":
		return lvUnary
	case "post":
		return lvPost
	case "call", "mem", "idx":
		return lvCall
	}
	return lvPrim
}

// canonical form, explicit grouping nodes erased
func (n *shape) canon() string {
	if n == nil {
		return "_"
	}
	if n.k == "grp" {
		return n.kids[0].canon()
	}
	switch n.k {
	case "str":
		return "(str)"
	case "raw":
		return "(raw)"
	}
	parts := []string{n.k}
	if n.s != "" {
		parts = append(parts, hx(n.s))
	}
	for _, c := range n.kids {
		parts = append(parts, c.canon())
	}
	return "(" + strings.Join(parts, " ") + ")"
}

type shapeGen struct {
	r       *rng
	extra   map[string]int // registered infix operators: symbol -> level (C05)
	preOps  []string       // registered prefix operators
	postOps []string       // registered postfix operators
	// literals that contain a line break (backtick strings, strings with a line
	// continuation): a line break INSIDE a token is not a line break BEFORE it
	multiline bool
}

func (g *shapeGen) lvalue(d int) *shape {
	r := g.r
	switch r.intn(5) {
	case 0:
		if d > 0 {
			return sh("mem", "", g.callee(d-1), sh("id", pick(r, identPool)))
		}
	case 1:
		if d > 0 {
			return sh("idx", "", g.callee(d-1), g.expr(d-1))
		}
	}
	return sh("id", pick(r, identPool))
}

// something that may be called / indexed / dotted without parentheses
func (g *shapeGen) callee(d int) *shape {
	r := g.r
	if d <= 0 {
		return sh("id", pick(r, identPool))
	}
	switch r.intn(7) {
	case 0:
		return sh("mem", "", g.callee(d-1), sh("id", pick(r, identPool)))
	case 1:
		return sh("idx", "", g.callee(d-1), g.expr(d-1))
	case 2:
		return sh("call", "", append([]*shape{g.callee(d - 1)}, g.exprs(d-1, 3)...)...)
	case 3:
		return sh("grp", "", g.expr(d-1))
	case 4:
		return sh("str", pick(r, []string{`"s"`, `'t'`, `"a b"`}))
	}
	return sh("id", pick(r, identPool))
}

func (g *shapeGen) exprs(d, max int) []*shape {
	n := g.r.intn(max + 1)
	out := make([]*shape, n)
	for i := range out {
		out[i] = g.expr(d)
	}
	return out
}

func (g *shapeGen) literal() *shape {
	r := g.r
	switch r.intn(8) {
	case 0:
		return sh("num", pick(r, []string{"0", "1", "42", "3.14", "1e3", "0xFF", "0b101", "0o17", "2.5e-3", "100"}))
	case 1:
		if g.multiline && r.chance(1, 4) {
			return sh("str", pick(r, []string{"\"a\\\nb\"", "'c\\\nd'"}))
		}
		return sh("str", pick(r, []string{`"s"`, `'t'`, `"a b"`, `'q"q'`, `"it's"`, `"\n"`, `'\x41'`, `""`}))
	case 2:
		if g.multiline && r.chance(1, 2) {
			return sh("raw", pick(r, []string{"`a\nb`", "`\n`", "`x\n\ny`", "`  z\n`"}))
		}
		return sh("raw", pick(r, []string{"`r`", "`a b`", "`x\\`y`", "``"}))
	case 3:
		return sh("bool", pick(r, []string{"true", "false"}))
	case 4:
		return sh("null", "null")
	}
	return sh("id", pick(r, identPool))
}

func (g *shapeGen) expr(d int) *shape {
	r := g.r
	if d <= 0 {
		return g.literal()
	}
	switch r.intn(20) {
	case 0, 1, 2, 3, 4:
		ops := make([]string, 0, 16)
		for op := range opLevel {
			ops = append(ops, op)
		}
		sortStrings(ops)
		for op := range g.extra {
			ops = append(ops, op, op)
		}
		sortStrings(ops[len(opLevel):])
		op := pick(r, ops)
		return sh("bin", op, g.expr(d-1), g.expr(d-1))
	case 5, 6:
		ops := append([]string{"!", "-"}, g.preOps...)
		return sh("un", pick(r, ops), g.expr(d-1))
	case 7:
		return sh("un", pick(r, []string{"++", "--"}), g.lvalue(d-1))
	case 8:
		return sh("post", pick(r, []string{"++", "--"}), g.lvalue(d-1))
	case 9:
		if len(g.postOps) > 0 {
			return sh("post", pick(r, g.postOps), g.callee(d-1))
		}
		return sh("asg", pick(r, []string{"=", "+=", "-="}), g.lvalue(d-1), g.expr(d-1))
	case 10:
		return sh("asg", pick(r, []string{"=", "+=", "-="}), g.lvalue(d-1), g.expr(d-1))
	case 11, 12:
		return g.callee(d)
	case 13:
		return sh("arr", "", g.exprs(d-1, 3)...)
	case 14:
		n := r.intn(3)
		kids := []*shape{}
		for i := 0; i < n; i++ {
			key := sh("id", pick(r, identPool))
			if r.chance(1, 4) {
				key = sh("str", pick(r, []string{`"k"`, `'k2'`}))
			}
			kids = append(kids, key, g.expr(d-1))
		}
		return sh("obj", "", kids...)
	case 15:
		name := ""
		if r.chance(1, 3) {
			name = pick(r, identPool)
		}
		return sh("fn", name, sh("params", strings.Join(g.params(), ",")), g.block(d-1))
	case 16:
		return sh("grp", "", g.expr(d-1))
	}
	return g.literal()
}

func (g *shapeGen) params() []string {
	n := g.r.intn(4)
	out := make([]string, n)
	for i := range out {
		out[i] = pick(g.r, identPool)
	}
	return out
}

func (g *shapeGen) block(d int) *shape {
	n := g.r.intn(3)
	kids := make([]*shape, n)
	for i := range kids {
		kids[i] = g.stmt(d)
	}
	return sh("blk", "", kids...)
}

func (g *shapeGen) optExpr(d int) *shape {
	if g.r.chance(1, 3) {
		return nil
	}
	return g.expr(d)
}

func (g *shapeGen) stmt(d int) *shape {
	r := g.r
	if d <= 0 {
		return sh("es", "", g.expr(1))
	}
	switch r.intn(12) {
	case 0, 1:
		return sh("let", pick(r, identPool), g.optExpr(d))
	case 2:
		return sh("fd", pick(r, identPool), sh("params", strings.Join(g.params(), ",")), g.block(d-1))
	case 3:
		return sh("ret", "", g.optExpr(d))
	case 4:
		var els *shape
		if r.chance(1, 2) {
			els = g.body(d - 1)
		}
		thn := g.body(d - 1)
		if els != nil && (thn.k == "if" || thn.k == "while" || thn.k == "for") {
			// a brace-less statement ending in an if would capture the else
			thn = sh("blk", "", thn)
		}
		return sh("if", "", g.expr(d), thn, els)
	case 5:
		return sh("while", "", g.expr(d), g.body(d-1))
	case 6:
		var init *shape
		if r.chance(2, 3) {
			if r.chance(1, 2) {
				init = sh("lete", pick(r, identPool), g.optExpr(d-1))
			} else {
				init = g.expr(d - 1)
			}
		}
		return sh("for", "", init, g.optExpr(d-1), g.optExpr(d-1), g.body(d-1))
	case 7:
		return g.block(d - 1)
	}
	return sh("es", "", g.expr(d))
}

func (g *shapeGen) body(d int) *shape {
	if g.r.chance(2, 3) {
		return g.block(d)
	}
	s := g.stmt(d)
	if s.k == "let" || s.k == "fd" {
		// declarations cannot appear in a single-statement context in ECMAScript
		return sh("blk", "", s)
	}
	return s
}

func sortStrings(l []string) {
	for i := 1; i < len(l); i++ {
		for j := i; j > 0 && l[j] < l[j-1]; j-- {
			l[j], l[j-1] = l[j-1], l[j]
		}
	}
}

// ---------------- rendering ----------------

type rtok struct {
	text    string
	noLFbef bool // no line break may precede this token (restricted productions)
	stmtBeg bool // first token of a statement (context bookkeeping for C16)
	depthFn int  // number of enclosing function bodies
	depthBl int  // number of enclosing blocks (function bodies included)
	innerFn bool // innermost enclosing construct is a function body
}

type renderer struct {
	r         *rng
	layout    int  // 0 tight, 1 spaced, 2 wild
	semis     int  // 0 always ';', 1 line breaks where ASI allows, 2 mixed
	smartNL   bool // allow a line-break-only separator before a statement starting with ( or [ (smart-semicolon mode)
	redundant int  // 1/n chance of redundant parentheses (0 = never)
	toks      []rtok
	fn, bl    int
	inner     []bool
	asiPoints []int        // token indices in front of which a statement ended without ';'
	needNL    map[int]bool // token index -> the gap before it must contain a line break
	extra     map[string]int
}

func (w *renderer) emit(t string) { w.emitR(t, false) }
func (w *renderer) emitR(t string, noLF bool) {
	in := false
	if len(w.inner) > 0 {
		in = w.inner[len(w.inner)-1]
	}
	w.toks = append(w.toks, rtok{text: t, noLFbef: noLF, depthFn: w.fn, depthBl: w.bl, innerFn: in})
}

func (w *renderer) lvl(n *shape) int {
	if n.k == "bin" {
		if l, ok := w.extra[n.s]; ok {
			return l
		}
	}
	return n.level()
}

func (w *renderer) paren(n *shape, need bool) {
	if !need && w.redundant > 0 && w.r.intn(w.redundant) == 0 {
		need = true
	}
	if need {
		w.emit("(")
		w.expr(n)
		w.emit(")")
	} else {
		w.expr(n)
	}
}

func (w *renderer) list(items []*shape) {
	for i, it := range items {
		if i > 0 {
			w.emit(",")
		}
		w.paren(it, w.lvl(it) < lvAssign)
	}
}

func (w *renderer) expr(n *shape) {
	switch n.k {
	case "id", "num", "str", "raw", "bool", "null":
		w.emit(n.s)
	case "grp":
		w.emit("(")
		w.expr(n.kids[0])
		w.emit(")")
	case "bin":
		my := w.lvl(n)
		w.paren(n.kids[0], w.lvl(n.kids[0]) < my)
		w.emit(n.s)
		w.paren(n.kids[1], w.lvl(n.kids[1]) <= my)
	case "asg":
		w.expr(n.kids[0])
		w.emit(n.s)
		w.paren(n.kids[1], w.lvl(n.kids[1]) < lvAssign)
	case "un":
		w.emit(n.s)
		w.paren(n.kids[0], w.lvl(n.kids[0]) < lvUnary)
	case "post":
		w.calleeOf(n.kids[0])
		w.emitR(n.s, true)
	case "call":
		w.calleeOf(n.kids[0])
		w.emit("(")
		w.list(n.kids[1:])
		w.emit(")")
	case "mem":
		w.calleeOf(n.kids[0])
		w.emit(".")
		w.emit(n.kids[1].s)
	case "idx":
		w.calleeOf(n.kids[0])
		w.emit("[")
		w.expr(n.kids[1])
		w.emit("]")
	case "arr":
		w.emit("[")
		w.list(n.kids)
		w.emit("]")
	case "obj":
		w.emit("{")
		for i := 0; i+1 < len(n.kids); i += 2 {
			if i > 0 {
				w.emit(",")
			}
			w.emit(n.kids[i].s)
			w.emit(":")
			w.paren(n.kids[i+1], w.lvl(n.kids[i+1]) < lvAssign)
		}
		w.emit("}")
	case "fn":
		w.emit("function")
		if n.s != "" {
			w.emit(n.s)
		}
		w.params(n.kids[0])
		w.fnBody(n.kids[1])
	default:
		die("render: unknown expression kind %s", n.k)
	}
}

func (w *renderer) calleeOf(n *shape) {
	need := w.lvl(n) < lvCall || n.k == "num" || n.k == "fn" || n.k == "obj"
	w.paren(n, need)
}

func (w *renderer) params(p *shape) {
	w.emit("(")
	if p.s != "" {
		for i, name := range strings.Split(p.s, ",") {
			if i > 0 {
				w.emit(",")
			}
			w.emit(name)
		}
	}
	w.emit(")")
}

func (w *renderer) fnBody(b *shape) {
	w.emit("{")
	w.fn++
	w.bl++
	w.inner = append(w.inner, true)
	w.stmts(b.kids)
	w.inner = w.inner[:len(w.inner)-1]
	w.fn--
	w.bl--
	w.emit("}")
}

func (w *renderer) blockStmt(b *shape) {
	w.emit("{")
	w.bl++
	w.inner = append(w.inner, false)
	w.stmts(b.kids)
	w.inner = w.inner[:len(w.inner)-1]
	w.bl--
	w.emit("}")
}

// firstTok: does the rendered statement begin with a token that would continue the
// previous expression statement if only a line break separated them?
func hazardStart(t string) bool {
	if t == "" {
		return false
	}
	switch t[0] {
	case '(', '[', '+', '-', '/', '`', '*', '%', '<', '>', '=', '!', '&', '|', '.', ',':
		return !(strings.HasPrefix(t, "++") || strings.HasPrefix(t, "--") || (t[0] == '!' && !strings.HasPrefix(t, "!=")))
	}
	return false
}

func (w *renderer) stmts(ss []*shape) {
	for _, s := range ss {
		w.stmt(s)
	}
}

// terminate an expression-like statement: returns after emitting ';' or marking that
// the next token must be preceded by a line break (ASI)
func (w *renderer) terminate() {
	useNL := w.semis == 1 || (w.semis == 2 && w.r.chance(1, 2))
	if !useNL {
		w.emit(";")
		return
	}
	w.asiPoints = append(w.asiPoints, len(w.toks))
}

// finish decides every statement end that has no ';': nothing is needed before '}' or
// the end of input; otherwise a line break is, unless the next token could continue
// the expression (then a ';' is inserted).
func (w *renderer) finish() {
	w.needNL = map[int]bool{}
	for k := len(w.asiPoints) - 1; k >= 0; k-- {
		i := w.asiPoints[k]
		if i >= len(w.toks) || w.toks[i].text == "}" {
			continue
		}
		t := w.toks[i].text
		smartOK := w.smartNL && (t == "(" || t == "[")
		if hazardStart(t) && !smartOK {
			semi := rtok{text: ";", noLFbef: false, depthFn: w.toks[i].depthFn, depthBl: w.toks[i].depthBl, innerFn: w.toks[i].innerFn}
			w.toks = append(w.toks[:i], append([]rtok{semi}, w.toks[i:]...)...)
			shifted := map[int]bool{}
			for j := range w.needNL {
				if j >= i {
					shifted[j+1] = true
				} else {
					shifted[j] = true
				}
			}
			w.needNL = shifted
			continue
		}
		w.needNL[i] = true
	}
}

func (w *renderer) stmt(s *shape) {
	start := len(w.toks)
	defer func() {
		if start < len(w.toks) {
			w.toks[start].stmtBeg = true
		}
	}()
	switch s.k {
	case "let":
		w.emit("let")
		w.emit(s.s)
		if s.kids[0] != nil {
			w.emit("=")
			w.paren(s.kids[0], w.lvl(s.kids[0]) < lvAssign)
		}
		w.terminate()
	case "ret":
		w.emit("return")
		if s.kids[0] != nil {
			n0 := len(w.toks)
			w.expr(s.kids[0])
			w.toks[n0].noLFbef = true
		}
		w.terminate()
	case "es":
		e := s.kids[0]
		n0 := len(w.toks)
		w.expr(e)
		// an expression statement may not begin with '{' or 'function'
		if t := w.toks[n0].text; t == "{" || t == "function" {
			w.toks = w.toks[:n0]
			for len(w.asiPoints) > 0 && w.asiPoints[len(w.asiPoints)-1] > n0 {
				w.asiPoints = w.asiPoints[:len(w.asiPoints)-1]
			}
			w.emit("(")
			w.expr(e)
			w.emit(")")
		}
		w.terminate()
	case "fd":
		w.emit("function")
		w.emit(s.s)
		w.params(s.kids[0])
		w.fnBody(s.kids[1])
	case "blk":
		w.blockStmt(s)
	case "if":
		w.emit("if")
		w.emit("(")
		w.expr(s.kids[0])
		w.emit(")")
		w.bodyStmt(s.kids[1])
		if s.kids[2] != nil {
			w.emit("else")
			w.bodyStmt(s.kids[2])
		}
	case "while":
		w.emit("while")
		w.emit("(")
		w.expr(s.kids[0])
		w.emit(")")
		w.bodyStmt(s.kids[1])
	case "for":
		w.emit("for")
		w.emit("(")
		if in := s.kids[0]; in != nil {
			if in.k == "lete" {
				w.emit("let")
				w.emit(in.s)
				if in.kids[0] != nil {
					w.emit("=")
					w.paren(in.kids[0], w.lvl(in.kids[0]) < lvAssign)
				}
			} else {
				w.expr(in)
			}
		}
		w.emit(";")
		if s.kids[1] != nil {
			w.expr(s.kids[1])
		}
		w.emit(";")
		if s.kids[2] != nil {
			w.expr(s.kids[2])
		}
		w.emit(")")
		w.bodyStmt(s.kids[3])
	default:
		die("render: unknown statement kind %s", s.k)
	}
}

func (w *renderer) bodyStmt(s *shape) {
	if s.k == "blk" {
		w.blockStmt(s)
		return
	}
	w.stmt(s)
}

// text assembles the tokens with a layout
func (w *renderer) text() string {
	w.finish()
	var b strings.Builder
	prev := ""
	for i, t := range w.toks {
		sep := w.gap(prev, t.text, t.noLFbef, w.needNL[i])
		b.WriteString(sep)
		b.WriteString(t.text)
		prev = t.text
	}
	if w.layout == 2 && w.r.chance(1, 3) {
		b.WriteString(pick(w.r, []string{"\n", " ", "\n// end\n", " // tail"}))
	}
	return b.String()
}

func isWordTok(t string) bool {
	if t == "" {
		return false
	}
	c := t[0]
	return c == '_' || c == '$' || (c >= 'a' && c <= 'z') || (c >= 'A' && c <= 'Z') || (c >= '0' && c <= '9')
}

func (w *renderer) gap(prev, next string, noLF, needNL bool) string {
	if prev == "" {
		if w.layout == 2 && w.r.chance(1, 4) {
			return pick(w.r, []string{"\n", "// head\n", "  ", "\n\n"})
		}
		return ""
	}
	if needNL {
		return pick(w.r, []string{"\n", "\n\n", " \n", "\n  ", " // c\n", "\r\n"})
	}
	mustSpace := (isWordTok(prev) && isWordTok(next)) ||
		(prev != "" && next != "" && strings.ContainsRune("+-<>=!&|/*%", rune(prev[len(prev)-1])) && strings.ContainsRune("+-<>=!&|/*%", rune(next[0]))) ||
		(isWordTok(prev) && prev[0] >= '0' && prev[0] <= '9' && next == ".")
	switch w.layout {
	case 0:
		if mustSpace {
			return " "
		}
		return ""
	case 1:
		return " "
	}
	// wild
	opts := []string{" ", "  ", "\t", " ", " "}
	if !mustSpace {
		opts = append(opts, "", "")
	}
	if !noLF {
		opts = append(opts, "\n", "\n  ", " // c\n", "\n\n", "\r\n")
	}
	return pick(w.r, opts)
}

// renderProgram renders a list of statement shapes; the canonical expected form is
// progCanon(stmts).
func renderProgram(r *rng, stmts []*shape, layout, semis int, smartNL bool, redundant int, extra map[string]int) (string, []rtok) {
	w := &renderer{r: r, layout: layout, semis: semis, smartNL: smartNL, redundant: redundant, extra: extra}
	w.stmts(stmts)
	txt := w.text()
	return txt, w.toks
}

func progCanon(stmts []*shape) string {
	parts := make([]string, len(stmts))
	for i, s := range stmts {
		parts[i] = s.canon()
	}
	return "[" + strings.Join(parts, " ") + "]"
}

// ---------------- canonical form of a real tree (grouping nodes erased) ----------------

func canonExprs(l []ast.Expression) string {
	parts := make([]string, len(l))
	for i, e := range l {
		parts[i] = canonExpr(e)
	}
	return strings.Join(parts, " ")
}

func sp(s string) string {
	if s == "" {
		return ""
	}
	return " " + s
}

func canonExpr(e ast.Expression) string {
	if isNilNode(e) {
		return "_"
	}
	switch n := e.(type) {
	case *ast.Identifier:
		return "(id " + hx(n.Value) + ")"
	case *ast.IntegerLiteral:
		return "(num " + hx(n.Token.Literal) + ")"
	case *ast.FloatLiteral:
		return "(num " + hx(n.Token.Literal) + ")"
	case *ast.StringLiteral:
		return "(str)"
	case *ast.MultiStringLiteral:
		return "(raw)"
	case *ast.BooleanLiteral:
		return "(bool " + hx(n.Token.Literal) + ")"
	case *ast.NullLiteral:
		return "(null " + hx("null") + ")"
	case *ast.BinaryExpression:
		return "(bin " + hx(n.Operator) + " " + canonExpr(n.Left) + " " + canonExpr(n.Right) + ")"
	case *ast.UnaryExpression:
		return "(un " + hx(n.Operator) + " " + canonExpr(n.Right) + ")"
	case *ast.PostfixExpression:
		return "(post " + hx(n.Operator) + " " + canonExpr(n.Left) + ")"
	case *ast.GroupedExpression:
		return canonExpr(n.Expression)
	case *ast.CallExpression:
		return "(call " + canonExpr(n.Function) + sp(canonExprs(n.Arguments)) + ")"
	case *ast.MemberExpression:
		if n.Computed {
			return "(idx " + canonExpr(n.Object) + " " + canonExpr(n.Property) + ")"
		}
		return "(mem " + canonExpr(n.Object) + " " + canonExpr(n.Property) + ")"
	case *ast.AssignmentExpression:
		return "(asg " + hx("=") + " " + canonExpr(n.Left) + " " + canonExpr(n.Value) + ")"
	case *ast.CompoundAssignmentExpression:
		return "(asg " + hx(n.Operator+"=") + " " + canonExpr(n.Left) + " " + canonExpr(n.Value) + ")"
	case *ast.LetExpression:
		name := ""
		if n.Name != nil {
			name = n.Name.Value
		}
		return "(lete " + hx(name) + " " + canonExpr(n.Value) + ")"
	case *ast.FunctionExpression:
		name := ""
		if n.Name != nil {
			name = n.Name.Value
		}
		h := "(fn"
		if name != "" {
			h += " " + hx(name)
		}
		return h + " " + canonParams(n.Parameters) + " " + canonBlock(n.Body) + ")"
	case *ast.ArrayLiteral:
		return "(arr" + sp(canonExprs(n.Elements)) + ")"
	case *ast.ObjectLiteral:
		var parts []string
		for _, p := range n.Properties {
			parts = append(parts, canonExpr(p.Key), canonExpr(p.Value))
		}
		return "(obj" + sp(strings.Join(parts, " ")) + ")"
	}
	return fmt.Sprintf("(unknown %T)", e)
}

func canonParams(ps []*ast.Identifier) string {
	names := make([]string, len(ps))
	for i, p := range ps {
		names[i] = p.Value
	}
	if len(names) == 0 {
		return "(params)"
	}
	return "(params " + hx(strings.Join(names, ",")) + ")"
}

func canonBlock(b *ast.BlockStatement) string {
	if b == nil {
		return "_"
	}
	return "(blk" + sp(canonStmtList(b.Statements)) + ")"
}

func canonStmtList(l []ast.Statement) string {
	parts := make([]string, len(l))
	for i, s := range l {
		parts[i] = canonStmt(s)
	}
	return strings.Join(parts, " ")
}

func canonStmt(s ast.Statement) string {
	if isNilNode(s) {
		return "_"
	}
	switch n := s.(type) {
	case *ast.LetStatement:
		name := ""
		if n.Name != nil {
			name = n.Name.Value
		}
		return "(let " + hx(name) + " " + canonExpr(n.Value) + ")"
	case *ast.ReturnStatement:
		return "(ret " + canonExpr(n.ReturnValue) + ")"
	case *ast.ExpressionStatement:
		return "(es " + canonExpr(n.Expression) + ")"
	case *ast.FunctionDeclaration:
		name := ""
		if n.Name != nil {
			name = n.Name.Value
		}
		return "(fd " + hx(name) + " " + canonParams(n.Parameters) + " " + canonBlock(n.Body) + ")"
	case *ast.BlockStatement:
		return canonBlock(n)
	case *ast.IfStatement:
		return "(if " + canonExpr(n.Condition) + " " + canonStmt(n.ThenBranch) + " " + canonStmt(n.ElseBranch) + ")"
	case *ast.WhileStatement:
		return "(while " + canonExpr(n.Condition) + " " + canonStmt(n.Body) + ")"
	case *ast.ForStatement:
		return "(for " + canonExpr(n.Init) + " " + canonExpr(n.Condition) + " " + canonExpr(n.Update) + " " + canonStmt(n.Body) + ")"
	}
	return fmt.Sprintf("(unknown %T)", s)
}

func canonProgram(p *ast.Program) string {
	return "[" + canonStmtList(p.Statements) + "]"
}
