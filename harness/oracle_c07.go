package main

import (
	"fmt"
	"os"
	"strconv"
	"strings"
	"unicode/utf8"
)

// C07: literal values survive transpilation. Reference semantics: node evaluates the
// source program and every emitted program; the value of `v` must be identical (UTF-16
// code units for strings, String(v) plus the sign of zero for numbers).
//
// input lines (each one replays by itself):
//   L <tmpl> <hexliteral>          one literal in program template <tmpl>
//   X <q>                          every \xHH, quote style q (s = single, d = double)
//   U <q> <lo> <hi> <step>         every \uHHHH with lo <= HHHH < hi, stride step
//   P <q> <seed> <count>           sampled \u{H..H} up to 10FFFF (leading zeros, both cases)
//   A <q>                          every ASCII byte raw and backslash-escaped
//   G <q> <b>                      long literals: multi-byte escape units at every offset around byte b
//   C <seed> / B <seed> / N <seed> / R <seed>
//                                  batch of random concatenated strings / backtick strings /
//                                  numeric literals / raw non-ASCII strings
// A literal the reference engine rejects in the SOURCE is outside the property; so is a
// program xjs does not accept (C02 covers acceptance).

func init() {
	oracles["C07"] = &oracle{
		rule:  "string literals: every \\xHH and ASCII byte raw/escaped (both quote styles), \\uHHHH (thorough: all 65536; quick: stride + boundary ranges), sampled \\u{H..H} <= 10FFFF, long literals with multi-byte units at every offset around bytes 64/128/256/512, random concatenations of escape units / raw text / line continuations / non-ASCII, backtick strings (escaped backticks, backslashes, ${..}, LF/CRLF/CR, trailing blanks), numeric literal shapes with random digits; x 6 program templates (top level, function body, array, object value, object key, nested blocks) x {compact, pretty 2sp+semi, pretty tab no-semi}; non-trivial = at least one literal accepted by node and xjs; distinct by input line",
		gen:   genC07,
		check: checkC07,
	}
}

var c07Cfgs = []string{"c", "p:2020:1", "p:09:0"}

const c07Templates = 6

func c07Program(tmpl int, lit string) string {
	switch tmpl {
	case 1:
		return "function f() {\n  return " + lit + "\n}\nlet v = f()"
	case 2:
		return "let v = [" + lit + ", 1][0]"
	case 3:
		return "let o = {k: " + lit + "}\nlet v = o.k"
	case 4:
		return "let v = Object.keys({" + lit + ": 1})[0]"
	case 5:
		return "let v\nif (true) {\n  {\n    v = " + lit + "\n  }\n}"
	}
	return "let v = " + lit
}

type c07Item struct {
	tmpl int
	lit  string
	kind string // literal class for the distribution
}

func genC07(r *rng, n int, tier string) []string {
	var out []string
	for _, q := range []string{"s", "d"} {
		out = append(out, "X "+q, "A "+q)
	}
	if tier == "thorough" {
		for _, q := range []string{"s", "d"} {
			for lo := 0; lo < 0x10000; lo += 0x1000 {
				out = append(out, fmt.Sprintf("U %s %d %d 1", q, lo, lo+0x1000))
			}
		}
	} else {
		for _, q := range []string{"s", "d"} {
			out = append(out,
				fmt.Sprintf("U %s 0 256 1", q),
				fmt.Sprintf("U %s %d %d 1", q, 0x2020, 0x2030),
				fmt.Sprintf("U %s %d %d 1", q, 0xD7F0, 0xD810),
				fmt.Sprintf("U %s %d %d 1", q, 0xDBF0, 0xDC10),
				fmt.Sprintf("U %s %d %d 1", q, 0xDFF0, 0xE010),
				fmt.Sprintf("U %s %d %d 1", q, 0xFEF0, 0xFF00),
				fmt.Sprintf("U %s %d %d 1", q, 0xFFF0, 0x10000),
				fmt.Sprintf("U %s %d 65536 61", q, 256+r.intn(61)))
		}
	}
	for _, q := range []string{"s", "d"} {
		for _, b := range []int{64, 128, 256, 512} {
			out = append(out, fmt.Sprintf("G %s %d", q, b))
		}
	}
	np := 4
	if tier == "thorough" {
		np = 40
	}
	for i := 0; i < np; i++ {
		out = append(out, fmt.Sprintf("P %s %d 200", pick(r, []string{"s", "d"}), r.next()%(1<<40)))
	}
	for i := 0; i < n; i++ {
		k := pick(r, []string{"C", "C", "C", "B", "B", "N", "R"})
		out = append(out, fmt.Sprintf("%s %d", k, r.next()%(1<<40)))
	}
	return out
}

func quoteOf(q string) string {
	if q == "s" {
		return "'"
	}
	return `"`
}

func hexCase(r *rng, s string) string {
	b := []byte(s)
	for i, c := range b {
		if c >= 'a' && c <= 'f' && r.chance(1, 2) {
			b[i] = c - 32
		}
	}
	return string(b)
}

// ---- string units ----

var c07Simple = []string{`\n`, `\t`, `\r`, `\b`, `\f`, `\v`, `\0`, `\'`, `\"`, `\\`}
var c07Conts = []string{"\\\n", "\\\r\n", "\\\r", "\\\u2028", "\\\u2029"}
var c07NonASCII = []string{"\u00e9", "\u00df", "\u2713", "\U0001F600", "\U0001D4B3", "\u00a0", "\ufeff", "e\u0301", "\u6f22\u5b57", "\u2028", "\u2029", "\u0080", "\u07ff", "\u0800", "\uffff", "\U00010000", "\U0010ffff", "\u03a9", "\u200d", "\u00f1", "\ufffd", "\ud7ff", "\ue000"}
var c07Tricky = []string{`\\"`, `\\'`, `\x22`, `\x27`, `\u0022`, `\u0027`, `\u{22}`, `\u{27}`, `\x5c`, `\x5cn`, `\x5c\x22`, `\x0a`, `\x0d`, `\u000a`, `\u000d`, `\u2028`, `\u2029`,
	`\u{a}`, `\u{00000a}`, `\0\x31`, `\x001`, `\u{0}7`, `\0`, `\x00`, `\ud83d\ude00`, `\ud800`, `\udc00`, `\u{d800}`, `\u{10ffff}`, `\u{0010FFFF}`, `\u{1F600}`, `\x5C\x5c`, `\\\\`, `\\x41`, `\\u0041`, `\\n`, `//`, `/*`, `*/`, "${x}", "`", "\u2028", "\u2029"}

// does the unit contain the quote character outside an escape (it would end the literal)?
func c07EndsLiteral(u string, quote byte) bool {
	for i := 0; i < len(u); i++ {
		if u[i] == '\\' {
			i++
			continue
		}
		if u[i] == quote {
			return true
		}
	}
	return false
}

func c07StringUnit(r *rng, quote byte) string {
	switch r.intn(14) {
	case 0, 1, 2: // raw printable ASCII
		for {
			c := byte(32 + r.intn(95))
			if c != quote && c != '\\' {
				return string(c)
			}
		}
	case 3: // the other quote character
		if quote == '"' {
			return "'"
		}
		return `"`
	case 4:
		return pick(r, c07Simple)
	case 5:
		return hexCase(r, fmt.Sprintf(`\x%02x`, r.intn(256)))
	case 6:
		switch r.intn(4) {
		case 0:
			return hexCase(r, fmt.Sprintf(`\u%04x`, r.intn(0x10000)))
		case 1:
			return hexCase(r, fmt.Sprintf(`\u%04x`, r.intn(256)))
		case 2:
			return hexCase(r, fmt.Sprintf(`\u%04x`, 0xd800+r.intn(0x800)))
		}
		return hexCase(r, fmt.Sprintf(`\u%04x\u%04x`, 0xd800+r.intn(0x400), 0xdc00+r.intn(0x400)))
	case 7:
		return c07BraceEscape(r)
	case 8:
		return pick(r, c07Conts)
	case 9:
		return pick(r, c07NonASCII)
	case 10, 11:
		return pick(r, c07Tricky)
	case 12: // raw control character other than CR / LF
		return string(pick(r, []byte{0, 1, 8, 9, 11, 12, 27, 31, 127}))
	}
	return pick(r, []string{" ", "  ", "a", "0", "1", "7", "9", "x", "u", "n", "{", "}"})
}

func c07BraceEscape(r *rng) string {
	var v int
	switch r.intn(5) {
	case 0:
		v = r.intn(0x80)
	case 1:
		v = r.intn(0x10000)
	case 2:
		v = 0x10000 + r.intn(0x100000)
	case 3:
		v = pick(r, []int{0, 0xa, 0xd, 0x22, 0x27, 0x5c, 0x30, 0x39, 0x7f, 0x80, 0x7ff, 0x800, 0xd7ff, 0xd800, 0xdbff, 0xdc00, 0xdfff, 0xe000, 0xfffe, 0xffff, 0x10000, 0x10ffff, 0x2028, 0x2029})
	default:
		v = r.intn(0x110000)
	}
	h := fmt.Sprintf("%x", v)
	if r.chance(1, 2) {
		h = strings.Repeat("0", r.intn(8)) + h
	}
	return `\u{` + hexCase(r, h) + `}`
}

func c07RandString(r *rng) string {
	quote := pick(r, []byte{'"', '\''})
	n := r.intn(9)
	if r.chance(1, 8) {
		n = 10 + r.intn(30)
	}
	var b strings.Builder
	b.WriteByte(quote)
	for i := 0; i < n; i++ {
		u := c07StringUnit(r, quote)
		if c07EndsLiteral(u, quote) {
			continue
		}
		b.WriteString(u)
	}
	b.WriteByte(quote)
	return b.String()
}

var c07RawUnits = []string{"\\`", "\\\\", "\\\\\\`", `\n`, `\t`, `\x41`, `A`, `\u{41}`, `\u{1F600}`, `\0`, `\$`, `\${`, `\{`, "${1+1}", `${"x"}`, "$", "{", "}", "$$", "'", `"`, "//", "/*", " // c", "\\\n", "\\\r\n",
	"\n", "\n", "\r\n", "\r", " \n", "  \n", "\t\n", " \t\n", "\t \n", " \r\n", "\n  ", "\n\t", "\n\n", "   ", "\n \n", "é", "😀", "\u2028", "\u00a0\n"}

// units that make an untagged template a syntax error, or that xjs cannot lex as one literal: rare
var c07RawOutside = []string{"\\", "\\x4", "\\u12", "\\1", "${`in`}", "${", "\\u{110000}"}

// trailingBlanks: may a line of the literal end in a space (the known pretty-printing
// finding)? Most batches avoid it so that the finding does not drown everything else.
func c07RandRaw(r *rng, trailingBlanks bool) string {
	n := r.intn(8)
	if r.chance(1, 8) {
		n = 8 + r.intn(20)
	}
	var b strings.Builder
	b.WriteByte('`')
	for i := 0; i < n; i++ {
		if r.chance(1, 3) {
			for {
				c := byte(32 + r.intn(95))
				if c != '`' && c != '\\' && c != '$' {
					b.WriteByte(c)
					break
				}
			}
			continue
		}
		u := pick(r, c07RawUnits)
		if r.chance(1, 60) {
			u = pick(r, c07RawOutside)
		}
		if u == "\\" && i == n-1 {
			continue
		}
		b.WriteString(u)
	}
	b.WriteByte('`')
	lit := b.String()
	for !trailingBlanks && strings.Contains(lit, " \n") {
		lit = strings.ReplaceAll(lit, " \n", "\n")
	}
	return lit
}

func c07Digits(r *rng, n int, alphabet string, noLeadingZero bool) string {
	b := make([]byte, n)
	for i := range b {
		b[i] = alphabet[r.intn(len(alphabet))]
		if i == 0 && noLeadingZero && n > 1 && b[i] == '0' {
			b[i] = '1'
		}
	}
	return string(b)
}

func c07RandNumber(r *rng) string {
	dec := "0123456789"
	var s string
	switch r.intn(16) {
	case 0:
		s = c07Digits(r, 1+r.intn(16), dec, true)
	case 1:
		s = c07Digits(r, 1+r.intn(5), dec, true) + "." + c07Digits(r, 1+r.intn(12), dec, false)
	case 2:
		s = c07Digits(r, 1+r.intn(3), dec, true) + pick(r, []string{"e", "E"}) + pick(r, []string{"", "+", "-"}) + c07Digits(r, 1+r.intn(3), dec, false)
	case 3:
		s = c07Digits(r, 1+r.intn(3), dec, true) + "." + c07Digits(r, 1+r.intn(6), dec, false) + pick(r, []string{"e", "E"}) + pick(r, []string{"", "+", "-"}) + c07Digits(r, 1+r.intn(3), dec, false)
	case 4:
		s = pick(r, []string{"0x", "0X"}) + hexCase(r, c07Digits(r, 1+r.intn(15), "0123456789abcdef", false))
	case 5:
		s = pick(r, []string{"0b", "0B"}) + c07Digits(r, 1+r.intn(53), "01", false)
	case 6:
		s = pick(r, []string{"0o", "0O"}) + c07Digits(r, 1+r.intn(18), "01234567", false)
	case 7:
		s = pick(r, []string{"0", "0.0", "0e0", "0x0", "0b0", "0o0", "00", "017", "0777", "08", "09", "0.5", "1.0", "1.50", "10.010"})
	case 8:
		s = pick(r, []string{"1.7976931348623157e308", "1.7976931348623158e308", "1e308", "1e309", "5e-324", "4e-324", "2e-324", "1e-400", "9007199254740991", "9007199254740992", "9007199254740993",
			"9223372036854775807", "9223372036854775808", "18446744073709551615", "18446744073709551616", "0x7fffffffffffffff", "0xffffffffffffffff", "0x1fffffffffffff", "0x20000000000001",
			"123456789012345678901234567890", "0.1", "0.30000000000000004", "1e21", "1e-7", "123456789.123456789", "4.35", "0.000001", "1E0", "1e+0", "1e-0"})
	case 9:
		s = pick(r, []string{"1.", ".5", "1.e3", ".5e1", "1_000", "1n", "0x", "1e", "0b2", "0o8", "1e+", "0xg", "1.5.2", "0b", "0o", "1..5"})
	default:
		s = c07Digits(r, 1+r.intn(6), dec, true)
		if r.chance(1, 3) {
			s += "." + c07Digits(r, 1+r.intn(3), dec, false)
		}
	}
	if r.chance(1, 8) {
		s = "-" + s
	}
	return s
}

func c07RandNonASCII(r *rng) string {
	quote := pick(r, []string{`"`, "'", "`"})
	var b strings.Builder
	n := 1 + r.intn(8)
	for i := 0; i < n; i++ {
		switch r.intn(6) {
		case 0:
			b.WriteString(pick(r, c07NonASCII))
		case 1: // BMP
			for {
				c := rune(0x80 + r.intn(0xff80))
				if c < 0xd800 || c > 0xdfff {
					b.WriteRune(c)
					break
				}
			}
		case 2: // astral
			b.WriteRune(rune(0x10000 + r.intn(0x100000)))
		case 3:
			b.WriteRune(rune(0x80 + r.intn(0x780)))
		case 4:
			b.WriteByte(byte('a' + r.intn(26)))
		case 5:
			b.WriteString(pick(r, []string{" ", `\n`, `\\`, `\x41`, `é`, `\u{1F600}`}))
		}
	}
	return quote + b.String() + quote
}

// items of an input line
func c07Items(line string) []c07Item {
	f := strings.Fields(line)
	if len(f) == 0 {
		return nil
	}
	atoi := func(i int) int {
		if i >= len(f) {
			return 0
		}
		v, _ := strconv.ParseUint(f[i], 10, 64)
		return int(v)
	}
	var items []c07Item
	add := func(kind, lit string) {
		t := len(items) % c07Templates
		if t == 4 && strings.HasPrefix(lit, "`") {
			t = 0 // a backtick string is not a property name
		}
		items = append(items, c07Item{tmpl: t, lit: lit, kind: kind})
	}
	switch f[0] {
	case "L":
		if len(f) < 3 {
			return nil
		}
		lit := unhx(f[2])
		kind := "single"
		items = append(items, c07Item{tmpl: atoi(1), lit: lit, kind: kind})
	case "X":
		q := quoteOf(f[1])
		for v := 0; v < 256; v++ {
			h := fmt.Sprintf("%02x", v)
			add("xHH", q+`\x`+h+q)
			if up := strings.ToUpper(h); up != h {
				add("xHH", q+`\x`+up+q)
			}
			// followed by a digit / a hex digit / the other escape
			add("xHH+", q+`\x`+h+pick(newRng(uint64(v), "c07x"), []string{"0", "7", "9", "a", "F", `\x41`, `\0`, " "})+q)
		}
	case "U":
		q := quoteOf(f[1])
		lo, hi, step := atoi(2), atoi(3), atoi(4)
		if step <= 0 {
			step = 1
		}
		for v := lo; v < hi && v < 0x10000; v += step {
			h := fmt.Sprintf("%04x", v)
			if v%2 == 1 {
				h = strings.ToUpper(h)
			}
			add("uHHHH", q+`\u`+h+q)
		}
	case "P":
		q := quoteOf(f[1])
		r := newRng(uint64(atoi(2)), "c07p")
		for i := 0; i < atoi(3); i++ {
			add("u{}", q+c07BraceEscape(r)+q)
		}
		for _, v := range []int{0, 0x22, 0x27, 0x5c, 0xa, 0xd, 0x10ffff, 0x110000, 0xd800, 0xdfff, 0xffff, 0x10000} {
			add("u{}", q+fmt.Sprintf(`\u{%x}`, v)+q)
			add("u{}", q+fmt.Sprintf(`\u{%06X}`, v)+q)
			add("u{}", q+fmt.Sprintf(`\u{%08x}`, v)+q)
		}
	case "A":
		q := quoteOf(f[1])
		for c := 0; c < 128; c++ {
			add("ascii-raw", q+string(rune(c))+q)
			add("ascii-esc", q+`\`+string(rune(c))+q)
			add("ascii-esc+", q+"a"+`\`+string(rune(c))+"1"+q)
		}
	case "G": // multi-byte units at every offset around byte <b> of a long literal
		for _, l := range longLiterals(quoteOf(f[1]), []int{atoi(2)}) {
			add("long", l)
		}
	case "C":
		r := newRng(uint64(atoi(1)), "c07c")
		for i := 0; i < 24; i++ {
			add("concat", c07RandString(r))
		}
	case "B":
		r := newRng(uint64(atoi(1)), "c07b")
		blanks := r.chance(1, 8)
		for i := 0; i < 24; i++ {
			add("backtick", c07RandRaw(r, blanks))
		}
	case "N":
		r := newRng(uint64(atoi(1)), "c07n")
		for i := 0; i < 30; i++ {
			add("number", c07RandNumber(r))
		}
	case "R":
		r := newRng(uint64(atoi(1)), "c07r")
		for i := 0; i < 24; i++ {
			add("nonascii", c07RandNonASCII(r))
		}
	}
	return items
}

func c07SameVal(a, b nodeVal) bool {
	if a.T != b.T {
		return false
	}
	if a.T == "s" {
		if len(a.U) != len(b.U) {
			return false
		}
		for i := range a.U {
			if a.U[i] != b.U[i] {
				return false
			}
		}
		return true
	}
	return a.S == b.S
}

func c07ShowVal(v nodeVal) string {
	if v.T == "s" {
		parts := make([]string, len(v.U))
		for i, u := range v.U {
			parts[i] = fmt.Sprintf("%04X", u)
		}
		return "string[" + strings.Join(parts, " ") + "]"
	}
	return v.T + ":" + v.S
}

// class predicate, decided from the literal and the configuration alone
func c07Class(lit, cfg string) string {
	if strings.HasPrefix(cfg, "p") && strings.HasPrefix(lit, "`") && strings.Contains(lit, " \n") {
		return "backtick-trailing-blank-pretty"
	}
	return ""
}

func checkC07(line string, dist map[string]int) (detail, sig, class string) {
	items := c07Items(line)
	if len(items) == 0 {
		return "", "", ""
	}
	// source programs, and the ones xjs accepts compiled in each configuration
	type job struct {
		item int
		cfg  string // "" = source
		code string
	}
	var jobs []job
	var progs []string
	accepted := make([]bool, len(items))
	for i, it := range items {
		if !utf8.ValidString(it.lit) {
			dist["skip:not-utf8"]++
			continue
		}
		src := c07Program(it.tmpl, it.lit)
		b := buildParser(pcase{src: src}, false)
		prog, err := b.p.ParseProgram()
		if err != nil {
			dist["skip:xjs-rejects:"+it.kind]++
			continue
		}
		accepted[i] = true
		jobs = append(jobs, job{i, "", src})
		progs = append(progs, src)
		for _, cs := range c07Cfgs {
			code := parseCcfg(cs).compiler().Compile(prog).Code
			jobs = append(jobs, job{i, cs, code})
			progs = append(progs, code)
		}
	}
	if len(progs) == 0 {
		return "", "", ""
	}
	vals := nodeEvalV(progs)
	srcVal := map[int]nodeVal{}
	for j, jb := range jobs {
		if jb.cfg == "" {
			srcVal[jb.item] = vals[j]
		}
	}
	checked := 0
	type fail struct {
		item  int
		cfg   string
		code  string
		got   nodeVal
		class string
	}
	var fails []fail
	counted := map[int]bool{}
	for j, jb := range jobs {
		if jb.cfg == "" {
			continue
		}
		it := items[jb.item]
		want := srcVal[jb.item]
		if want.T == "err" {
			if !counted[jb.item] {
				counted[jb.item] = true
				dist["skip:node-rejects-source("+want.S+"):"+it.kind]++
				if os.Getenv("C07DEBUG") != "" {
					fmt.Fprintf(os.Stderr, "node rejects %s: %q\n", it.kind, it.lit)
				}
			}
			continue
		}
		if !counted[jb.item] {
			counted[jb.item] = true
			checked++
			dist["checked:"+it.kind+":"+want.T]++
		}
		if !c07SameVal(want, vals[j]) {
			fails = append(fails, fail{jb.item, jb.cfg, jb.code, vals[j], c07Class(it.lit, jb.cfg)})
		}
	}
	if checked > 0 {
		sig = fmt.Sprintf("%s:%d", strings.Fields(line)[0], checked)
	}
	if len(fails) == 0 {
		return "", sig, ""
	}
	// report the first unexplained failure if there is one, else the first known one
	pickF := fails[0]
	for _, f := range fails {
		if (f.class == "") != (pickF.class == "") {
			if f.class == "" {
				pickF = f
			}
			continue
		}
		if len(items[f.item].lit) < len(items[pickF.item].lit) {
			pickF = f
		}
	}
	it := items[pickF.item]
	if pickF.class == "" {
		dist["failed-lines:unexplained"]++
	} else {
		dist["failed-lines:"+pickF.class]++
	}
	failedLits := map[int]bool{}
	for _, f := range fails {
		if !failedLits[f.item] {
			failedLits[f.item] = true
			c := f.class
			if c == "" {
				c = "unexplained"
			}
			dist["failed-literals:"+c]++
		}
	}
	others := map[string]bool{}
	var otherList []string
	for _, f := range fails {
		if f.item != pickF.item && !others[items[f.item].lit] && len(otherList) < 8 {
			others[items[f.item].lit] = true
			otherList = append(otherList, fmt.Sprintf("%q", items[f.item].lit))
		}
	}
	detail = fmt.Sprintf("literal %q (replay: L %d %s) in %q: source value %s, %s output %q has value %s", it.lit, it.tmpl, hx(it.lit), c07Program(it.tmpl, it.lit), c07ShowVal(srcVal[pickF.item]), pickF.cfg, pickF.code, c07ShowVal(pickF.got))
	if len(otherList) > 0 {
		detail += fmt.Sprintf("; %d failing (literal, configuration) pairs on this line, other literals: %s", len(fails), strings.Join(otherList, " "))
	}
	return capKnown(pickF.class, detail), sig, pickF.class
}
