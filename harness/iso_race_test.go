package main

import "testing"

// TestIsoRace runs the C14 job sets with every concurrent phase on 16 goroutines, so that
//
//	CGO_ENABLED=1 go test -race -run TestIsoRace -count=1 .
//
// puts the library's builders, parsers, compilers and shared trees under the race detector.
func TestIsoRace(t *testing.T) {
	c14Goroutines = 16
	defer func() { c14Goroutines = 0 }()
	n := 120
	if testing.Short() {
		n = 30
	}
	lines := genSeeds(newRng(14, "iso-race"), n, "quick")
	dist := map[string]int{}
	fails := 0
	for _, l := range lines {
		if d, _, _ := checkC14(l, dist); d != "" {
			fails++
			if fails <= 5 {
				t.Errorf("C14 input %s: %s", l, d)
			}
		}
	}
	t.Logf("%d job sets, %d jobs, %d concurrent tasks on 16 goroutines, %d failing sets", len(lines), dist["jobs"], dist["concurrent-tasks"], fails)
}
