package main

import (
	"fmt"
	"strings"
)

// parse: sources x parser modes (and, in the icept/reg suites, interceptors and
// registered operators); observable = tree, EOF token, errors, error flag, final
// context, probe log.

func init() {
	suites["parse"] = &suite{gen: genParse, run: runParse}
	suites["icept"] = &suite{gen: genIcept, run: runParse}
	suites["reg"] = &suite{gen: genReg, run: runParse}
}

func modeCfg(r *rng) string {
	var items []string
	if r.chance(1, 3) {
		items = append(items, "T")
	}
	if r.chance(1, 3) {
		items = append(items, "S")
	}
	if len(items) == 0 {
		return "-"
	}
	return strings.Join(items, ";")
}

var parseCorpus = []string{
	"1.", "1.e3", "1.E-2", "1.e", "1.x", "1..x", "1 .x", "1.5.x", "0x1.x", "1.toString()", "x = 1.\ny", "1. + 2", "0.", "00.", "017.x", "1\n.x", "a = 1..toString()", "console.log(1.e3, 1 .e3)",
	"01.5", "00.5", "01e2", "0.5", "0e1", "00", "010", "x = 03.0 + 1", "1.5e3", "09.1",
	"a\n-= 1", "a\n+= 1", "a\n= 1", "a\n- 1", "a\n== b", "a\n&& b", "a\n* b", "a\n. b", "a\n, b", "a\n? b",
	"", ";", "a", "a;b", "a b", "let", "let 1; x", "let x = ", "return\nx", "a\n++b", "foo()\n++\nbar()", "a - -b", "x = a + ++b",
	"if (a) b; else c", "if (a) b\nelse c", "if a", "while (", "for (;;) {}", "for (let i = 0; i < 3; i++) { x }", "for (x;;", "function", "function f", "function f(", "function f(a,", "function f(a,b) {", "function f(1, 2) {}",
	"function f(a, 1) {}", "function (+) {}", "function f(a b) {}", "function f(,) {}", "x = function(1){}", "function f(a,) {}", "function f({}", "function f(a, {}", "function f(a, b) {}", "x = function(a, if) {}", "function f(\"a\") {}", "function f(a,\n",
	"{", "}", "{ a", "{{{", "(", ")", "(a", "[", "[1,", "[1,2", "{a:1}", "({a:1})", "({a:1,})", "({a})", "({})", "x = {}", "x = {a:1, 'b': 2}", "a.b.c", "a.1", "a.(b)", "a[1][2]", "a[", "f(1,2)(3)", "f(", "f(1,",
	"1 + 2 * 3", "a = b = c", "a += b -= c", "y = 1 + x\n= 5", "!a", "- - a", "a++ + b", "a\n(b)", "a\n[b]", "08", "1e400", "9223372036854775808", "0x", "1e", "1.5.2", "`a", "\"a", "'a", "a &", "a | b", "@", "#a",
	"function(){}", "(function(){})()", "x = function g(a) { return a }", "let f = function() { if (a) { return 1 } else { return 2 } }", "return", "return;", "return 1", "let a = b\n(c)()", "a\n.b", "a.\nb", "a\n+ b", "a +\nb",
	"// c\nlet x // d\n// e", "let x = 1 // t\n\n// end", "{ // c\n}", "if (a) { b } else if (c) { d } else { e }", "if (a) if (b) c; else d", "while (a) b", "while (a) { b; c }", "a;;b", "let a let b", "a b c", "1 2", "x = 1 y = 2",
	"true false null", "a == b != c", "a < b <= c > d >= e", "a && b || c", "a % b / c", "a.b = c", "a[b] = c", "a.b++", "++a.b", "--a", "a--", "(a)", "((a))", "(a)(b)", "[a](b)", "`x`.y", "'s'.length", "1 .x", "1.x",
}

func genParseSources(r *rng, n int) []string {
	var out []string
	out = append(out, parseCorpus...)
	for i := 0; i < n; i++ {
		switch r.intn(6) {
		case 0, 1, 2:
			out = append(out, genProgram(r))
		case 3: // token-level mutation of a valid program: delete / duplicate / swap a lexeme
			out = append(out, mutateTokens(r, genProgram(r)))
		case 4: // fragment soup
			var b strings.Builder
			m := r.intn(10)
			for j := 0; j < m; j++ {
				b.WriteString(pick(r, lexFragments))
				b.WriteByte(' ')
			}
			out = append(out, b.String())
		case 5: // byte-level mutation
			p := []byte(genProgram(r))
			for k := 0; k < 1+r.intn(3) && len(p) > 0; k++ {
				i := r.intn(len(p))
				switch r.intn(3) {
				case 0:
					p[i] = byte(r.intn(128))
				case 1:
					p = append(p[:i], p[i+1:]...)
				case 2:
					p = p[:i]
				}
			}
			out = append(out, string(p))
		}
	}
	return out
}

// mutateTokens re-lexes src with the real lexer and deletes, duplicates or swaps a token
func mutateTokens(r *rng, src string) string {
	toks := lexAll(src, len(src)+1)
	type span struct{ a, b int }
	starts := lineStarts(src)
	var sp []span
	for _, t := range toks {
		if t.Type == 1 {
			break
		}
		a, ok1 := offsetOf(src, starts, t.Start)
		e, ok2 := offsetOf(src, starts, t.End)
		if !ok1 || !ok2 {
			return src
		}
		b := e
		if b <= a || (b < len(src) && !isWordType(t.Type)) {
			b = e + 1
		}
		if isWordType(t.Type) {
			b = e
		}
		if b > len(src) {
			b = len(src)
		}
		sp = append(sp, span{a, b})
	}
	if len(sp) == 0 {
		return src
	}
	i := r.intn(len(sp))
	switch r.intn(3) {
	case 0:
		return src[:sp[i].a] + src[sp[i].b:]
	case 1:
		return src[:sp[i].b] + " " + src[sp[i].a:sp[i].b] + src[sp[i].b:]
	default:
		j := r.intn(len(sp))
		if i > j {
			i, j = j, i
		}
		if i == j || sp[i].b > sp[j].a {
			return src[:sp[i].a] + src[sp[i].b:]
		}
		return src[:sp[i].a] + src[sp[j].a:sp[j].b] + src[sp[i].b:sp[j].a] + src[sp[i].a:sp[i].b] + src[sp[j].b:]
	}
}

func genParse(r *rng, n int, tier string) []string {
	var out []string
	srcs := genParseSources(r, n)
	for i, s := range srcs {
		if i < len(parseCorpus) {
			for _, m := range []string{"-", "T", "S", "T;S"} {
				out = append(out, m+" "+hx(s))
			}
			continue
		}
		out = append(out, modeCfg(r)+" "+hx(s))
	}
	return out
}

func icList(r *rng, kinds []string, withIds bool) string {
	n := r.intn(5)
	var l []string
	for i := 0; i < n; i++ {
		k := pick(r, kinds)
		if k == "q" {
			k = fmt.Sprintf("q%d", r.intn(9))
		}
		if k == "s" { // selective probes have their own id range
			k = fmt.Sprintf("s%d", 20+r.intn(9))
		}
		l = append(l, k)
	}
	return strings.Join(l, ",")
}

func genIcept(r *rng, n int, tier string) []string {
	var out []string
	srcs := genParseSources(r, n)
	for i, s := range srcs {
		var items []string
		if m := modeCfg(r); m != "-" {
			items = append(items, m)
		}
		if i%6 == 5 {
			// nesting-rich programs with selective probes only: consecutive context
			// queries under different stacks of equal depth
			_, txt, _, _ := c16Case(r.next() % (1 << 40))
			if r.chance(1, 2) {
				items = append(items, fmt.Sprintf("si:b,s%d", 20+r.intn(7)))
			} else {
				items = append(items, fmt.Sprintf("si:s%d", 20+r.intn(7)))
			}
			if r.chance(1, 2) {
				items = append(items, fmt.Sprintf("ei:s%d", 20+r.intn(7)))
			}
			out = append(out, strings.Join(items, ";")+" "+hx(txt))
			continue
		}
		if si := icList(r, []string{"p", "q", "q", "s", "b"}, true); si != "" {
			items = append(items, "si:"+si)
		}
		if ei := icList(r, []string{"p", "q", "q", "r", "s", "b"}, true); ei != "" {
			items = append(items, "ei:"+ei)
		}
		if ti := icList(r, []string{"p", "q"}, true); ti != "" {
			items = append(items, "ti:"+ti)
		}
		cfg := "-"
		if len(items) > 0 {
			cfg = strings.Join(items, ";")
		}
		out = append(out, cfg+" "+hx(s))
	}
	return out
}

// reg: registered operators on dynamic tokens produced by retagging interceptors.
// '^' '#' '@' '~' '?' lex as ILLEGAL and are retagged to 1000..1004.
var regSyms = []string{"^", "#", "@", "~", "?"}

func genRegExpr(r *rng, d int, infix, prefix, postfix []string) string {
	if d <= 0 || r.chance(1, 4) {
		return pick(r, []string{"a", "b", "c", "1", "x.y", "f(a)", "(a)", "-a", "!b", "a++"})
	}
	switch r.intn(8) {
	case 0, 1, 2:
		ops := append(append([]string{}, binOps...), infix...)
		ops = append(ops, infix...)
		return genRegExpr(r, d-1, infix, prefix, postfix) + " " + pick(r, ops) + " " + genRegExpr(r, d-1, infix, prefix, postfix)
	case 3:
		if len(prefix) > 0 {
			return pick(r, prefix) + " " + genRegExpr(r, d-1, infix, prefix, postfix)
		}
	case 4:
		if len(postfix) > 0 {
			return genRegExpr(r, d-1, infix, prefix, postfix) + " " + pick(r, postfix)
		}
	case 5:
		return "(" + genRegExpr(r, d-1, infix, prefix, postfix) + ")"
	case 6:
		return "x = " + genRegExpr(r, d-1, infix, prefix, postfix)
	}
	return genRegExpr(r, d-1, infix, prefix, postfix) + " + " + genRegExpr(r, d-1, infix, prefix, postfix)
}

func genReg(r *rng, n int, tier string) []string {
	var out []string
	for i := 0; i < n; i++ {
		var ti, inf, pre, post []string
		var infS, preS, postS []string
		useNames := r.chance(1, 2)
		ids := map[string]int{}
		var names []string
		for k, sym := range regSyms {
			ty := 1000 + k
			if !r.chance(2, 3) {
				continue
			}
			if useNames {
				// ids through lexer.Builder.RegisterTokenType: first-seen order from 1000, a
				// repeated name answers the id it already has
				name := fmt.Sprintf("op%d", k)
				if r.chance(1, 6) && len(names) > 0 {
					name = pick(r, names)
				}
				if id, ok := ids[name]; ok {
					ty = id
				} else {
					ty = 1000 + len(names)
					ids[name] = ty
					names = append(names, name)
				}
				ti = append(ti, fmt.Sprintf("n%s=%s", hx(sym), hx(name)))
			} else {
				ti = append(ti, fmt.Sprintf("g%s=%d", hx(sym), ty))
			}
			switch r.intn(4) {
			case 0, 1:
				inf = append(inf, fmt.Sprintf("%d=%d", ty, 1+r.intn(13)))
				infS = append(infS, sym)
			case 2:
				pre = append(pre, fmt.Sprint(ty))
				preS = append(preS, sym)
			case 3:
				post = append(post, fmt.Sprint(ty))
				postS = append(postS, sym)
			}
		}
		// sometimes also: duplicates, built-in tokens in a role they already have / do not have
		if r.chance(1, 5) {
			inf = append(inf, fmt.Sprintf("%d=%d", 10+r.intn(12), 1+r.intn(13))) // built-in infix: refused
		}
		if r.chance(1, 6) && len(inf) > 0 {
			inf = append(inf, inf[0]) // repeat: refused
		}
		if r.chance(1, 8) {
			post = append(post, fmt.Sprint(pick(r, []int{10, 11, 12, 23}))) // built-in token as postfix: accepted
		}
		if r.chance(1, 6) && len(post) > 0 {
			post = append(post, post[0]) // repeat: refused
		}
		if r.chance(1, 6) && len(pre) > 0 {
			pre = append(pre, pre[r.intn(len(pre))]) // repeat: refused
		}
		if r.chance(1, 8) {
			pre = append(pre, fmt.Sprint(pick(r, []int{12, 13, 10}))) // * / + as prefix: accepted
		}
		var items []string
		if m := modeCfg(r); m != "-" {
			items = append(items, m)
		}
		if len(ti) > 0 {
			items = append(items, "ti:"+strings.Join(ti, ","))
		}
		if len(pre) > 0 {
			items = append(items, "pre:"+strings.Join(pre, ","))
		}
		if len(inf) > 0 {
			items = append(items, "inf:"+strings.Join(inf, ","))
		}
		if len(post) > 0 {
			items = append(items, "post:"+strings.Join(post, ","))
		}
		cfg := "-"
		if len(items) > 0 {
			cfg = strings.Join(items, ";")
		}
		src := genRegExpr(r, 3, infS, preS, postS)
		if r.chance(1, 3) {
			src += "; " + genRegExpr(r, 2, infS, preS, postS)
		}
		out = append(out, cfg+" "+hx(src))
	}
	return out
}

func runParse(line string) string {
	c := parsePcase(line)
	// half of the cases configure the builder through Builder.Install
	out, _, _, b := parseObservable(c, len(line)%2 == 1)
	regs := make([]string, len(b.regErrs))
	for i, e := range b.regErrs {
		regs[i] = b01(e)
	}
	return out + " reg=[" + strings.Join(regs, ",") + "]"
}
