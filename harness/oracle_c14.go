package main

import (
	"fmt"
	"runtime"
	"strconv"
	"strings"
	"sync"
	"time"

	"github.com/xjslang/xjs/ast"
	"github.com/xjslang/xjs/compiler"
	"github.com/xjslang/xjs/debug"
	"github.com/xjslang/xjs/lexer"
	"github.com/xjslang/xjs/parser"
	"github.com/xjslang/xjs/token"
)

// C14: instances are isolated, results deterministic (also under concurrency).
//
// input line:  "<seed>"                                  a job set regenerated from the seed
//              "J <ccfg> <pcfg> <hexsrc> | <ccfg> ..."   an explicit job set
// A job = (builder configuration as in pcase.go, source, compiler configuration as in
// suite_print.go). Every order / schedule choice derives from the line.
//
// Phases (all compared with the results each job gives alone, on fresh objects):
//   solo      each job alone, twice (before and after everything else)
//   builder   one lexer.Builder+parser.Builder per chosen configuration: Build for every source first,
//             an extra operator registered on the builder between two Builds, parse in a shuffled order
//   lexer     several lexers from one lexer.Builder, NextToken calls interleaved
//   nested    a complete other job run inside a statement interceptor of a parser in mid-parse
//   compiler  one *compiler.Compiler per configuration compiling every tree, shuffled, twice
//   tree      one *ast.Program compiled under all configurations in two shuffled orders; tree unchanged;
//             WithSourceMap does not change Code
//   debug     debug.ToString(node) = compact compilation (program, statements, statement expressions)
//   conc      the same jobs on up to 16 goroutines: fresh builders + shared compilers, compile-only tasks
//             on shared trees, concurrent Build on a shared (probe-free) builder
//   globals   token.Keywords unchanged

var c14Goroutines = 0 // 0 = derived from the line (2..16); the race test forces 16

func init() {
	oracles["C14"] = &oracle{
		rule:  "job sets of 3..8 jobs = (modes / statement, expression, token interceptors incl. probes and retagging / registered prefix, infix, postfix operators on dynamic and built-in tokens, direct or via Install) x (generated, mutated and operator-extended sources) x (compact / pretty x indent x semicolons x source map); each job alone (twice) vs sequential histories in shuffled orders on shared builders (with an operator registered between two Builds), interleaved lexers of one lexer builder, a job nested in another parser's interceptor, shared compilers, shared trees under all configurations, debug.ToString vs compact compilation, then one random schedule per input on 2..16 goroutines (fresh builders + shared compilers, shared trees, concurrent Build on shared builders); token.Keywords and dynamic token numbering checked; non-trivial = at least 2 distinct builder configurations; distinct by job set",
		gen:   genSeeds,
		check: checkC14,
	}
}

type c14Job struct {
	cc   string // compiler configuration
	pcfg string // builder configuration (text)
	pc   pcase
	via  bool // configuration applied through Builder.Install
}

func (j c14Job) String() string { return j.cc + " " + j.pcfg + " " + hx(j.pc.src) }

// brief: readable form for failure details (the input line replays the case)
func (j c14Job) brief() string {
	src := j.pc.src
	if len(src) > 60 {
		src = src[:60] + "..."
	}
	return fmt.Sprintf("[%s %s %q]", j.cc, j.pcfg, src)
}

func c14MakeJob(cc, pcfg, src string, via bool) c14Job {
	return c14Job{cc: cc, pcfg: pcfg, pc: parsePcase(pcfg + " " + hx(src)), via: via}
}

func c14IceptCfg(r *rng) string {
	var items []string
	if m := modeCfg(r); m != "-" {
		items = append(items, m)
	}
	if si := icList(r, []string{"p", "q", "q"}, true); si != "" {
		items = append(items, "si:"+si)
	}
	if ei := icList(r, []string{"p", "q", "q", "r"}, true); ei != "" {
		items = append(items, "ei:"+ei)
	}
	if ti := icList(r, []string{"p", "q"}, true); ti != "" {
		items = append(items, "ti:"+ti)
	}
	if len(items) == 0 {
		return "-"
	}
	return strings.Join(items, ";")
}

func c14GenJobs(r *rng) []c14Job {
	k := 3 + r.intn(6)
	jobs := make([]c14Job, 0, k)
	for i := 0; i < k; i++ {
		cc := randCcfg(r)
		via := r.chance(1, 2)
		switch r.intn(6) {
		case 0, 1:
			src := genProgram(r)
			if r.chance(1, 4) {
				src = mutateTokens(r, src)
			}
			jobs = append(jobs, c14MakeJob(cc, modeCfg(r), src, via))
		case 2, 3:
			src := genProgram(r)
			if r.chance(1, 5) {
				src = mutateTokens(r, src)
			}
			jobs = append(jobs, c14MakeJob(cc, c14IceptCfg(r), src, via))
		case 4:
			f := strings.SplitN(genReg(r, 1, "quick")[0], " ", 2)
			jobs = append(jobs, c14MakeJob(cc, f[0], unhx(f[1]), via))
		case 5: // registered operators + interceptors on a generated program
			f := strings.SplitN(genReg(r, 1, "quick")[0], " ", 2)
			cfg := f[0]
			if si := icList(r, []string{"p", "q"}, true); si != "" {
				if cfg == "-" {
					cfg = "si:" + si
				} else {
					cfg += ";si:" + si
				}
			}
			src := unhx(f[1])
			if r.chance(1, 2) {
				src += "\n" + genProgram(r)
			}
			jobs = append(jobs, c14MakeJob(cc, cfg, src, via))
		}
	}
	return jobs
}

func c14Input(line string) ([]c14Job, *rng) {
	if strings.HasPrefix(line, "J ") {
		var jobs []c14Job
		for _, part := range strings.Split(line[2:], "|") {
			f := strings.Fields(part)
			if len(f) != 3 {
				die("bad C14 job %q", part)
			}
			jobs = append(jobs, c14MakeJob(f[0], f[1], unhx(f[2]), len(jobs)%2 == 1))
		}
		h := uint64(1469598103934665603)
		for i := 0; i < len(line); i++ {
			h = (h ^ uint64(line[i])) * 1099511628211
		}
		return jobs, newRng(h, "c14sched")
	}
	seed, err := strconv.ParseUint(strings.TrimSpace(line), 10, 64)
	if err != nil {
		die("bad C14 case %q", line)
	}
	return c14GenJobs(newRng(seed, "c14jobs")), newRng(seed, "c14sched")
}

// ---- observables ----

// c14ParseObs runs an already built parser; same rendering as parseObservable.
func c14ParseObs(p *parser.Parser, events *[]event) (obs string, prog *ast.Program) {
	defer func() {
		if r := recover(); r != nil {
			obs, prog = fmt.Sprintf("PANIC(%v)", r), nil
		}
	}()
	prog, err := p.ParseProgram()
	errs := p.Errors()
	es := make([]string, len(errs))
	for i, e := range errs {
		es[i] = errKind(e) + "/" + hx(e.Message)
	}
	var pevs []event
	if events != nil {
		for _, e := range *events {
			if e.kind != 2 {
				pevs = append(pevs, e)
			}
		}
	}
	obs = fmt.Sprintf("tree=%s eof=%s errs=[%s] err=%s ctx=%d/%s log=%s",
		sxStmts(prog.Statements), tk(prog.EOF), strings.Join(es, " "), b01(err != nil),
		int(p.CurrentContext()), b01(p.IsInFunction()), fmtEvents(pevs))
	return obs, prog
}

func c14TreeSx(p *ast.Program) string {
	if p == nil {
		return "noprog"
	}
	return sxStmts(p.Statements) + " " + tk(p.EOF)
}

type c14Out struct {
	code, smap string
	panicked   bool
}

func (o c14Out) String() string {
	if o.panicked {
		return "PANIC"
	}
	return "code=" + hx(o.code) + " " + o.smap
}

func c14CompileWith(k *compiler.Compiler, prog *ast.Program) (out c14Out) {
	defer func() {
		if r := recover(); r != nil {
			out = c14Out{panicked: true}
		}
	}()
	if prog == nil {
		return c14Out{panicked: true}
	}
	res := k.Compile(prog)
	m := "nomap"
	if res.SourceMap != nil {
		names := make([]string, len(res.SourceMap.Names))
		for i, n := range res.SourceMap.Names {
			names[i] = hx(n)
		}
		m = fmt.Sprintf("v=%d names=[%s] mappings=%s", res.SourceMap.Version, strings.Join(names, ","), res.SourceMap.Mappings)
	}
	return c14Out{code: res.Code, smap: m}
}

func c14ToString(n ast.Node) (s string) {
	defer func() {
		if r := recover(); r != nil {
			s = "PANIC"
		}
	}()
	return "code=" + debug.ToString(n)
}

func c14CodeOnly(o c14Out) string {
	if o.panicked {
		return "PANIC"
	}
	return "code=" + o.code
}

func short(s string) string {
	if len(s) > 900 {
		return s[:900] + "..."
	}
	return s
}

func diffAt(a, b string) string {
	n := 0
	for n < len(a) && n < len(b) && a[n] == b[n] {
		n++
	}
	lo := n - 60
	if lo < 0 {
		lo = 0
	}
	cut := func(s string) string {
		hi := n + 120
		if hi > len(s) {
			hi = len(s)
		}
		return s[lo:hi]
	}
	return fmt.Sprintf("first difference at byte %d: alone ...%s... here ...%s...", n, cut(a), cut(b))
}

func shuffled(r *rng, n int) []int {
	p := make([]int, n)
	for i := range p {
		p[i] = i
	}
	for i := n - 1; i > 0; i-- {
		j := r.intn(i + 1)
		p[i], p[j] = p[j], p[i]
	}
	return p
}

// ---- extra operators registered on a shared builder between two Builds ----

type c14Extra struct {
	kind  string // pre | inf | post
	ty    int
	prec  int
	probe string // source using the operator
}

var c14Extras = []c14Extra{
	{"inf", int(token.NOT), 7, "x ! y + 1; z"},
	{"pre", int(token.MODULO), 0, "% x * 2; z"},
	{"post", int(token.COLON), 0, "x : ; y"},
	{"inf", int(token.COLON), 3, "a : b || c"},
	{"pre", int(token.DIVIDE), 0, "/ a . b"},
}

func (x c14Extra) addTo(c pcase) pcase {
	switch x.kind {
	case "pre":
		c.pre = append(append([]int{}, c.pre...), x.ty)
	case "inf":
		c.inf = append(append([][2]int{}, c.inf...), [2]int{x.ty, x.prec})
	case "post":
		c.post = append(append([]int{}, c.post...), x.ty)
	}
	return c
}

// registerOn performs the registration on a live builder exactly as buildParser does.
func (x c14Extra) registerOn(pb *parser.Builder) {
	switch x.kind {
	case "pre":
		_ = pb.RegisterPrefixOperator(token.Type(x.ty), func(tok token.Token, right func() ast.Expression) ast.Expression {
			return &ast.UnaryExpression{Token: tok, Operator: tok.Literal, Right: right()}
		})
	case "inf":
		_ = pb.RegisterInfixOperator(token.Type(x.ty), x.prec, func(tok token.Token, left ast.Expression, right func() ast.Expression) ast.Expression {
			return &ast.BinaryExpression{Token: tok, Left: left, Operator: tok.Literal, Right: right()}
		})
	case "post":
		_ = pb.RegisterPostfixOperator(token.Type(x.ty), func(tok token.Token, left ast.Expression) ast.Expression {
			return &ast.PostfixExpression{Token: tok, Left: left, Operator: tok.Literal}
		})
	}
}

// probeFree replaces the logging probes of a configuration by pass-through interceptors
// (a builder shared between goroutines must not carry the harness's own shared log).
func probeFree(c pcase) pcase {
	fix := func(l []string) []string {
		out := make([]string, len(l))
		for i, x := range l {
			if strings.HasPrefix(x, "q") {
				x = "p"
			}
			out[i] = x
		}
		return out
	}
	c.si, c.ei, c.ti = fix(c.si), fix(c.ei), fix(c.ti)
	return c
}

func withSrc(c pcase, src string) pcase { c.src = src; return c }

func soloParse(c pcase, via bool) (string, *ast.Program) {
	b := buildParser(c, via)
	return c14ParseObs(b.p, b.events)
}

// c14LexAlone: the token stream of src on a fresh lexer builder carrying the token interceptors of c
func c14LexAlone(c pcase, src string) string {
	b := buildParser(withSrc(c, ""), false)
	l := b.lb.Build(src)
	var out []string
	for i := 0; i < len(src)+3; i++ {
		t := l.NextToken()
		out = append(out, fmtToken(t))
		if t.Type == token.EOF {
			break
		}
	}
	return strings.Join(out, " ")
}

func keywordsSnapshot() string {
	keys := make([]string, 0, len(token.Keywords))
	for k, v := range token.Keywords {
		keys = append(keys, fmt.Sprintf("%s=%d", k, int(v)))
	}
	sortStrings(keys)
	return strings.Join(keys, ",")
}

// ---- the check ----

type c14Solo struct {
	parse string
	prog  *ast.Program
	tree  string
	out   c14Out
}

func c14RunSolo(jobs []c14Job) []c14Solo {
	res := make([]c14Solo, len(jobs))
	for i, j := range jobs {
		obs, prog := soloParse(j.pc, j.via)
		res[i] = c14Solo{parse: obs, prog: prog, tree: c14TreeSx(prog), out: c14CompileWith(parseCcfg(j.cc).compiler(), prog)}
	}
	return res
}

// checkC14 runs the phases under a watchdog: state leaking between instances can also
// show as non-termination (e.g. a binding power known to a parser that has no handler for it).
func checkC14(line string, dist map[string]int) (detail, sig, class string) {
	type result struct {
		detail, sig, class string
		dist               map[string]int
	}
	done := make(chan result, 1)
	go func() {
		local := map[string]int{}
		defer func() {
			if r := recover(); r != nil {
				done <- result{detail: fmt.Sprintf("panic outside the guarded calls: %v", r), sig: "panic", dist: local}
			}
		}()
		d, s, c := checkC14Body(line, local)
		done <- result{d, s, c, local}
	}()
	select {
	case res := <-done:
		for k, v := range res.dist {
			dist[k] += v
		}
		return res.detail, res.sig, res.class
	case <-time.After(c14Timeout):
		return fmt.Sprintf("timeout: the job set did not finish within %v", c14Timeout), "timeout", ""
	}
}

const c14Timeout = 15 * time.Second

func checkC14Body(line string, dist map[string]int) (detail, sig, class string) {
	jobs, r := c14Input(line)
	kw0 := keywordsSnapshot()
	fail := func(phase, format string, a ...any) (string, string, string) {
		return phase + ": " + short(fmt.Sprintf(format, a...)), phase, ""
	}
	cfgSet := map[string]bool{}
	for _, j := range jobs {
		cfgSet[j.pcfg] = true
		dist["jobs"]++
		for _, it := range strings.Split(j.pcfg, ";") {
			key := it
			if i := strings.IndexByte(it, ':'); i >= 0 {
				key = it[:i]
			}
			if key == "-" {
				key = "default"
			}
			dist["pcfg-"+key]++
		}
		if j.via {
			dist["via-install"]++
		}
		dist["ccfg-"+strings.SplitN(j.cc, ":", 2)[0]]++
	}

	// ---- solo
	solo := c14RunSolo(jobs)
	for i := range solo {
		if strings.Contains(solo[i].parse, "err=1") {
			dist["job-with-parse-errors"]++
		}
		if solo[i].out.panicked {
			dist["job-compile-panics"]++
		}
	}

	// ---- shared builder: Build all, register an extra operator between two Builds, parse shuffled
	nb := 1 + r.intn(2)
	for s := 0; s < nb; s++ {
		jb := jobs[r.intn(len(jobs))]
		x := pick(r, c14Extras)
		via := r.chance(1, 2)
		var srcs []string
		for _, j := range jobs {
			srcs = append(srcs, j.pc.src)
		}
		srcs = append(srcs, x.probe, x.probe, "a + b * c")
		ord := shuffled(r, len(srcs))
		list := make([]string, len(srcs))
		for i, o := range ord {
			list[i] = srcs[o]
		}
		cut := 1 + r.intn(len(list)-1) // parsers [0,cut) are built before the registration
		b := buildParser(withSrc(jb.pc, list[0]), via)
		ps := []*parser.Parser{b.p}
		for i := 1; i < len(list); i++ {
			if i == cut {
				x.registerOn(b.pb)
			}
			ps = append(ps, b.pb.Build(list[i]))
		}
		for _, i := range shuffled(r, len(list)) {
			*b.events = nil
			got, _ := c14ParseObs(ps[i], b.events)
			cfg := jb.pc
			when := "before"
			if i >= cut {
				cfg = x.addTo(cfg)
				when = "after"
			}
			want, _ := soloParse(withSrc(cfg, list[i]), false)
			if got != want {
				return fail("builder", "configuration %q, source %q, parser built %s registering %s operator on token %d on the shared builder (parser %d of %d): %s",
					jb.pcfg, list[i], when, x.kind, x.ty, i, len(list), diffAt(want, got))
			}
		}
		dist["shared-builder-sessions"]++
	}

	// ---- lexers from one lexer.Builder, NextToken calls interleaved
	{
		jb := jobs[r.intn(len(jobs))]
		b := buildParser(withSrc(jb.pc, ""), false)
		n := 2 + r.intn(3)
		var srcs []string
		var lexers []*lexer.Lexer
		for i := 0; i < n; i++ {
			src := jobs[r.intn(len(jobs))].pc.src
			srcs = append(srcs, src)
			lexers = append(lexers, b.lb.Build(src))
		}
		got := make([][]string, n)
		doneL := make([]bool, n)
		for left := n; left > 0; {
			i := r.intn(n)
			if doneL[i] {
				continue
			}
			t := lexers[i].NextToken()
			got[i] = append(got[i], fmtToken(t))
			if t.Type == token.EOF || len(got[i]) > len(srcs[i])+2 {
				doneL[i] = true
				left--
			}
		}
		for i := 0; i < n; i++ {
			want := c14LexAlone(jb.pc, srcs[i])
			if g := strings.Join(got[i], " "); g != want {
				return fail("lexer", "lexer %d of %d built from one lexer builder (token interceptors of %s), calls interleaved, source %q: %s", i, n, jb.brief(), srcs[i], diffAt(want, g))
			}
		}
		dist["interleaved-lexers"] += n
	}

	// ---- nested use: a statement interceptor of one parser runs another job from start to end
	{
		ia, ib := r.intn(len(jobs)), r.intn(len(jobs))
		ja, jbb := jobs[ia], jobs[ib]
		b := buildParser(ja.pc, ja.via)
		calls, mismatch := 0, ""
		b.pb.UseStatementInterceptor(func(p *parser.Parser, next func() ast.Statement) ast.Statement {
			calls++
			if calls <= 2 {
				obs, prog := soloParse(jbb.pc, jbb.via)
				out := c14CompileWith(parseCcfg(jbb.cc).compiler(), prog)
				if obs != solo[ib].parse && mismatch == "" {
					mismatch = diffAt(solo[ib].parse, obs)
				}
				if out != solo[ib].out && mismatch == "" {
					mismatch = diffAt(solo[ib].out.String(), out.String())
				}
			}
			return next()
		})
		*b.events = nil
		got, prog := c14ParseObs(b.pb.Build(ja.pc.src), b.events)
		if mismatch != "" {
			return fail("nested", "job %d (%s) run inside a statement interceptor of job %d (%s): %s", ib, jbb.brief(), ia, ja.brief(), mismatch)
		}
		if got != solo[ia].parse {
			return fail("nested", "job %d (%s) with job %d run inside its (additional, pass-through) statement interceptor: %s", ia, ja.brief(), ib, diffAt(solo[ia].parse, got))
		}
		if out := c14CompileWith(parseCcfg(ja.cc).compiler(), prog); out != solo[ia].out {
			return fail("nested", "job %d (%s) with job %d run inside its statement interceptor, compiled: %s", ia, ja.brief(), ib, diffAt(solo[ia].out.String(), out.String()))
		}
		if calls > 0 {
			dist["nested-runs"]++
		}
	}

	// ---- dynamic token types are per lexer builder
	{
		l1, l2 := lexer.NewBuilder(), lexer.NewBuilder()
		a1 := l1.RegisterTokenType("alpha")
		b2 := l2.RegisterTokenType("beta")
		b1 := l1.RegisterTokenType("beta")
		a2 := l2.RegisterTokenType("alpha")
		if a1 != token.DYNAMIC_TOKENS_START || b2 != token.DYNAMIC_TOKENS_START || b1 != a1+1 || a2 != b2+1 ||
			l1.RegisterTokenType("alpha") != a1 || l2.RegisterTokenType("alpha") != a2 {
			return fail("globals", "dynamic token types of two fresh lexer builders: alpha=%d beta=%d / beta=%d alpha=%d", a1, b1, b2, a2)
		}
	}

	// ---- shared compiler
	ccs := map[string]bool{"c": true, "cm": true}
	for _, j := range jobs {
		ccs[j.cc] = true
	}
	var ccList []string
	for c := range ccs {
		ccList = append(ccList, c)
	}
	sortStrings(ccList)
	want := make([]map[string]c14Out, len(jobs)) // [tree][cfg] on fresh compilers
	for i := range jobs {
		want[i] = map[string]c14Out{}
		for _, c := range ccList {
			want[i][c] = c14CompileWith(parseCcfg(c).compiler(), solo[i].prog)
		}
		if o := want[i][jobs[i].cc]; o != solo[i].out {
			return fail("compiler", "job %d (%s) compiled again on a fresh compiler: %s", i, jobs[i].brief(), diffAt(solo[i].out.String(), o.String()))
		}
	}
	shared := map[string]*compiler.Compiler{}
	for _, c := range ccList {
		shared[c] = parseCcfg(c).compiler()
	}
	for round := 0; round < 2; round++ {
		for _, t := range shuffled(r, len(jobs)*len(ccList)) {
			i, c := t/len(ccList), ccList[t%len(ccList)]
			if got := c14CompileWith(shared[c], solo[i].prog); got != want[i][c] {
				return fail("compiler", "shared compiler %s, tree of job %d (%s), round %d: %s", c, i, jobs[i].brief(), round, diffAt(want[i][c].String(), got.String()))
			}
		}
	}
	dist["shared-compilers"] += len(ccList)

	// ---- shared tree under all configurations, two orders; reference = a second, fresh tree
	grid := allCcfgs()
	for _, c := range ccList {
		grid = append(grid, c)
	}
	for n, i := range shuffled(r, len(jobs)) {
		if n >= 2 {
			break
		}
		_, ref := soloParse(jobs[i].pc, jobs[i].via)
		if c14TreeSx(ref) != solo[i].tree {
			return fail("solo", "job %d (%s) parsed again gives another tree: %s", i, jobs[i].brief(), diffAt(solo[i].tree, c14TreeSx(ref)))
		}
		exp := map[string]c14Out{}
		for _, c := range grid {
			exp[c] = c14CompileWith(parseCcfg(c).compiler(), ref)
		}
		for round := 0; round < 2; round++ {
			for _, g := range shuffled(r, len(grid)) {
				c := grid[g]
				if got := c14CompileWith(parseCcfg(c).compiler(), solo[i].prog); got != exp[c] {
					return fail("tree", "tree of job %d (%s) compiled repeatedly, configuration %s, round %d: %s", i, jobs[i].brief(), c, round, diffAt(exp[c].String(), got.String()))
				}
			}
		}
		if now := c14TreeSx(solo[i].prog); now != solo[i].tree {
			return fail("tree", "tree of job %d (%s) modified by compiling: %s", i, jobs[i].brief(), diffAt(solo[i].tree, now))
		}
		// a source map never changes the code
		for _, c := range grid {
			cfg := parseCcfg(c)
			if cfg.withMap {
				continue
			}
			cm := strings.Replace(c, "p", "pm", 1)
			if c == "c" {
				cm = "cm"
			}
			o, ok := exp[cm]
			if !ok {
				o = c14CompileWith(parseCcfg(cm).compiler(), ref)
			}
			if c14CodeOnly(o) != c14CodeOnly(exp[c]) {
				return fail("withmap", "job %d (%s): configuration %s and %s give different code: %s", i, jobs[i].brief(), c, cm, diffAt(c14CodeOnly(exp[c]), c14CodeOnly(o)))
			}
		}
		dist["shared-trees"]++
	}

	// ---- debug.ToString = compact compilation
	for i := range jobs {
		p := solo[i].prog
		if p == nil {
			continue
		}
		compact := c14CodeOnly(c14CompileWith(compiler.New(), p))
		if got := c14ToString(p); got != compact {
			return fail("debug", "job %d (%s): ToString(program) differs from compact compilation: %s", i, jobs[i].brief(), diffAt(compact, got))
		}
		for k, st := range p.Statements {
			one := c14CodeOnly(c14CompileWith(compiler.New(), &ast.Program{Statements: []ast.Statement{st}}))
			if got := c14ToString(st); got != one {
				return fail("debug", "job %d (%s): ToString(statement %d) differs from compiling it alone: %s", i, jobs[i].brief(), k, diffAt(one, got))
			}
			dist["debug-statements"]++
			if es, ok := st.(*ast.ExpressionStatement); ok && es != nil && !isNilNode(es.Expression) && one != "PANIC" {
				if got := c14ToString(es.Expression); got != "PANIC" && got+";" != one {
					return fail("debug", "job %d (%s): ToString(expression of statement %d) + ';' differs from compiling the statement: %s", i, jobs[i].brief(), k, diffAt(one, got+";"))
				}
				dist["debug-expressions"]++
			}
		}
	}

	// ---- concurrent
	if d := c14Concurrent(jobs, solo, want, ccList, r, dist); d != "" {
		return fail("conc", "%s", d)
	}

	// ---- solo again, globals
	again := c14RunSolo(jobs)
	for i := range jobs {
		if again[i].parse != solo[i].parse {
			return fail("solo", "job %d (%s) alone, after the other phases: %s", i, jobs[i].brief(), diffAt(solo[i].parse, again[i].parse))
		}
		if again[i].out != solo[i].out {
			return fail("solo", "job %d (%s) alone, after the other phases: %s", i, jobs[i].brief(), diffAt(solo[i].out.String(), again[i].out.String()))
		}
	}
	if kw := keywordsSnapshot(); kw != kw0 {
		return fail("globals", "token.Keywords changed: %s -> %s", kw0, kw)
	}
	if len(cfgSet) >= 2 {
		var ls []string
		for _, j := range jobs {
			ls = append(ls, j.String())
		}
		sig = strings.Join(ls, " | ")
	}
	return "", sig, ""
}

type c14Task struct {
	kind  byte // 'P' full job on fresh builders, 'C' compile-only on a shared tree, 'B' Build+parse on the shared builder, 'L' Build+lex on the shared lexer builder
	job   int
	cc    string
	want  string
	got   string
	label string
}

// c14Concurrent runs one schedule: tasks dealt to G goroutines, started together.
func c14Concurrent(jobs []c14Job, solo []c14Solo, want []map[string]c14Out, ccList []string, r *rng, dist map[string]int) string {
	G := c14Goroutines
	if G == 0 {
		G = pick(r, []int{2, 3, 4, 8, 16, 16, 16})
	}
	dist[fmt.Sprintf("goroutines=%d", G)]++
	shared := map[string]*compiler.Compiler{}
	for _, c := range ccList {
		shared[c] = parseCcfg(c).compiler() // configured before being shared
	}
	// the shared probe-free builder and what each source gives alone under its configuration
	jb := jobs[r.intn(len(jobs))]
	pf := probeFree(jb.pc)
	sb := buildParser(withSrc(pf, ""), r.chance(1, 2))
	soloPF := make([]string, len(jobs))
	for i, j := range jobs {
		soloPF[i], _ = soloParse(withSrc(pf, j.pc.src), false)
	}
	var tasks []*c14Task
	nT := G * (1 + r.intn(3))
	for t := 0; t < nT; t++ {
		i := r.intn(len(jobs))
		switch r.intn(5) {
		case 4:
			tasks = append(tasks, &c14Task{kind: 'L', job: i, want: c14LexAlone(pf, jobs[i].pc.src),
				label: fmt.Sprintf("source of job %d lexed by a lexer built concurrently from a shared lexer builder (token interceptors of %s, probes replaced)", i, jb.brief())})
		case 0, 1:
			tasks = append(tasks, &c14Task{kind: 'P', job: i, cc: jobs[i].cc, want: solo[i].parse + " || " + solo[i].out.String(),
				label: fmt.Sprintf("job %d (%s) on fresh builders with the shared compiler", i, jobs[i].brief())})
		case 2:
			c := pick(r, ccList)
			tasks = append(tasks, &c14Task{kind: 'C', job: i, cc: c, want: want[i][c].String(),
				label: fmt.Sprintf("shared tree of job %d (%s) compiled by the shared compiler %s", i, jobs[i].brief(), c)})
		case 3:
			tasks = append(tasks, &c14Task{kind: 'B', job: i, want: soloPF[i],
				label: fmt.Sprintf("source of job %d parsed by a parser built concurrently from a shared builder (configuration of %s, probes replaced)", i, jb.brief())})
		}
	}
	dist["concurrent-tasks"] += len(tasks)
	lists := make([][]*c14Task, G)
	yields := make([][]bool, G)
	for t, task := range tasks {
		g := t % G
		lists[g] = append(lists[g], task)
		yields[g] = append(yields[g], r.chance(1, 3))
	}
	var wg sync.WaitGroup
	start := make(chan struct{})
	for g := 0; g < G; g++ {
		wg.Add(1)
		go func(g int) {
			defer wg.Done()
			<-start
			for n, t := range lists[g] {
				if yields[g][n] {
					runtime.Gosched()
				}
				switch t.kind {
				case 'P':
					j := jobs[t.job]
					obs, prog := soloParse(j.pc, j.via)
					t.got = obs + " || " + c14CompileWith(shared[t.cc], prog).String()
				case 'C':
					t.got = c14CompileWith(shared[t.cc], solo[t.job].prog).String()
				case 'B':
					t.got, _ = c14ParseObs(sb.pb.Build(jobs[t.job].pc.src), nil)
				case 'L':
					src := jobs[t.job].pc.src
					l := sb.lb.Build(src)
					var out []string
					for i := 0; i < len(src)+3; i++ {
						tok := l.NextToken()
						out = append(out, fmtToken(tok))
						if tok.Type == token.EOF {
							break
						}
					}
					t.got = strings.Join(out, " ")
				}
			}
		}(g)
	}
	close(start)
	wg.Wait()
	for _, t := range tasks {
		if t.got != t.want {
			return fmt.Sprintf("%d goroutines, %s: %s", G, t.label, diffAt(t.want, t.got))
		}
	}
	for i := range jobs {
		if now := c14TreeSx(solo[i].prog); now != solo[i].tree {
			return fmt.Sprintf("tree of job %d (%s) modified by concurrent compilation: %s", i, jobs[i].brief(), diffAt(solo[i].tree, now))
		}
	}
	return ""
}
