package main

import (
	"fmt"
	"strings"

	"github.com/xjslang/xjs/ast"
	"github.com/xjslang/xjs/compiler"
	"github.com/xjslang/xjs/debug"
)

// print: trees (parser-produced or assembled through the public node fields) x
// compiler configurations; observable = Code, Mappings, Names, panic flag.
// case line: "<ccfg> S <pcfg> <hexsrc>"  or  "<ccfg> T <program-sexpr>"
// ccfg: c | cm | p:<indent-hex>:<semi> | pm:<indent-hex>:<semi>

func init() {
	suites["print"] = &suite{gen: genPrint, run: runPrint}
}

type ccfg struct {
	pretty, withMap, semi bool
	indent                string
}

func parseCcfg(s string) ccfg {
	p := strings.Split(s, ":")
	var c ccfg
	switch p[0] {
	case "c":
	case "cm":
		c.withMap = true
	case "p":
		c.pretty = true
	case "pm":
		c.pretty = true
		c.withMap = true
	default:
		die("bad ccfg %q", s)
	}
	if c.pretty {
		c.indent = unhx(p[1])
		c.semi = p[2] == "1"
	}
	return c
}

func (c ccfg) compiler() *compiler.Compiler {
	k := compiler.New()
	if c.pretty {
		// through the public option constructors where one produces this indent string
		indentOpt := func(o *compiler.PrettyPrintOptions) { o.IndentString = c.indent }
		if c.indent == "\t" {
			indentOpt = compiler.WithTabs()
		} else if c.indent != "" && strings.Trim(c.indent, " ") == "" {
			indentOpt = compiler.WithSpaces(len(c.indent))
		}
		k = k.WithPrettyPrint(indentOpt, compiler.WithSemi(c.semi))
	}
	if c.withMap {
		k = k.WithSourceMap()
	}
	return k
}

var indentChoices = []string{"  ", "\t", "", " ", "    ", "        ", "   ", " \t"}

func randCcfg(r *rng) string {
	m := ""
	if r.chance(1, 2) {
		m = "m"
	}
	if r.chance(1, 3) {
		return "c" + m
	}
	return fmt.Sprintf("p%s:%s:%d", m, hx(pick(r, indentChoices)), r.intn(2))
}

func allCcfgs() []string {
	out := []string{"c", "cm"}
	for _, ind := range []string{"  ", "\t", ""} {
		for _, s := range []int{0, 1} {
			out = append(out, fmt.Sprintf("p:%s:%d", hx(ind), s), fmt.Sprintf("pm:%s:%d", hx(ind), s))
		}
	}
	return out
}

// ---- random assembled trees, as S-expressions ----

type treeGen struct {
	r       *rng
	line    int
	col     int
	nilRate int // 1/nilRate children are nil (0 = never)
}

func (g *treeGen) tok(ty int, lit string) string {
	g.col += 1 + g.r.intn(5)
	if g.r.chance(1, 12) {
		g.line++
		g.col = g.r.intn(4)
	}
	cs := ""
	nl := 0
	if g.r.chance(1, 10) {
		nl = 1
		var l []string
		for i := 0; i < 1+g.r.intn(3); i++ {
			l = append(l, hx(pick(g.r, []string{"", " c", " note", "", " x // y", "\"q"})))
		}
		cs = strings.Join(l, ",")
	}
	return fmt.Sprintf("{%d:%s:%d:%d:%d:%d:%d:%s}", ty, hx(lit), g.line, g.col, g.line, g.col+len(lit), nl, cs)
}

type opInfo struct {
	lit string
	ty  int
}

var binOpInfos = []opInfo{{"+", 10}, {"-", 11}, {"*", 12}, {"/", 13}, {"%", 14}, {"==", 15}, {"!=", 16}, {"<", 17}, {">", 18}, {"<=", 19}, {">=", 20}, {"&&", 21}, {"||", 22}}
var unOpInfos = []opInfo{{"!", 23}, {"-", 11}, {"++", 24}, {"--", 25}}
var postOpInfos = []opInfo{{"++", 24}, {"--", 25}}

func (g *treeGen) identSx() string {
	n := pick(g.r, identPool)
	return "(id " + g.tok(2, n) + " " + hx(n) + ")"
}

func (g *treeGen) leaf() string {
	switch g.r.intn(8) {
	case 0:
		n := fmt.Sprint(g.r.intn(100))
		return "(int " + g.tok(3, n) + ")"
	case 1:
		return "(float " + g.tok(4, "1.5") + ")"
	case 2:
		v := pick(g.r, []string{"s", "a b", `q\"q`, ""})
		return "(str " + g.tok(5, v) + " " + hx(v) + ")"
	case 3:
		v := pick(g.r, []string{"r", "x`y", "l1\nl2  \nl3", ""})
		return "(raw " + g.tok(6, v) + " " + hx(v) + ")"
	case 4:
		if g.r.chance(1, 2) {
			return "(bool " + g.tok(43, "true") + " 1)"
		}
		return "(bool " + g.tok(44, "false") + " 0)"
	case 5:
		return "(null " + g.tok(45, "null") + ")"
	}
	return g.identSx()
}

func (g *treeGen) child(d int) string {
	if g.nilRate > 0 && g.r.intn(g.nilRate) == 0 {
		return "nil"
	}
	return g.expr(d)
}

func (g *treeGen) expr(d int) string {
	if d <= 0 {
		return g.leaf()
	}
	r := g.r
	switch r.intn(16) {
	case 0, 1, 2:
		op := pick(r, binOpInfos)
		t := g.tok(op.ty, op.lit)
		return "(bin " + t + " " + g.child(d-1) + " " + hx(op.lit) + " " + g.child(d-1) + ")"
	case 3, 4:
		op := pick(r, unOpInfos)
		return "(un " + g.tok(op.ty, op.lit) + " " + hx(op.lit) + " " + g.child(d-1) + ")"
	case 5:
		op := pick(r, postOpInfos)
		return "(post " + g.tok(op.ty, op.lit) + " " + g.child(d-1) + " " + hx(op.lit) + ")"
	case 6:
		return "(grp " + g.tok(30, "(") + " " + g.child(d-1) + " " + g.tok(31, ")") + ")"
	case 7:
		n := r.intn(3)
		args := make([]string, n)
		for i := range args {
			args[i] = g.child(d - 1)
		}
		return "(call " + g.tok(30, "(") + " " + g.child(d-1) + " [" + strings.Join(args, " ") + "])"
	case 8:
		if r.chance(1, 2) {
			return "(mem " + g.tok(29, ".") + " " + g.child(d-1) + " " + g.identSx() + " 0)"
		}
		return "(mem " + g.tok(34, "[") + " " + g.child(d-1) + " " + g.child(d-1) + " 1)"
	case 9:
		return "(asg " + g.tok(7, "=") + " " + g.child(d-1) + " " + g.child(d-1) + ")"
	case 10:
		op := pick(r, []opInfo{{"+", 8}, {"-", 9}})
		return "(casg " + g.tok(op.ty, op.lit+"=") + " " + g.child(d-1) + " " + hx(op.lit) + " " + g.child(d-1) + ")"
	case 11:
		n := r.intn(3)
		els := make([]string, n)
		for i := range els {
			els[i] = g.child(d - 1)
		}
		return "(arr " + g.tok(34, "[") + " [" + strings.Join(els, " ") + "] " + g.tok(35, "]") + ")"
	case 12:
		n := r.intn(3)
		ps := make([]string, n)
		for i := range ps {
			ps[i] = "(" + g.child(0) + " " + g.child(d-1) + ")"
		}
		return "(obj " + g.tok(32, "{") + " [" + strings.Join(ps, " ") + "] " + g.tok(33, "}") + ")"
	case 13:
		name := "none"
		if r.chance(1, 2) {
			name = g.identSx()
		}
		return "(fn " + g.tok(36, "function") + " " + name + " " + g.identsSx() + " " + g.blockSx(d-1) + ")"
	case 14:
		return "(lete " + g.tok(37, "let") + " " + g.identSx() + " " + g.child(d-1) + ")"
	}
	return g.leaf()
}

func (g *treeGen) identsSx() string {
	n := g.r.intn(3)
	ps := make([]string, n)
	for i := range ps {
		ps[i] = g.identSx()
	}
	return "[" + strings.Join(ps, " ") + "]"
}

func (g *treeGen) blockSx(d int) string {
	n := g.r.intn(3)
	ss := make([]string, n)
	for i := range ss {
		ss[i] = g.stmt(d)
	}
	return "(blk " + g.tok(32, "{") + " [" + strings.Join(ss, " ") + "] " + g.tok(33, "}") + ")"
}

func (g *treeGen) stmtChild(d int) string {
	if g.nilRate > 0 && g.r.intn(g.nilRate) == 0 {
		return "snil"
	}
	return g.stmt(d)
}

func (g *treeGen) stmt(d int) string {
	r := g.r
	if d <= 0 {
		return "(es " + g.child(1) + ")"
	}
	switch r.intn(10) {
	case 0:
		return "(let " + g.tok(37, "let") + " " + g.identSx() + " " + pick(r, []string{"nil", g.expr(d)}) + ")"
	case 1:
		return "(ret " + g.tok(42, "return") + " " + pick(r, []string{"nil", g.expr(d)}) + ")"
	case 2:
		return "(fd " + g.tok(36, "function") + " " + g.identSx() + " " + g.identsSx() + " " + g.blockSx(d-1) + ")"
	case 3:
		return g.blockSx(d - 1)
	case 4:
		els := "snil"
		if r.chance(1, 2) {
			els = g.stmt(d - 1)
		}
		return "(if " + g.tok(38, "if") + " " + g.child(d) + " " + g.stmtChild(d-1) + " " + els + ")"
	case 5:
		return "(while " + g.tok(40, "while") + " " + g.child(d) + " " + g.stmtChild(d-1) + ")"
	case 6:
		opt := func() string {
			if r.chance(1, 3) {
				return "nil"
			}
			return g.expr(d - 1)
		}
		return "(for " + g.tok(41, "for") + " " + opt() + " " + opt() + " " + opt() + " " + g.stmtChild(d-1) + ")"
	}
	return "(es " + g.child(d) + ")"
}

func genTreeProgram(r *rng, nilRate int) string {
	g := &treeGen{r: r, nilRate: nilRate}
	n := 1 + r.intn(4)
	ss := make([]string, n)
	for i := range ss {
		ss[i] = g.stmt(1 + r.intn(3))
	}
	eof := g.tok(1, "")
	return "[" + strings.Join(ss, " ") + "] " + eof
}

func genPrint(r *rng, n int, tier string) []string {
	var out []string
	// the parse corpus and programs in every configuration of a small grid
	grid := allCcfgs()
	for _, s := range parseCorpus {
		for _, c := range []string{"c", "cm", "p:2020:1", "pm:2020:0", "pm:09:1"} {
			out = append(out, c+" S - "+hx(s))
		}
	}
	for i := 0; i < n; i++ {
		switch r.intn(4) {
		case 0, 1:
			src := genProgram(r)
			c := randCcfg(r)
			if r.chance(1, 4) {
				c = pick(r, grid)
			}
			out = append(out, c+" S "+modeCfg(r)+" "+hx(src))
		case 2:
			out = append(out, randCcfg(r)+" T "+genTreeProgram(r, 0))
		case 3:
			out = append(out, randCcfg(r)+" T "+genTreeProgram(r, 12))
		}
	}
	return out
}

func splitPrintCase(line string) (ccfg, string, string) {
	p := strings.SplitN(line, " ", 3)
	if len(p) != 3 {
		die("bad print case %q", line)
	}
	return parseCcfg(p[0]), p[1], p[2]
}

func compileObservable(c ccfg, prog *ast.Program) (out string) {
	defer func() {
		if r := recover(); r != nil {
			out = "PANIC"
		}
	}()
	res := c.compiler().Compile(prog)
	m := "nomap"
	if res.SourceMap != nil {
		names := make([]string, len(res.SourceMap.Names))
		for i, n := range res.SourceMap.Names {
			names[i] = hx(n)
		}
		m = fmt.Sprintf("v=%d names=[%s] mappings=%s", res.SourceMap.Version, strings.Join(names, ","), res.SourceMap.Mappings)
	}
	dbg := ""
	if !c.pretty && !c.withMap {
		dbg = " dbg=" + hx(debug.ToString(prog))
	}
	return "code=" + hx(res.Code) + dbg + " " + m
}

func runPrint(line string) string {
	c, kind, rest := splitPrintCase(line)
	var prog *ast.Program
	if kind == "S" {
		pc := parsePcase(rest)
		b := buildParser(pc, false)
		prog, _ = b.p.ParseProgram()
	} else {
		prog = readProgram(rest)
	}
	// Compile is a function of (configuration, tree): in two thirds of the cases the tree
	// has already been compiled once or twice (pretty with tabs, then compact with a map)
	// before the observed compilation
	for k := len(line) % 3; k > 0; k-- {
		pre := ccfg{pretty: k == 1, indent: "\t", semi: true, withMap: k == 2}
		func() {
			defer func() { recover() }()
			pre.compiler().Compile(prog)
		}()
	}
	return compileObservable(c, prog)
}
