module verifharness

go 1.23.0

require github.com/xjslang/xjs v0.0.0

replace github.com/xjslang/xjs => /repo
