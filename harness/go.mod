module verifharness

go 1.23.0

require github.com/xjslang/xjs v0.0.0

require github.com/davecgh/go-spew v1.1.1 // indirect

replace github.com/xjslang/xjs => /repo
