package main

import (
	"fmt"
	"strings"

	"github.com/xjslang/xjs/ast"
	"github.com/xjslang/xjs/lexer"
	"github.com/xjslang/xjs/parser"
	"github.com/xjslang/xjs/token"
)

// C03: printed code parses back to the tree it was printed from, and compiling is a
// fixed point. Input lines:
//   T <program-sexpr>   explicit assembled tree (exhaustive operator chains, fixed cases)
//   A <seed>            random assembled tree respecting the quantifier's side conditions
//   SG <seed>           tree produced by the parser from a genProgram source
//   SR <seed>           tree produced by the parser from a reference-unparser source

func init() {
	oracles["C03"] = &oracle{
		rule:  "assembled trees: every (parent operator, slot, child operator, slot, grandchild operator) chain over binary/unary/postfix/assignment/call/member/index/grouped nodes with identifier leaves (depth 2 and 3), random assembled trees (callee/object call-level-or-tighter, assignment targets identifier/member/index, no nil children), parser-produced trees from random sources; x compact and 4 pretty configurations; non-trivial = tree with an operator node; distinct by input line",
		gen:   genC03,
		check: checkC03,
	}
}

// ---------- shared helpers (also used by C06 / C15) ----------

func parseDefault(src string) (*ast.Program, []parser.ParserError) {
	p := parser.NewBuilder(lexer.NewBuilder()).Build(src)
	prog, _ := p.ParseProgram()
	return prog, p.Errors()
}

// vcanon: canonical form of a real tree; grouping nodes, comments and positions are
// erased, everything else (operator strings and token types, names, literal texts and
// string values) is kept.
func vcExprs(l []ast.Expression) string {
	parts := make([]string, len(l))
	for i, e := range l {
		parts[i] = vcExpr(e)
	}
	return strings.Join(parts, " ")
}

func vcName(i *ast.Identifier) string {
	if i == nil {
		return "noid"
	}
	return hx(i.Value)
}

func vcExpr(e ast.Expression) string {
	if isNilNode(e) {
		return "_"
	}
	switch n := e.(type) {
	case *ast.Identifier:
		return "(id " + hx(n.Value) + ")"
	case *ast.IntegerLiteral:
		return "(int " + hx(n.Token.Literal) + ")"
	case *ast.FloatLiteral:
		return "(float " + hx(n.Token.Literal) + ")"
	case *ast.StringLiteral:
		return "(str " + hx(n.Value) + ")"
	case *ast.MultiStringLiteral:
		return "(raw " + hx(n.Value) + ")"
	case *ast.BooleanLiteral:
		return "(bool " + hx(n.Token.Literal) + " " + b01(n.Value) + ")"
	case *ast.NullLiteral:
		return "(null)"
	case *ast.BinaryExpression:
		return fmt.Sprintf("(bin %s/%d %s %s)", hx(n.Operator), int(n.Token.Type), vcExpr(n.Left), vcExpr(n.Right))
	case *ast.UnaryExpression:
		return fmt.Sprintf("(un %s/%d %s)", hx(n.Operator), int(n.Token.Type), vcExpr(n.Right))
	case *ast.PostfixExpression:
		return fmt.Sprintf("(post %s/%d %s)", hx(n.Operator), int(n.Token.Type), vcExpr(n.Left))
	case *ast.GroupedExpression:
		return vcExpr(n.Expression)
	case *ast.CallExpression:
		return "(call " + vcExpr(n.Function) + " [" + vcExprs(n.Arguments) + "])"
	case *ast.MemberExpression:
		if n.Computed {
			return "(idx " + vcExpr(n.Object) + " " + vcExpr(n.Property) + ")"
		}
		return "(mem " + vcExpr(n.Object) + " " + vcExpr(n.Property) + ")"
	case *ast.AssignmentExpression:
		return "(asg " + hx("=") + " " + vcExpr(n.Left) + " " + vcExpr(n.Value) + ")"
	case *ast.CompoundAssignmentExpression:
		return "(asg " + hx(n.Operator+"=") + " " + vcExpr(n.Left) + " " + vcExpr(n.Value) + ")"
	case *ast.LetExpression:
		return "(lete " + vcName(n.Name) + " " + vcExpr(n.Value) + ")"
	case *ast.FunctionExpression:
		name := "none"
		if n.Name != nil {
			name = hx(n.Name.Value)
		}
		return "(fn " + name + " " + canonParams(n.Parameters) + " " + vcBlock(n.Body) + ")"
	case *ast.ArrayLiteral:
		return "(arr [" + vcExprs(n.Elements) + "])"
	case *ast.ObjectLiteral:
		var parts []string
		for _, p := range n.Properties {
			parts = append(parts, vcExpr(p.Key), vcExpr(p.Value))
		}
		return "(obj [" + strings.Join(parts, " ") + "])"
	}
	return fmt.Sprintf("(unknown %T)", e)
}

func vcBlock(b *ast.BlockStatement) string {
	if b == nil {
		return "_"
	}
	return "(blk [" + vcStmts(b.Statements) + "])"
}

func vcStmts(l []ast.Statement) string {
	parts := make([]string, len(l))
	for i, s := range l {
		parts[i] = vcStmt(s)
	}
	return strings.Join(parts, " ")
}

func vcStmt(s ast.Statement) string {
	if isNilNode(s) {
		return "_"
	}
	switch n := s.(type) {
	case *ast.LetStatement:
		return "(let " + vcName(n.Name) + " " + vcExpr(n.Value) + ")"
	case *ast.ReturnStatement:
		return "(ret " + vcExpr(n.ReturnValue) + ")"
	case *ast.ExpressionStatement:
		return "(es " + vcExpr(n.Expression) + ")"
	case *ast.FunctionDeclaration:
		return "(fd " + vcName(n.Name) + " " + canonParams(n.Parameters) + " " + vcBlock(n.Body) + ")"
	case *ast.BlockStatement:
		return vcBlock(n)
	case *ast.IfStatement:
		return "(if " + vcExpr(n.Condition) + " " + vcStmt(n.ThenBranch) + " " + vcStmt(n.ElseBranch) + ")"
	case *ast.WhileStatement:
		return "(while " + vcExpr(n.Condition) + " " + vcStmt(n.Body) + ")"
	case *ast.ForStatement:
		return "(for " + vcExpr(n.Init) + " " + vcExpr(n.Condition) + " " + vcExpr(n.Update) + " " + vcStmt(n.Body) + ")"
	}
	return fmt.Sprintf("(unknown %T)", s)
}

func vcanon(p *ast.Program) string { return "[" + vcStmts(p.Statements) + "]" }

// ---------- known-finding class predicates, decided on the input tree ----------

type treeFacts struct {
	asiHazard     bool // a statement ending in an expression is followed by a sibling whose first printed token is ( [ or unary -
	nosemiElse    bool // an if with an else whose then-branch is directly an expression/let/return statement
	backtickTrail bool // a backtick literal with a line ending in a space before a line feed
	ops           int  // number of operator nodes
	// candidate predicates for failures that are not known findings (reported in the
	// detail only, never as a class)
	danglingElse  bool // else of an if whose brace-less then-branch ends in an if without else
	nestedElse    bool // else after a brace-less loop / if whose last statement is an expression/let/return statement
	parenFunction bool // parentheses written by the printer (no grouping node) around an operand containing a function expression
}

func endsNoBrace(s ast.Statement) bool {
	if isNilNode(s) {
		return false
	}
	switch n := s.(type) {
	case *ast.ExpressionStatement, *ast.LetStatement, *ast.ReturnStatement:
		return true
	case *ast.IfStatement:
		if !isNilNode(n.ElseBranch) {
			return endsNoBrace(n.ElseBranch)
		}
		return endsNoBrace(n.ThenBranch)
	case *ast.WhileStatement:
		return endsNoBrace(n.Body)
	case *ast.ForStatement:
		return endsNoBrace(n.Body)
	}
	return false
}

func openIf(s ast.Statement) bool {
	if isNilNode(s) {
		return false
	}
	switch n := s.(type) {
	case *ast.IfStatement:
		if isNilNode(n.ElseBranch) {
			return true
		}
		return openIf(n.ElseBranch)
	case *ast.WhileStatement:
		return openIf(n.Body)
	case *ast.ForStatement:
		return openIf(n.Body)
	}
	return false
}

func hasFunction(e ast.Expression) bool {
	if isNilNode(e) {
		return false
	}
	return strings.Contains(vcExpr(e), "(fn ")
}

func (f treeFacts) candidates() string {
	var l []string
	if f.danglingElse {
		l = append(l, "dangling-else")
	}
	if f.nestedElse {
		l = append(l, "nosemi-else-after-braceless-loop")
	}
	if f.parenFunction {
		l = append(l, "printer-parens-around-function")
	}
	if len(l) == 0 {
		return ""
	}
	return " [input satisfies: " + strings.Join(l, ", ") + "]"
}

// first token the printer writes for e
func firstTokOf(e ast.Expression) token.Type {
	if isNilNode(e) {
		return token.ILLEGAL
	}
	switch n := e.(type) {
	case *ast.Identifier:
		return token.IDENT
	case *ast.IntegerLiteral:
		return token.INT
	case *ast.FloatLiteral:
		return token.FLOAT
	case *ast.StringLiteral:
		return token.STRING
	case *ast.MultiStringLiteral:
		return token.RAW_STRING
	case *ast.BooleanLiteral:
		return token.TRUE
	case *ast.NullLiteral:
		return token.NULL
	case *ast.GroupedExpression:
		return token.LPAREN
	case *ast.ArrayLiteral:
		return token.LBRACKET
	case *ast.ObjectLiteral:
		return token.LBRACE
	case *ast.FunctionExpression:
		return token.FUNCTION
	case *ast.LetExpression:
		return token.LET
	case *ast.UnaryExpression:
		switch n.Operator {
		case "-":
			return token.MINUS
		case "!":
			return token.NOT
		case "++":
			return token.INCREMENT
		case "--":
			return token.DECREMENT
		}
		return token.ILLEGAL
	case *ast.BinaryExpression:
		if !isNilNode(n.Left) && n.Left.Precedence() < n.Precedence() {
			return token.LPAREN
		}
		return firstTokOf(n.Left)
	case *ast.PostfixExpression:
		if !isNilNode(n.Left) && n.Left.Precedence() < ast.PrecedencePostfix {
			return token.LPAREN
		}
		return firstTokOf(n.Left)
	case *ast.CallExpression:
		return firstTokOf(n.Function)
	case *ast.MemberExpression:
		return firstTokOf(n.Object)
	case *ast.AssignmentExpression:
		return firstTokOf(n.Left)
	case *ast.CompoundAssignmentExpression:
		return firstTokOf(n.Left)
	}
	return token.ILLEGAL
}

func endsOpen(s ast.Statement) bool {
	if isNilNode(s) {
		return false
	}
	switch n := s.(type) {
	case *ast.ExpressionStatement:
		return !isNilNode(n.Expression)
	case *ast.LetStatement:
		return !isNilNode(n.Value)
	case *ast.ReturnStatement:
		return !isNilNode(n.ReturnValue)
	case *ast.IfStatement:
		if !isNilNode(n.ElseBranch) {
			return endsOpen(n.ElseBranch)
		}
		return endsOpen(n.ThenBranch)
	case *ast.WhileStatement:
		return endsOpen(n.Body)
	case *ast.ForStatement:
		return endsOpen(n.Body)
	}
	return false
}

func hazardFirst(s ast.Statement) bool {
	es, ok := s.(*ast.ExpressionStatement)
	if !ok || isNilNode(es.Expression) {
		return false
	}
	switch firstTokOf(es.Expression) {
	case token.LPAREN, token.LBRACKET, token.MINUS:
		return true
	}
	return false
}

func (f *treeFacts) list(l []ast.Statement) {
	for i, s := range l {
		if i > 0 && endsOpen(l[i-1]) && hazardFirst(s) {
			f.asiHazard = true
		}
		f.stmt(s)
	}
}

func (f *treeFacts) stmt(s ast.Statement) {
	if isNilNode(s) {
		return
	}
	switch n := s.(type) {
	case *ast.LetStatement:
		f.expr(n.Value)
	case *ast.ReturnStatement:
		f.expr(n.ReturnValue)
	case *ast.ExpressionStatement:
		f.expr(n.Expression)
	case *ast.FunctionDeclaration:
		if n.Body != nil {
			f.list(n.Body.Statements)
		}
	case *ast.BlockStatement:
		f.list(n.Statements)
	case *ast.IfStatement:
		f.expr(n.Condition)
		if !isNilNode(n.ElseBranch) {
			switch n.ThenBranch.(type) {
			case *ast.ExpressionStatement, *ast.LetStatement, *ast.ReturnStatement:
				f.nosemiElse = true
			default:
				if endsNoBrace(n.ThenBranch) {
					f.nestedElse = true
				}
			}
			if openIf(n.ThenBranch) {
				f.danglingElse = true
			}
		}
		f.stmt(n.ThenBranch)
		f.stmt(n.ElseBranch)
	case *ast.WhileStatement:
		f.expr(n.Condition)
		f.stmt(n.Body)
	case *ast.ForStatement:
		f.expr(n.Init)
		f.expr(n.Condition)
		f.expr(n.Update)
		f.stmt(n.Body)
	}
}

func (f *treeFacts) expr(e ast.Expression) {
	if isNilNode(e) {
		return
	}
	switch n := e.(type) {
	case *ast.MultiStringLiteral:
		if strings.Contains(n.Value, " \n") {
			f.backtickTrail = true
		}
	case *ast.LetExpression:
		f.expr(n.Value)
	case *ast.BinaryExpression:
		f.ops++
		if !isNilNode(n.Left) && n.Left.Precedence() < n.Precedence() && hasFunction(n.Left) ||
			!isNilNode(n.Right) && n.Right.Precedence() <= n.Precedence() && hasFunction(n.Right) {
			f.parenFunction = true
		}
		f.expr(n.Left)
		f.expr(n.Right)
	case *ast.UnaryExpression:
		f.ops++
		if !isNilNode(n.Right) && n.Right.Precedence() < ast.PrecedenceUnary && hasFunction(n.Right) {
			f.parenFunction = true
		}
		f.expr(n.Right)
	case *ast.PostfixExpression:
		f.ops++
		if !isNilNode(n.Left) && n.Left.Precedence() < ast.PrecedencePostfix && hasFunction(n.Left) {
			f.parenFunction = true
		}
		f.expr(n.Left)
	case *ast.GroupedExpression:
		f.expr(n.Expression)
	case *ast.CallExpression:
		f.ops++
		f.expr(n.Function)
		for _, a := range n.Arguments {
			f.expr(a)
		}
	case *ast.MemberExpression:
		f.ops++
		f.expr(n.Object)
		if n.Computed {
			f.expr(n.Property)
		}
	case *ast.AssignmentExpression:
		f.ops++
		f.expr(n.Left)
		f.expr(n.Value)
	case *ast.CompoundAssignmentExpression:
		f.ops++
		f.expr(n.Left)
		f.expr(n.Value)
	case *ast.FunctionExpression:
		if n.Body != nil {
			f.list(n.Body.Statements)
		}
	case *ast.ArrayLiteral:
		for _, x := range n.Elements {
			f.expr(x)
		}
	case *ast.ObjectLiteral:
		for _, p := range n.Properties {
			f.expr(p.Key)
			f.expr(p.Value)
		}
	}
}

func factsOf(p *ast.Program) treeFacts {
	var f treeFacts
	f.list(p.Statements)
	return f
}

// classFor names the known-finding class whose predicate holds of the input tree, for
// a failure observed under configuration c ("" = none).
func (f treeFacts) classFor(c ccfg) string {
	if f.danglingElse {
		// assembled trees only: the parser never builds an if-with-else whose
		// brace-less then-branch ends in an else-less if
		return "dangling-else"
	}
	if !c.pretty {
		return ""
	}
	if !c.semi && f.asiHazard {
		return "nosemi-asi-hazard"
	}
	if !c.semi && (f.nosemiElse || f.nestedElse) {
		return "nosemi-else"
	}
	if f.backtickTrail {
		return "backtick-trailing-blank-pretty"
	}
	return ""
}

type found struct{ detail, class string }

// pickFailure: an unclassified failure first, so that known findings never hide it
func pickFailure(fs []found) (string, string) {
	for _, f := range fs {
		if f.class == "" {
			return f.detail, ""
		}
	}
	if len(fs) > 0 {
		return fs[0].detail, fs[0].class
	}
	return "", ""
}

func clip(s string) string {
	if len(s) > 300 {
		return s[:300] + "..."
	}
	return s
}

// ---------- assembled trees ----------

type tn struct {
	k, s string
	kids []*tn
}

func tnn(k, s string, kids ...*tn) *tn { return &tn{k: k, s: s, kids: kids} }

var tnBinPrec = map[string]int{"||": 3, "&&": 4, "==": 5, "!=": 5, "<": 6, ">": 6, "<=": 6, ">=": 6, "+": 7, "-": 7, "*": 8, "/": 8, "%": 8}

func (n *tn) prec() int {
	switch n.k {
	case "asg", "lete":
		return 2
	case "bin":
		return tnBinPrec[n.s]
	case "un":
		return 9
	case "post":
		return 10
	case "call":
		return 11
	case "mem", "idx":
		return 12
	}
	return 13
}

func (n *tn) callLevel() bool {
	switch n.k {
	case "int", "float":
		return false
	}
	return n.prec() >= 11
}

func (n *tn) isTarget() bool { return n.k == "id" || n.k == "mem" || n.k == "idx" }

func (n *tn) leftmost() string {
	switch n.k {
	case "str":
		return `"`
	case "raw":
		return "`"
	case "null":
		return "null"
	case "grp":
		return "("
	case "arr":
		return "["
	case "obj":
		return "{"
	case "fn":
		return "function"
	case "lete":
		return "let"
	case "bin":
		if n.kids[0].prec() < n.prec() {
			return "("
		}
		return n.kids[0].leftmost()
	case "post":
		if n.kids[0].prec() < 10 {
			return "("
		}
		return n.kids[0].leftmost()
	case "call", "mem", "idx", "asg":
		return n.kids[0].leftmost()
	}
	return n.s
}

var opTokType = map[string]token.Type{"+": token.PLUS, "-": token.MINUS, "*": token.MULTIPLY, "/": token.DIVIDE, "%": token.MODULO,
	"==": token.EQ, "!=": token.NOT_EQ, "<": token.LT, ">": token.GT, "<=": token.LTE, ">=": token.GTE, "&&": token.AND, "||": token.OR,
	"!": token.NOT, "++": token.INCREMENT, "--": token.DECREMENT, "=": token.ASSIGN, "+=": token.PLUS_ASSIGN, "-=": token.MINUS_ASSIGN}

// serialiser to the S-expression syntax of sexpr.go, with synthetic tokens
type tnWriter struct {
	b   strings.Builder
	col int
}

func (w *tnWriter) tok(ty token.Type, lit string) string {
	w.col++
	return fmt.Sprintf("{%d:%s:0:%d:0:%d:0:}", int(ty), hx(lit), w.col, w.col)
}

func (w *tnWriter) ident(name string) string {
	return "(id " + w.tok(token.IDENT, name) + " " + hx(name) + ")"
}

func (w *tnWriter) exprs(l []*tn) string {
	parts := make([]string, len(l))
	for i, e := range l {
		parts[i] = w.expr(e)
	}
	return "[" + strings.Join(parts, " ") + "]"
}

func (w *tnWriter) params(p *tn) string {
	parts := make([]string, len(p.kids))
	for i, e := range p.kids {
		parts[i] = w.ident(e.s)
	}
	return "[" + strings.Join(parts, " ") + "]"
}

func (w *tnWriter) expr(n *tn) string {
	if n == nil {
		return "nil"
	}
	switch n.k {
	case "id":
		return w.ident(n.s)
	case "int":
		return "(int " + w.tok(token.INT, n.s) + ")"
	case "float":
		return "(float " + w.tok(token.FLOAT, n.s) + ")"
	case "str":
		return "(str " + w.tok(token.STRING, n.s) + " " + hx(n.s) + ")"
	case "raw":
		return "(raw " + w.tok(token.RAW_STRING, n.s) + " " + hx(n.s) + ")"
	case "bool":
		if n.s == "true" {
			return "(bool " + w.tok(token.TRUE, "true") + " 1)"
		}
		return "(bool " + w.tok(token.FALSE, "false") + " 0)"
	case "null":
		return "(null " + w.tok(token.NULL, "null") + ")"
	case "lete":
		return "(lete " + w.tok(token.LET, "let") + " " + w.ident(n.s) + " " + w.expr(n.kids[0]) + ")"
	case "bin":
		l := w.expr(n.kids[0])
		t := w.tok(opTokType[n.s], n.s)
		return "(bin " + t + " " + l + " " + hx(n.s) + " " + w.expr(n.kids[1]) + ")"
	case "un":
		t := w.tok(opTokType[n.s], n.s)
		return "(un " + t + " " + hx(n.s) + " " + w.expr(n.kids[0]) + ")"
	case "post":
		l := w.expr(n.kids[0])
		return "(post " + w.tok(opTokType[n.s], n.s) + " " + l + " " + hx(n.s) + ")"
	case "grp":
		t := w.tok(token.LPAREN, "(")
		x := w.expr(n.kids[0])
		return "(grp " + t + " " + x + " " + w.tok(token.RPAREN, ")") + ")"
	case "call":
		f := w.expr(n.kids[0])
		t := w.tok(token.LPAREN, "(")
		return "(call " + t + " " + f + " " + w.exprs(n.kids[1:]) + ")"
	case "mem":
		o := w.expr(n.kids[0])
		t := w.tok(token.DOT, ".")
		return "(mem " + t + " " + o + " " + w.expr(n.kids[1]) + " 0)"
	case "idx":
		o := w.expr(n.kids[0])
		t := w.tok(token.LBRACKET, "[")
		return "(mem " + t + " " + o + " " + w.expr(n.kids[1]) + " 1)"
	case "asg":
		l := w.expr(n.kids[0])
		t := w.tok(opTokType[n.s], n.s)
		if n.s == "=" {
			return "(asg " + t + " " + l + " " + w.expr(n.kids[1]) + ")"
		}
		return "(casg " + t + " " + l + " " + hx(n.s[:1]) + " " + w.expr(n.kids[1]) + ")"
	case "fn":
		t := w.tok(token.FUNCTION, "function")
		name := "none"
		if n.s != "" {
			name = w.ident(n.s)
		}
		return "(fn " + t + " " + name + " " + w.params(n.kids[0]) + " " + w.stmt(n.kids[1]) + ")"
	case "arr":
		t := w.tok(token.LBRACKET, "[")
		es := w.exprs(n.kids)
		return "(arr " + t + " " + es + " " + w.tok(token.RBRACKET, "]") + ")"
	case "obj":
		t := w.tok(token.LBRACE, "{")
		var ps []string
		for i := 0; i+1 < len(n.kids); i += 2 {
			ps = append(ps, "("+w.expr(n.kids[i])+" "+w.expr(n.kids[i+1])+")")
		}
		return "(obj " + t + " [" + strings.Join(ps, " ") + "] " + w.tok(token.RBRACE, "}") + ")"
	}
	die("tnWriter: unknown expression kind %q", n.k)
	return ""
}

func (w *tnWriter) stmts(l []*tn) string {
	parts := make([]string, len(l))
	for i, s := range l {
		parts[i] = w.stmt(s)
	}
	return "[" + strings.Join(parts, " ") + "]"
}

func (w *tnWriter) stmt(n *tn) string {
	if n == nil {
		return "snil"
	}
	switch n.k {
	case "let":
		return "(let " + w.tok(token.LET, "let") + " " + w.ident(n.s) + " " + w.expr(n.kids[0]) + ")"
	case "ret":
		return "(ret " + w.tok(token.RETURN, "return") + " " + w.expr(n.kids[0]) + ")"
	case "es":
		return "(es " + w.expr(n.kids[0]) + ")"
	case "fd":
		t := w.tok(token.FUNCTION, "function")
		return "(fd " + t + " " + w.ident(n.s) + " " + w.params(n.kids[0]) + " " + w.stmt(n.kids[1]) + ")"
	case "blk":
		t := w.tok(token.LBRACE, "{")
		ss := w.stmts(n.kids)
		return "(blk " + t + " " + ss + " " + w.tok(token.RBRACE, "}") + ")"
	case "if":
		t := w.tok(token.IF, "if")
		return "(if " + t + " " + w.expr(n.kids[0]) + " " + w.stmt(n.kids[1]) + " " + w.stmt(n.kids[2]) + ")"
	case "while":
		t := w.tok(token.WHILE, "while")
		return "(while " + t + " " + w.expr(n.kids[0]) + " " + w.stmt(n.kids[1]) + ")"
	case "for":
		t := w.tok(token.FOR, "for")
		return "(for " + t + " " + w.expr(n.kids[0]) + " " + w.expr(n.kids[1]) + " " + w.expr(n.kids[2]) + " " + w.stmt(n.kids[3]) + ")"
	}
	die("tnWriter: unknown statement kind %q", n.k)
	return ""
}

func tnProgram(stmts []*tn) string {
	w := &tnWriter{}
	ss := w.stmts(stmts)
	return ss + " " + w.tok(token.EOF, "")
}

// expression statement; wrapped in a grouping node when it would begin with { or function
func tnES(e *tn) *tn {
	if lm := e.leftmost(); lm == "{" || lm == "function" {
		e = tnn("grp", "", e)
	}
	return tnn("es", "", e)
}

// ---------- exhaustive operator chains ----------

type opSlot struct {
	k, s string
	slot int
}

func c03Kinds(tier string) (kinds []opSlot, slots []opSlot) {
	bins := []string{"||", "&&", "==", "<", "+", "-", "*", "/"}
	if tier != "quick" {
		bins = []string{"||", "&&", "==", "!=", "<", ">", "<=", ">=", "+", "-", "*", "/", "%"}
	}
	for _, b := range bins {
		kinds = append(kinds, opSlot{"bin", b, 0})
		slots = append(slots, opSlot{"bin", b, 0}, opSlot{"bin", b, 1})
	}
	for _, u := range []string{"!", "-", "++", "--"} {
		kinds = append(kinds, opSlot{"un", u, 0})
		slots = append(slots, opSlot{"un", u, 0})
	}
	for _, u := range []string{"++", "--"} {
		kinds = append(kinds, opSlot{"post", u, 0})
		slots = append(slots, opSlot{"post", u, 0})
	}
	for _, a := range []string{"=", "+=", "-="} {
		kinds = append(kinds, opSlot{"asg", a, 0})
		slots = append(slots, opSlot{"asg", a, 0}, opSlot{"asg", a, 1})
	}
	kinds = append(kinds, opSlot{"call", "", 0}, opSlot{"mem", "", 0}, opSlot{"idx", "", 0}, opSlot{"grp", "", 0})
	slots = append(slots, opSlot{"call", "", 0}, opSlot{"call", "", 1}, opSlot{"mem", "", 0}, opSlot{"idx", "", 0}, opSlot{"idx", "", 1}, opSlot{"grp", "", 0})
	return
}

type idSrc struct{ n int }

func (s *idSrc) id() *tn {
	s.n++
	return tnn("id", string(rune('a'+(s.n-1)%26)))
}

// tnFill builds a node of the slot's kind with child in the slot and fresh identifiers
// elsewhere (child == nil: identifiers everywhere). wide: ++/-- take any operand.
// Returns nil when the side conditions exclude the combination.
func tnFill(sl opSlot, child *tn, ids *idSrc, wide bool) *tn {
	c := child
	if c == nil {
		c = ids.id()
	}
	asCallee := func(x *tn) *tn {
		if !x.callLevel() {
			return tnn("grp", "", x)
		}
		return x
	}
	switch sl.k {
	case "bin":
		if sl.slot == 0 {
			return tnn("bin", sl.s, c, ids.id())
		}
		return tnn("bin", sl.s, ids.id(), c)
	case "un":
		if (sl.s == "++" || sl.s == "--") && !wide && !c.isTarget() {
			return nil
		}
		return tnn("un", sl.s, c)
	case "post":
		if !wide && !c.isTarget() {
			return nil
		}
		return tnn("post", sl.s, c)
	case "asg":
		if sl.slot == 0 {
			if !c.isTarget() {
				return nil
			}
			return tnn("asg", sl.s, c, ids.id())
		}
		return tnn("asg", sl.s, ids.id(), c)
	case "call":
		if sl.slot == 0 {
			return tnn("call", "", asCallee(c), ids.id())
		}
		return tnn("call", "", ids.id(), c)
	case "mem":
		return tnn("mem", "", asCallee(c), ids.id())
	case "idx":
		if sl.slot == 0 {
			return tnn("idx", "", asCallee(c), ids.id())
		}
		return tnn("idx", "", ids.id(), c)
	case "grp":
		return tnn("grp", "", c)
	}
	return nil
}

func c03Exhaustive(tier string) []string {
	kinds, slots := c03Kinds(tier)
	seen := map[string]bool{}
	var out []string
	add := func(e *tn) {
		if e == nil {
			return
		}
		line := "T " + tnProgram([]*tn{tnES(e)})
		if !seen[line] {
			seen[line] = true
			out = append(out, line)
		}
	}
	for _, wide := range []bool{false, true} {
		for _, p := range slots {
			for _, c := range kinds {
				ids := &idSrc{}
				ch := tnFill(c, nil, ids, wide)
				add(tnFill(p, ch, ids, wide))
			}
			for _, c := range slots {
				for _, g := range kinds {
					ids := &idSrc{}
					gn := tnFill(g, nil, ids, wide)
					cn := tnFill(c, gn, ids, wide)
					if cn == nil {
						continue
					}
					add(tnFill(p, cn, ids, wide))
				}
			}
		}
	}
	return out
}

// ---------- random assembled trees ----------

type c03gen struct {
	r    *rng
	wide bool
}

func (g *c03gen) id() *tn { return tnn("id", pick(g.r, identPool)) }

func (g *c03gen) leaf() *tn {
	r := g.r
	switch r.intn(10) {
	case 0:
		return tnn("int", pick(r, []string{"0", "1", "42", "0xFF", "0b101", "0o17", "100"}))
	case 1:
		return tnn("float", pick(r, []string{"1.5", "3.14", "1e3", "2.5e-3"}))
	case 2:
		return tnn("str", pick(r, []string{"s", "a b", `q\"q`, "", `it's`, `\n`, "é"}))
	case 3:
		return tnn("raw", pick(r, []string{"r", "x`y", "l1\nl2", "", "a\n\nb", `\n`, "t \nu"}))
	case 4:
		return tnn("bool", pick(r, []string{"true", "false"}))
	case 5:
		return tnn("null", "null")
	}
	return g.id()
}

func (g *c03gen) callee(d int) *tn {
	e := g.expr(d)
	if !e.callLevel() {
		return tnn("grp", "", e)
	}
	return e
}

func (g *c03gen) target(d int) *tn {
	if d > 0 {
		switch g.r.intn(5) {
		case 0:
			return tnn("mem", "", g.callee(d-1), g.id())
		case 1:
			return tnn("idx", "", g.callee(d-1), g.expr(d-1))
		}
	}
	return g.id()
}

func (g *c03gen) incOperand(d int) *tn {
	if g.wide && g.r.chance(1, 3) {
		return g.expr(d)
	}
	return g.target(d)
}

var c03AllBins = []string{"||", "&&", "==", "!=", "<", ">", "<=", ">=", "+", "-", "*", "/", "%"}

func (g *c03gen) expr(d int) *tn {
	r := g.r
	if d <= 0 {
		return g.leaf()
	}
	switch r.intn(22) {
	case 0, 1, 2, 3, 4:
		return tnn("bin", pick(r, c03AllBins), g.expr(d-1), g.expr(d-1))
	case 5, 6:
		return tnn("un", pick(r, []string{"!", "-"}), g.expr(d-1))
	case 7:
		return tnn("un", pick(r, []string{"++", "--"}), g.incOperand(d-1))
	case 8:
		return tnn("post", pick(r, []string{"++", "--"}), g.incOperand(d-1))
	case 9:
		return tnn("grp", "", g.expr(d-1))
	case 10, 11:
		kids := []*tn{g.callee(d - 1)}
		for i := r.intn(3); i > 0; i-- {
			kids = append(kids, g.expr(d-1))
		}
		return tnn("call", "", kids...)
	case 12:
		return tnn("mem", "", g.callee(d-1), g.id())
	case 13:
		return tnn("idx", "", g.callee(d-1), g.expr(d-1))
	case 14, 15:
		return tnn("asg", pick(r, []string{"=", "+=", "-="}), g.target(d-1), g.expr(d-1))
	case 16:
		var kids []*tn
		for i := r.intn(3); i > 0; i-- {
			kids = append(kids, g.expr(d-1))
		}
		return tnn("arr", "", kids...)
	case 17:
		var kids []*tn
		for i := r.intn(3); i > 0; i-- {
			key := g.id()
			if r.chance(1, 4) {
				key = tnn("str", pick(r, []string{"k", "k 2"}))
			}
			kids = append(kids, key, g.expr(d-1))
		}
		return tnn("obj", "", kids...)
	case 18:
		name := ""
		if r.chance(1, 2) {
			name = pick(r, identPool)
		}
		return tnn("fn", name, g.params(), g.block(d-1))
	}
	return g.leaf()
}

func (g *c03gen) params() *tn {
	p := tnn("params", "")
	for i := g.r.intn(3); i > 0; i-- {
		p.kids = append(p.kids, g.id())
	}
	return p
}

func (g *c03gen) block(d int) *tn {
	b := tnn("blk", "")
	for i := g.r.intn(3); i > 0; i-- {
		b.kids = append(b.kids, g.stmt(d))
	}
	return b
}

func (g *c03gen) optExpr(d int) *tn {
	if g.r.chance(1, 3) {
		return nil
	}
	return g.expr(d)
}

// does a brace-less statement end in an if without else (which would capture a following else)?
func tnOpenIf(s *tn) bool {
	switch s.k {
	case "if":
		if s.kids[2] == nil {
			return true
		}
		return tnOpenIf(s.kids[2])
	case "while":
		return tnOpenIf(s.kids[1])
	case "for":
		return tnOpenIf(s.kids[3])
	}
	return false
}

func (g *c03gen) body(d int) *tn {
	if g.r.chance(1, 2) {
		return g.block(d)
	}
	return g.stmt(d)
}

func (g *c03gen) stmt(d int) *tn {
	r := g.r
	if d <= 0 {
		return tnES(g.expr(1))
	}
	switch r.intn(12) {
	case 0, 1:
		return tnn("let", pick(r, identPool), g.optExpr(d))
	case 2:
		return tnn("ret", "", g.optExpr(d))
	case 3:
		return tnn("fd", pick(r, identPool), g.params(), g.block(d-1))
	case 4:
		return g.block(d - 1)
	case 5:
		thn := g.body(d - 1)
		var els *tn
		if r.chance(1, 2) {
			els = g.body(d - 1)
			if tnOpenIf(thn) {
				thn = tnn("blk", "", thn)
			}
		}
		return tnn("if", "", g.expr(d), thn, els)
	case 6:
		return tnn("while", "", g.expr(d), g.body(d-1))
	case 7:
		var init *tn
		if r.chance(2, 3) {
			if r.chance(1, 2) {
				init = tnn("lete", pick(r, identPool), g.optExpr(d-1))
			} else {
				init = g.expr(d - 1)
			}
		}
		return tnn("for", "", init, g.optExpr(d-1), g.optExpr(d-1), g.body(d-1))
	}
	return tnES(g.expr(d))
}

func c03Assembled(seed uint64) string {
	r := newRng(seed, "c03asm")
	g := &c03gen{r: r, wide: r.chance(1, 4)}
	n := 1 + r.intn(4)
	stmts := make([]*tn, n)
	for i := range stmts {
		stmts[i] = g.stmt(1 + r.intn(4))
	}
	return tnProgram(stmts)
}

// fixed cases worth keeping in every run
func c03Fixed() []string {
	id := func(s string) *tn { return tnn("id", s) }
	es := func(s string) *tn { return tnES(id(s)) }
	return []string{
		// else attached to the outer if, then-branch a brace-less if without else
		"T " + tnProgram([]*tn{tnn("if", "", id("a"), tnn("if", "", id("b"), es("c"), nil), es("d"))}),
		"T " + tnProgram([]*tn{tnn("if", "", id("a"), tnn("while", "", id("w"), tnn("if", "", id("b"), es("c"), nil)), es("d"))}),
		"T " + tnProgram([]*tn{tnn("if", "", id("a"), tnn("blk", "", tnn("if", "", id("b"), es("c"), nil)), es("d"))}),
		"T " + tnProgram([]*tn{es("a"), tnES(tnn("grp", "", id("b")))}),
		"T " + tnProgram([]*tn{tnn("if", "", id("a"), es("b"), es("c"))}),
		// a multi-line operand inside parentheses written by the printer (no grouping node)
		"T " + tnProgram([]*tn{tnES(tnn("un", "!", tnn("bin", "+", tnn("fn", "", tnn("params", ""), tnn("blk", "", es("a"))), id("b"))))}),
		"T " + tnProgram([]*tn{tnES(tnn("bin", "*", id("c"), tnn("bin", "+", tnn("fn", "", tnn("params", ""), tnn("blk", "", es("a"))), id("b"))))}),
		// brace-less loop body in front of else
		"T " + tnProgram([]*tn{tnn("if", "", id("a"), tnn("while", "", id("w"), es("b")), es("c"))}),
	}
}

func genC03(r *rng, n int, tier string) []string {
	out := c03Fixed()
	out = append(out, c03Exhaustive(tier)...)
	for i := 0; i < n; i++ {
		seed := r.next() % (1 << 40)
		switch r.intn(4) {
		case 0, 1:
			out = append(out, fmt.Sprintf("A %d", seed))
		case 2:
			out = append(out, fmt.Sprintf("SG %d", seed))
		case 3:
			out = append(out, fmt.Sprintf("SR %d", seed))
		}
	}
	return out
}

var c03Cfgs = []ccfg{
	{},
	{pretty: true, semi: true, indent: "  "},
	{pretty: true, semi: true, indent: "\t"},
	{pretty: true, semi: false, indent: "    "},
	{pretty: true, semi: false, indent: ""},
}

func cfgName(c ccfg) string {
	if !c.pretty {
		return "compact"
	}
	return fmt.Sprintf("pretty(indent=%q,semi=%v)", c.indent, c.semi)
}

func checkC03(line string, dist map[string]int) (detail, sig, class string) {
	p := strings.SplitN(line, " ", 2)
	if len(p) != 2 {
		return "bad input line", "", ""
	}
	var prog *ast.Program
	var shown string
	switch p[0] {
	case "T":
		prog = readProgram(p[1])
	case "A":
		var seed uint64
		fmt.Sscan(p[1], &seed)
		prog = readProgram(c03Assembled(seed))
	case "SG", "SR":
		var seed uint64
		fmt.Sscan(p[1], &seed)
		var src string
		if p[0] == "SG" {
			src = genProgram(newRng(seed, "c03src"))
		} else {
			_, src = c02Case(seed)
		}
		var errs []parser.ParserError
		prog, errs = parseDefault(src)
		if len(errs) > 0 {
			dist[p[0]+" rejected"]++
			return "", "", ""
		}
		shown = fmt.Sprintf("source %q; ", clip(src))
	case "SX": // explicit source (hex): used to replay cases of the correspondence suites
		src := unhx(strings.TrimSpace(p[1]))
		var errs []parser.ParserError
		prog, errs = parseDefault(src)
		if len(errs) > 0 {
			dist[p[0]+" rejected"]++
			return "", "", ""
		}
		shown = fmt.Sprintf("source %q; ", clip(src))
	default:
		return "bad input kind", "", ""
	}
	dist["kind="+p[0]]++
	want := vcanon(prog)
	facts := factsOf(prog)
	dist[fmt.Sprintf("ops<=%d", bucket(facts.ops))]++
	var fs []found
	for _, c := range c03Cfgs {
		code := c.compiler().Compile(prog).Code
		fail := func(format string, a ...any) {
			cl := facts.classFor(c)
			dist["fail "+cfgName(c)+" class="+cl]++
			if cl != "" {
				// known finding: a generic detail, so that the many instances collapse
				// into one report entry and cannot crowd out new failures
				format = strings.SplitN(format, ":", 2)[0]
				if i := strings.Index(format, " %"); i >= 0 {
					format = format[:i]
				}
				fs = append(fs, found{cfgName(c) + ": " + format + " (instance of " + cl + ")", cl})
				return
			}
			fs = append(fs, found{shown + cfgName(c) + ": " + fmt.Sprintf(format, a...) + facts.candidates(), cl})
			if facts.candidates() == "" {
				dist["fail without class or candidate predicate"]++
			}
		}
		p2, errs := parseDefault(code)
		if len(errs) > 0 {
			fail("printed code %q of tree %s does not parse: %s", clip(code), clip(want), errs[0].Message)
			continue
		}
		if got := vcanon(p2); got != want {
			fail("printed code %q re-parses to %s, printed from %s", clip(code), clip(got), clip(want))
			continue
		}
		if code2 := c.compiler().Compile(p2).Code; code2 != code {
			fail("not a fixed point: %q compiles again to %q", clip(code), clip(code2))
		}
	}
	detail, class = pickFailure(fs)
	if facts.ops > 0 {
		sig = p[0]
	}
	return detail, sig, class
}
