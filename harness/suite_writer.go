package main

import (
	"fmt"
	"strconv"
	"strings"

	"github.com/xjslang/xjs/ast"
	"github.com/xjslang/xjs/sourcemap"
	"github.com/xjslang/xjs/token"
)

// writer: random histories of the exported CodeWriter methods on the real writer.
// case line: "<ccfg> op op ..."; ops: s<hex> WriteString, r<code> WriteRune, ; WriteSemi,
// _ WriteSpace, n WriteNewline, i WriteIndent, + IncreaseIndent, - DecreaseIndent,
// c<hex,...> WriteLeadingComments, m<l>:<c> AddMapping, N<l>:<c>:<hex> AddNamedMapping

func init() {
	suites["writer"] = &suite{gen: genWriter, run: runWriter}
}

func genWriter(r *rng, n int, tier string) []string {
	var out []string
	texts := []string{"a", "let ", "x", "(", ")", "{", "}", "+", "-", "--", "++", "<!", "<", "!", "\"s\"", "`a\nb`", "a b", "", " ", "\n", "é", "foo", "1", "=", ";"}
	comments := []string{"", " c", " note", "", " x // y", "\"q", " trailing", ""}
	for i := 0; i < n; i++ {
		var ops []string
		m := 1 + r.intn(25)
		for j := 0; j < m; j++ {
			switch r.intn(14) {
			case 0, 1, 2:
				ops = append(ops, "s"+hx(pick(r, texts)))
			case 3:
				ops = append(ops, fmt.Sprintf("r%d", pick(r, []int{'(', ')', '{', '}', ';', ',', '=', ' ', '\n', '+', '-', '"'})))
			case 4:
				ops = append(ops, ";")
			case 5:
				ops = append(ops, "_")
			case 6:
				ops = append(ops, "n")
			case 7:
				ops = append(ops, "i")
			case 8:
				ops = append(ops, "+")
			case 9:
				ops = append(ops, "-")
			case 10, 11:
				k := r.intn(4)
				cs := make([]string, k)
				for q := range cs {
					cs[q] = hx(pick(r, comments))
				}
				ops = append(ops, "c"+strings.Join(cs, ","))
			case 12:
				ops = append(ops, fmt.Sprintf("m%d:%d", r.intn(30), r.intn(80)))
			case 13:
				ops = append(ops, fmt.Sprintf("N%d:%d:%s", r.intn(30), r.intn(80), hx(pick(r, identPool))))
			}
		}
		ops = append(ops, "s7c") // a final write shows what was pending
		out = append(out, randCcfg(r)+" "+strings.Join(ops, " "))
	}
	return out
}

func runWriter(line string) string {
	f := strings.Fields(line)
	c := parseCcfg(f[0])
	cw := ast.CodeWriter{PrettyPrint: c.pretty, IndentString: c.indent, WriteSemicolons: c.semi}
	if c.withMap {
		cw.Mapper = sourcemap.New()
	}
	for _, op := range f[1:] {
		switch op[0] {
		case 's':
			cw.WriteString(unhx(op[1:]))
		case 'r':
			v, _ := strconv.Atoi(op[1:])
			cw.WriteRune(rune(v))
		case ';':
			cw.WriteSemi()
		case '_':
			cw.WriteSpace()
		case 'n':
			cw.WriteNewline()
		case 'i':
			cw.WriteIndent()
		case '+':
			cw.IncreaseIndent()
		case '-':
			cw.DecreaseIndent()
		case 'c':
			var cs []string
			if len(op) > 1 {
				for _, h := range strings.Split(op[1:], ",") {
					cs = append(cs, unhx(h))
				}
			}
			cw.WriteLeadingComments(cs)
		case 'm':
			p := strings.Split(op[1:], ":")
			l, _ := strconv.Atoi(p[0])
			k, _ := strconv.Atoi(p[1])
			cw.AddMapping(token.Position{Line: l, Column: k})
		case 'N':
			p := strings.Split(op[1:], ":")
			l, _ := strconv.Atoi(p[0])
			k, _ := strconv.Atoi(p[1])
			cw.AddNamedMapping(l, k, unhx(p[2]))
		default:
			die("bad writer op %q", op)
		}
	}
	m := "nomap"
	if cw.Mapper != nil {
		sm := cw.Mapper.SourceMap()
		names := make([]string, len(sm.Names))
		for i, n := range sm.Names {
			names[i] = hx(n)
		}
		m = fmt.Sprintf("names=[%s] mappings=%s", strings.Join(names, ","), sm.Mappings)
	}
	return fmt.Sprintf("buf=%s level=%d %s", hx(cw.String()), cw.IndentLevel, m)
}
