package main

import (
	"fmt"
	"strings"

	"github.com/xjslang/xjs/token"
)

// Direct oracle for C10 on the real token stream (search support).

func init() {
	oracles["C10"] = &oracle{
		rule:  "byte strings: lexeme-fragment concatenations, generated programs in random layouts, random and mutated bytes (NUL, CR/LF mixes, non-UTF-8, truncated literals); non-trivial = at least 2 tokens before EOF; distinct by (input, token-type sequence)",
		gen:   genLex,
		check: checkC10,
	}
}

func lineStarts(src string) []int {
	st := []int{0}
	for i := 0; i < len(src); i++ {
		if src[i] == '\n' {
			st = append(st, i+1)
		}
	}
	return st
}

func offsetOf(src string, starts []int, p token.Position) (int, bool) {
	if p.Line < 0 || p.Line >= len(starts) || p.Column < 0 {
		return 0, false
	}
	o := starts[p.Line] + p.Column
	end := len(src)
	if p.Line+1 < len(starts) {
		end = starts[p.Line+1] - 1 // the LF itself is the last column of its line
	}
	if o > end {
		return 0, false
	}
	return o, true
}

func isTriviaText(s string) bool {
	i := 0
	for i < len(s) {
		c := s[i]
		if c == ' ' || c == '\t' || c == '\n' || c == '\r' {
			i++
			continue
		}
		if c == '/' && i+1 < len(s) && s[i+1] == '/' {
			i += 2
			for i < len(s) && s[i] != '\n' {
				i++
			}
			if i < len(s) {
				i++
			}
			continue
		}
		return false
	}
	return true
}

func isWordType(t token.Type) bool {
	if t == token.IDENT || t == token.INT || t == token.FLOAT {
		return true
	}
	for _, k := range token.Keywords {
		if k == t {
			return true
		}
	}
	return false
}

func checkC10(line string, dist map[string]int) (detail, sig, class string) {
	src := unhx(line)
	toks := lexAll(src, len(src)+3)
	starts := lineStarts(src)
	// termination: an EOF within len+1 tokens
	first := -1
	for i, t := range toks {
		if t.Type == token.EOF {
			first = i
			break
		}
	}
	if first < 0 || first > len(src) {
		return "no end-of-input token within len+1 tokens", "noeof", ""
	}
	prevEnd := 0 // exclusive end offset of the previous lexeme
	var types []string
	for i := 0; i <= first; i++ {
		t := toks[i]
		types = append(types, fmt.Sprint(int(t.Type)))
		a, ok1 := offsetOf(src, starts, t.Start)
		e, ok2 := offsetOf(src, starts, t.End)
		if !ok1 || !ok2 {
			return fmt.Sprintf("token %d (%q): position outside the source: %v-%v", i, t.Literal, t.Start, t.End), "pos", ""
		}
		if a < prevEnd {
			return fmt.Sprintf("token %d (%q) starts at offset %d, inside the previous token (ends %d)", i, t.Literal, a, prevEnd), "overlap", ""
		}
		gap := src[prevEnd:a]
		if !isTriviaText(gap) {
			return fmt.Sprintf("token %d (%q at %d:%d): bytes %q between tokens are not whitespace/comments", i, t.Literal, t.Start.Line, t.Start.Column, gap), "gap", ""
		}
		if t.AfterNewline != strings.Contains(gap, "\n") {
			return fmt.Sprintf("token %d (%q): AfterNewline=%v but gap is %q", i, t.Literal, t.AfterNewline, gap), "nl", ""
		}
		if t.Type == token.EOF {
			if a != len(src) || e != len(src) {
				return fmt.Sprintf("end-of-input reported at offsets %d..%d, source length %d", a, e, len(src)), "eofpos", ""
			}
			break
		}
		// the lexeme ends at e (end just after last byte) or e+1 (end on last byte)
		nextStart := len(src)
		if i+1 <= first {
			if o, ok := offsetOf(src, starts, toks[i+1].Start); ok {
				nextStart = o
			}
		}
		b := -1
		for _, cand := range []int{e + 1, e} {
			if cand > a && cand <= len(src) && cand <= nextStart && isTriviaText(src[cand:nextStart]) {
				if isWordType(t.Type) && src[a:cand] != t.Literal {
					continue
				}
				b = cand
				break
			}
		}
		if b < 0 {
			return fmt.Sprintf("token %d (%q) %d:%d-%d:%d: no end on/after its last byte tiles the source (next token at offset %d)", i, t.Literal, t.Start.Line, t.Start.Column, t.End.Line, t.End.Column, nextStart), "end", ""
		}
		if isWordType(t.Type) {
			if t.Literal != src[a:b] {
				return fmt.Sprintf("token %d: literal %q is not the source slice %q", i, t.Literal, src[a:b]), "slice", ""
			}
		}
		if len(src[a:b]) > 0 && isLetterByte(src[a]) {
			want := token.IDENT
			if k, ok := token.Keywords[src[a:b]]; ok {
				want = k
			}
			// the lexeme of an identifier-like token extends over [A-Za-z0-9_$]*
			if t.Type != want {
				return fmt.Sprintf("token %d %q classified as %d, expected %d", i, src[a:b], t.Type, want), "kw", ""
			}
		}
		prevEnd = b
	}
	// EOF however often requested
	for i := first + 1; i < len(toks); i++ {
		if toks[i].Type != token.EOF || toks[i].Start != toks[first].Start || toks[i].End != toks[first].End {
			return fmt.Sprintf("request %d after end of input: %v (first EOF %v)", i-first, toks[i], toks[first]), "eofstable", ""
		}
	}
	dist[fmt.Sprintf("tokens<=%d", bucket(first))]++
	if first >= 2 {
		sig = strings.Join(types, ",")
	}
	return "", sig, ""
}

func isLetterByte(c byte) bool {
	return 'a' <= c && c <= 'z' || 'A' <= c && c <= 'Z' || c == '_' || c == '$'
}

func bucket(n int) int {
	for _, b := range []int{0, 1, 2, 5, 10, 20, 50, 100, 1000} {
		if n <= b {
			return b
		}
	}
	return 1 << 30
}
