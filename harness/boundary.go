package main

import (
	"reflect"
	"strings"

	"github.com/xjslang/xjs/ast"
	"github.com/xjslang/xjs/token"
)

// The trivia lists at the statement boundaries of a real tree, in traversal order: in
// front of every statement of every statement list (program, blocks, function bodies at
// any depth), in front of every closing brace of a block, in front of the end of input.
// This is CommentSpec.boundary_trivia (C15_comments_stay_in_place) computed on the
// implementation's own tree; used by the C15 oracle as search support.

func firstTokStmt(s ast.Statement) (token.Token, bool) {
	switch n := s.(type) {
	case *ast.LetStatement:
		return n.Token, true
	case *ast.ReturnStatement:
		return n.Token, true
	case *ast.FunctionDeclaration:
		return n.Token, true
	case *ast.BlockStatement:
		return n.Token, true
	case *ast.IfStatement:
		return n.Token, true
	case *ast.WhileStatement:
		return n.Token, true
	case *ast.ForStatement:
		return n.Token, true
	case *ast.ExpressionStatement:
		if n.Expression == nil {
			return token.Token{}, false
		}
		return firstTokExpr(n.Expression)
	}
	return token.Token{}, false
}

func boundaryTrivia(prog *ast.Program) [][]string {
	var out [][]string
	var walk func(v reflect.Value)
	list := func(stmts []ast.Statement) {
		for _, s := range stmts {
			if t, ok := firstTokStmt(s); ok {
				out = append(out, t.LeadingComments)
			}
			walk(reflect.ValueOf(s))
		}
	}
	walk = func(v reflect.Value) {
		if !v.IsValid() {
			return
		}
		switch v.Kind() {
		case reflect.Interface, reflect.Ptr:
			if v.IsNil() {
				return
			}
			if b, ok := v.Interface().(*ast.BlockStatement); ok {
				list(b.Statements)
				out = append(out, b.RBrace.LeadingComments)
				return
			}
			walk(v.Elem())
		case reflect.Struct:
			if _, isTok := v.Interface().(token.Token); isTok {
				return
			}
			for i := 0; i < v.NumField(); i++ {
				if v.Type().Field(i).IsExported() {
					walk(v.Field(i))
				}
			}
		case reflect.Slice:
			for i := 0; i < v.Len(); i++ {
				walk(v.Index(i))
			}
		}
	}
	list(prog.Statements)
	out = append(out, prog.EOF.LeadingComments)
	return out
}

// normBoundaries is CommentSpec.norm_boundaries: what pretty printing keeps.
func normBoundaries(l [][]string) []string {
	dropBlank := func(tr []string) []string {
		for len(tr) > 0 && tr[0] == "" {
			tr = tr[1:]
		}
		return tr
	}
	ownLine := func(tr []string) []string {
		if len(tr) == 0 {
			return []string{""}
		}
		return tr
	}
	trimLast := func(tr []string) []string {
		for len(tr) > 0 && tr[len(tr)-1] == "" {
			tr = tr[:len(tr)-1]
		}
		return ownLine(tr)
	}
	out := make([]string, len(l))
	for i, tr := range l {
		tr = append([]string{}, tr...)
		switch {
		case len(l) == 1:
			tr = trimLast(ownLine(dropBlank(tr)))
		case i == 0:
			tr = ownLine(dropBlank(tr))
		case i == len(l)-1:
			tr = trimLast(tr)
		default:
			tr = ownLine(tr)
		}
		out[i] = strings.Join(tr, "\x1f")
	}
	return out
}
