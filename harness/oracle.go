package main

import (
	"encoding/json"
	"fmt"
	"os"
	"sort"
	"time"
)

// An oracle checks a property directly on the implementation (search support:
// it never establishes that a property holds).
type failure struct {
	Input  string `json:"input"`  // replayable case line
	Detail string `json:"detail"` // what was observed vs expected
	Class  string `json:"class"`  // known-finding class predicate that holds of the input, or ""
}

type oracleResult struct {
	Property    string         `json:"property"`
	Evaluations int            `json:"evaluations"`
	Distinct    int            `json:"distinct_nontrivial"`
	Rule        string         `json:"rule"`
	Failures    []failure      `json:"failures"`
	Samples     []string       `json:"samples"`
	Dist        map[string]int `json:"distribution"`
}

type oracle struct {
	rule string
	gen  func(r *rng, n int, tier string) []string
	// check returns "" when the property holds on the input; sig is a signature
	// of the non-default behaviour exercised ("" = trivial); class names the
	// known-finding class of a failure ("" = none).
	check func(input string, dist map[string]int) (detail, sig, class string)
}

var oracles = map[string]*oracle{}

func runOracle(prop string, seed uint64, n int, tier, out, extra string) {
	o := oracles[prop]
	if o == nil {
		die("no oracle for %s", prop)
	}
	var inputs []string
	if extra != "" {
		if _, err := os.Stat(extra); err == nil {
			inputs = append(inputs, readLines(extra)...)
		}
	}
	inputs = append(inputs, o.gen(newRng(seed, "oracle-"+prop), n, tier)...)
	res := oracleResult{Property: prop, Rule: o.rule, Dist: map[string]int{}, Failures: []failure{}, Samples: []string{}}
	seen := map[string]bool{}
	failSeen := map[string]bool{}
	// ORACLE_STOP_AFTER=k: stop once k failures outside every known-finding class were
	// found (used when a broken tie makes the check search for one failing input)
	progress := os.Getenv("ORACLE_PROGRESS")
	stopAfter, unclassified := 0, 0
	if v := os.Getenv("ORACLE_STOP_AFTER"); v != "" {
		fmt.Sscan(v, &stopAfter)
	}
	for _, in := range inputs {
		if stopAfter > 0 && unclassified >= stopAfter {
			break
		}
		if hung {
			break
		}
		if progress != "" {
			// a fatal runtime error (stack overflow, out of memory) kills the process and
			// cannot be recovered: the check reads the input that was running from this file
			os.WriteFile(progress, []byte(in+"\n"), 0o644)
		}
		detail, sig, class := safeCheck(o, in, res.Dist)
		if detail != "" && class == "" {
			unclassified++
		}
		res.Evaluations++
		if sig != "" && !seen[in+"\x00"+sig] {
			seen[in+"\x00"+sig] = true
			res.Distinct++
		}
		if detail != "" {
			key := class + "|" + detail
			if len(res.Failures) < 200 && !failSeen[key] {
				failSeen[key] = true
				res.Failures = append(res.Failures, failure{Input: in, Detail: detail, Class: class})
			}
		}
		if len(res.Samples) < 5 && sig != "" {
			res.Samples = append(res.Samples, in)
		}
	}
	if len(res.Samples) == 0 && len(inputs) > 0 {
		res.Samples = append(res.Samples, inputs[0])
	}
	sort.SliceStable(res.Failures, func(i, j int) bool { return len(res.Failures[i].Input) < len(res.Failures[j].Input) })
	b, _ := json.MarshalIndent(res, "", " ")
	os.WriteFile(out, b, 0o644)
}

// caseTimeout bounds one oracle input or suite case: the implementation is total (C11),
// so a case that is still running after it is reported as non-termination. A goroutine
// cannot be killed: the caller stops after the first timeout and the process exits.
const caseTimeout = 60 * time.Second

var hung bool

func safeCheck(o *oracle, in string, dist map[string]int) (detail, sig, class string) {
	type res struct{ detail, sig, class string }
	local := map[string]int{} // merged only when the call returns: a hung call may keep writing
	done := make(chan res, 1)
	go func() {
		defer func() {
			if r := recover(); r != nil {
				done <- res{"panic in implementation", "panic", ""}
			}
		}()
		d, s, c := o.check(in, local)
		done <- res{d, s, c}
	}()
	select {
	case r := <-done:
		for k, v := range local {
			dist[k] += v
		}
		return r.detail, r.sig, r.class
	case <-time.After(caseTimeout):
		hung = true
		return fmt.Sprintf("the implementation did not terminate within %v on this input", caseTimeout), "timeout", ""
	}
}
