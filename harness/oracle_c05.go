package main

import (
	"fmt"
	"sort"
	"strconv"
	"strings"

	"github.com/xjslang/xjs/ast"
	"github.com/xjslang/xjs/lexer"
	"github.com/xjslang/xjs/parser"
	"github.com/xjslang/xjs/token"
)

// Direct oracle for C05 (custom operators and token types), search support.
// input lines:
//   "nb <k> <form> <ophex|-> <k2>"  one registered infix operator '^' at level k next to one
//                                   neighbour (see c05Neighbour); k2 = level of a second registered
//                                   infix operator '#' (form reg2), else 0
//   "tree <seed>"                   random trees mixing built-in operators with 1-3 registered infix
//                                   operators (random levels), a registered prefix and postfix operator,
//                                   rendered by the reference unparser
//   "hist <seed>"                   a history of RegisterTokenType / Register{Prefix,Infix,Postfix}Operator
//                                   calls on one builder
// '^' '#' '@' '~' '?' lex as ILLEGAL and are retagged to the dynamic types 1000..1004 by token interceptors.

func init() {
	oracles["C05"] = &oracle{
		rule:  "nb: every level 1..13 x every built-in binary / assignment operator on either side, built-in prefix, postfix, call, member, index on either side, the operator itself, a second registered operator at every level; registered prefix '~' and postfix '?' next to every built-in operator class. Expected tree by level: built-in levels || 3, && 4, == != 5, < > <= >= 6, + - 7, * / % 8, prefix 9, postfix ++ -- 10, call 11, member/index 12, assignment 2 (right-associative: its right side takes every operator of level >= 2); the registered infix operator is left-associative (left operand level >= k, right operand level > k); registered prefix = level 9, registered postfix = call-level suffix (11). tree: shapes from the reference unparser with the registered levels, explicit parentheses added only where the text would be ambiguous (assignment left of a level-2 operator, prefix operator next to a level-9 operator) or where the unparser files member/index under level 11 instead of 12; hist: 4-14 calls over 9 names (with repeats) and built-in + dynamic token types: ids stable per name, pairwise distinct, >= 1000 and outside the built-in range; a call for a token that has the role already (built-in: prefix ! - ++ --, infix the 13 binary and 3 assignment operators, postfix ++ --; or registered earlier on this builder) must return an error; after every refused call a parser built from the builder must behave like one built just before it on 12 probe sources (so parsers are built between the registrations); at the end the builder must behave, on the same sources, like a fresh builder that receives the accepted registrations with no Build in between. Non-trivial = registration accepted and operator present in the source (nb/tree), at least one refused call (hist); distinct by (input, outcome)",
		gen:   genC05,
		check: countFailures(checkC05),
	}
}

var c05BinOps = []string{"||", "&&", "==", "!=", "<", ">", "<=", ">=", "+", "-", "*", "/", "%"}
var c05AsgOps = []string{"=", "+=", "-="}

func genC05(r *rng, n int, tier string) []string {
	var out []string
	add := func(k int, form, op string, k2 int) {
		out = append(out, fmt.Sprintf("nb %d %s %s %d", k, form, hx(op), k2))
	}
	for k := 1; k <= 13; k++ {
		for _, op := range append(append([]string{}, c05BinOps...), c05AsgOps...) {
			add(k, "R", op, 0)
			add(k, "L", op, 0)
		}
		for _, op := range []string{"-", "!", "++", "--"} {
			add(k, "preL", op, 0)
			add(k, "preR", op, 0)
		}
		for _, op := range []string{"++", "--"} {
			add(k, "postR", op, 0)
			add(k, "postL", op, 0)
		}
		for _, f := range []string{"alone", "callR", "callL", "memR", "memL", "idxR", "idxL", "self", "upL", "upR", "qR", "qL"} {
			add(k, f, "", 0)
		}
		for k2 := 1; k2 <= 13; k2++ {
			add(k, "reg2", "", k2)
		}
	}
	for _, op := range c05BinOps {
		add(7, "upBin", op, 0)
		add(7, "upBinR", op, 0)
		add(7, "qBin", op, 0)
		add(7, "qBinL", op, 0)
	}
	for _, f := range []string{"upPost", "upMem", "upIdx", "upCall", "upUn", "unUp", "upUp", "qMem", "qMem2", "qIdx", "qCall", "qCall2", "qUn", "qInc", "incQ", "qq", "qUp"} {
		add(7, f, "", 0)
	}
	for i := 0; i < n*7/10; i++ {
		out = append(out, fmt.Sprintf("tree %d", r.next()%(1<<40)))
	}
	for i := 0; i < n*3/10; i++ {
		out = append(out, fmt.Sprintf("hist %d", r.next()%(1<<40)))
	}
	return out
}

// ---- neighbour cases ----

func c05Neighbour(k int, form, op string, k2 int) (src string, want *shape, undetermined bool) {
	id := func(s string) *shape { return sh("id", s) }
	a, b, c := id("a"), id("b"), id("c")
	pow := func(l, r *shape) *shape { return sh("bin", "^", l, r) }
	switch form {
	case "R": // a ^ b OP c
		src = "a ^ b " + op + " c"
		if m, ok := opLevel[op]; ok {
			if m > k {
				return src, pow(a, sh("bin", op, b, c)), false
			}
			return src, sh("bin", op, pow(a, b), c), false
		}
		if k < lvAssign {
			return src, pow(a, sh("asg", op, b, c)), false
		}
		return src, sh("asg", op, pow(a, b), c), false
	case "L": // a OP b ^ c
		src = "a " + op + " b ^ c"
		if m, ok := opLevel[op]; ok {
			if k > m {
				return src, sh("bin", op, a, pow(b, c)), false
			}
			return src, pow(sh("bin", op, a, b), c), false
		}
		if k >= lvAssign {
			return src, sh("asg", op, a, pow(b, c)), false
		}
		return src, pow(sh("asg", op, a, b), c), false
	case "preL": // OP a ^ b
		src = op + " a ^ b"
		// k == lvUnary: a prefix operator application has level 9 >= k, so it is the left operand
		// (C05_groups_by_level_x: spine_ge 9 (XPre ..) holds)
		if k > lvUnary {
			return src, sh("un", op, pow(a, b)), false
		}
		return src, pow(sh("un", op, a), b), false
	case "preR": // a ^ OP b
		return "a ^ " + op + " b", pow(a, sh("un", op, b)), false
	case "postR": // a ^ b OP
		src = "a ^ b " + op
		if k >= lvPost {
			return src, sh("post", op, pow(a, b)), false
		}
		return src, pow(a, sh("post", op, b)), false
	case "postL":
		return "a " + op + " ^ b", pow(sh("post", op, a), b), false
	case "callR":
		src = "a ^ b ( c )"
		if k >= 11 {
			return src, sh("call", "", pow(a, b), c), false
		}
		return src, pow(a, sh("call", "", b, c)), false
	case "callL":
		return "a ( c ) ^ b", pow(sh("call", "", a, c), b), false
	case "memR":
		src = "a ^ b . c"
		if k >= 12 {
			return src, sh("mem", "", pow(a, b), c), false
		}
		return src, pow(a, sh("mem", "", b, c)), false
	case "memL":
		src = "a . b ^ c"
		if k > 12 {
			return src, sh("mem", "", a, pow(b, c)), false
		}
		return src, pow(sh("mem", "", a, b), c), false
	case "idxR":
		src = "a ^ b [ c ]"
		if k >= 12 {
			return src, sh("idx", "", pow(a, b), c), false
		}
		return src, pow(a, sh("idx", "", b, c)), false
	case "idxL":
		return "a [ b ] ^ c", pow(sh("idx", "", a, b), c), false
	case "alone":
		return "a ^ b", pow(a, b), false
	case "self":
		return "a ^ b ^ c", pow(pow(a, b), c), false
	case "reg2": // a ^ b # c, '#' at level k2
		src = "a ^ b # c"
		if k2 > k {
			return src, pow(a, sh("bin", "#", b, c)), false
		}
		return src, sh("bin", "#", pow(a, b), c), false
	// registered prefix operator '~'
	case "upL":
		src = "~ a ^ b"
		// k == lvUnary: a prefix operator application has level 9 >= k, so it is the left operand
		// (C05_groups_by_level_x: spine_ge 9 (XPre ..) holds)
		if k > lvUnary {
			return src, sh("un", "~", pow(a, b)), false
		}
		return src, pow(sh("un", "~", a), b), false
	case "upR":
		return "a ^ ~ b", pow(a, sh("un", "~", b)), false
	case "upBin":
		return "~ a " + op + " b", sh("bin", op, sh("un", "~", a), b), false
	case "upBinR":
		return "a " + op + " ~ b", sh("bin", op, a, sh("un", "~", b)), false
	case "upPost":
		return "~ a ++", sh("un", "~", sh("post", "++", a)), false
	case "upMem":
		return "~ a . b", sh("un", "~", sh("mem", "", a, b)), false
	case "upIdx":
		return "~ a [ b ]", sh("un", "~", sh("idx", "", a, b)), false
	case "upCall":
		return "~ a ( c )", sh("un", "~", sh("call", "", a, c)), false
	case "upUn":
		return "~ - a", sh("un", "~", sh("un", "-", a)), false
	case "unUp":
		return "! ~ a", sh("un", "!", sh("un", "~", a)), false
	case "upUp":
		return "~ ~ a", sh("un", "~", sh("un", "~", a)), false
	// registered postfix operator '?'
	case "qR":
		src = "a ^ b ?"
		if k >= 11 {
			return src, sh("post", "?", pow(a, b)), false
		}
		return src, pow(a, sh("post", "?", b)), false
	case "qL":
		return "a ? ^ b", pow(sh("post", "?", a), b), false
	case "qBin":
		return "a " + op + " b ?", sh("bin", op, a, sh("post", "?", b)), false
	case "qBinL":
		return "a ? " + op + " b", sh("bin", op, sh("post", "?", a), b), false
	case "qMem":
		return "a ? . b", sh("mem", "", sh("post", "?", a), b), false
	case "qMem2":
		return "a . b ?", sh("post", "?", sh("mem", "", a, b)), false
	case "qIdx":
		return "a [ b ] ? [ c ]", sh("idx", "", sh("post", "?", sh("idx", "", a, b)), c), false
	case "qCall":
		return "a ? ( c )", sh("call", "", sh("post", "?", a), c), false
	case "qCall2":
		return "a ( c ) ?", sh("post", "?", sh("call", "", a, c)), false
	case "qUn":
		return "- a ?", sh("un", "-", sh("post", "?", a)), false
	case "qInc":
		return "a ? ++", sh("post", "++", sh("post", "?", a)), false
	case "incQ":
		return "a ++ ?", sh("post", "?", sh("post", "++", a)), false
	case "qq":
		return "a ? ?", sh("post", "?", sh("post", "?", a)), false
	case "qUp":
		return "~ a ?", sh("un", "~", sh("post", "?", a)), false
	}
	die("C05: unknown neighbour form %q", form)
	return
}

var c05Types = map[string]int{"^": 1000, "#": 1001, "@": 1002, "~": 1003, "?": 1004}

// c05Pcase configures the real parser: infix symbol -> level, prefix and postfix symbols
func c05Pcase(src string, infix map[string]int, prefix, postfix []string) pcase {
	c := pcase{src: src}
	var syms []string
	for s := range infix {
		syms = append(syms, s)
	}
	sort.Strings(syms)
	for _, s := range syms {
		c.ti = append(c.ti, fmt.Sprintf("g%s=%d", hx(s), c05Types[s]))
		c.inf = append(c.inf, [2]int{c05Types[s], infix[s]})
	}
	for _, s := range prefix {
		c.ti = append(c.ti, fmt.Sprintf("g%s=%d", hx(s), c05Types[s]))
		c.pre = append(c.pre, c05Types[s])
	}
	for _, s := range postfix {
		c.ti = append(c.ti, fmt.Sprintf("g%s=%d", hx(s), c05Types[s]))
		c.post = append(c.post, c05Types[s])
	}
	return c
}

func c05Compare(c pcase, viaInstall bool, want string, what string) string {
	b := buildParser(c, viaInstall)
	for i, e := range b.regErrs {
		if e {
			return fmt.Sprintf("registration %d of a fresh dynamic token refused (%s)", i, what)
		}
	}
	prog, err := b.p.ParseProgram()
	if err != nil {
		return fmt.Sprintf("%s: rejected: %v; source %q; expected %s", what, b.p.Errors()[0].Message, c.src, want)
	}
	if got := canonProgram(prog); got != want {
		return fmt.Sprintf("%s: source %q groups as %s, expected %s", what, c.src, got, want)
	}
	return ""
}

func checkNb(f []string, dist map[string]int) (detail, sig, class string) {
	if len(f) != 5 {
		die("bad C05 nb case %v", f)
	}
	k, _ := strconv.Atoi(f[1])
	form, op := f[2], unhx(f[3])
	k2, _ := strconv.Atoi(f[4])
	src, want, undet := c05Neighbour(k, form, op, k2)
	if undet {
		dist["nb undetermined (prefix operator next to level 9)"]++
		return "", "", ""
	}
	dist[fmt.Sprintf("nb level %d", k)]++
	infix := map[string]int{}
	if strings.Contains(src, "^") {
		infix["^"] = k
	}
	if strings.Contains(src, "#") {
		infix["#"] = k2
	}
	var pre, post []string
	if strings.Contains(src, "~") {
		pre = []string{"~"}
	}
	if strings.Contains(src, "?") {
		post = []string{"?"}
	}
	what := fmt.Sprintf("'^' registered at level %d", k)
	if form == "reg2" {
		what += fmt.Sprintf(", '#' at level %d", k2)
	}
	if len(infix) == 0 {
		what = "registered prefix '~' / postfix '?'"
	}
	d := c05Compare(c05Pcase(src, infix, pre, post), (k+len(src))%2 == 0, progCanon([]*shape{sh("es", "", want)}), what)
	// known finding: an infix operator registered at level 1 (= LOWEST) is never applied
	if d != "" && ((infix["^"] == 1 && strings.Contains(src, "^")) || (infix["#"] == 1 && strings.Contains(src, "#"))) {
		class = "infix-level-1-never-binds"
	}
	return d, form + ":" + src, class
}

// ---- random trees ----

// c05Disambiguate adds explicit parentheses where the rendered text would have two readings
// under the level rule or where the unparser's level table differs from the one in the rule.
func c05Disambiguate(n *shape, extra map[string]int) *shape {
	if n == nil {
		return nil
	}
	for i, kid := range n.kids {
		n.kids[i] = c05Disambiguate(kid, extra)
	}
	lvlOf := func(s *shape) int {
		if s != nil && s.k == "bin" {
			if l, ok := extra[s.s]; ok {
				return l
			}
		}
		return -1
	}
	wrap := func(i int) { n.kids[i] = sh("grp", "", n.kids[i]) }
	switch n.k {
	case "bin":
		if k := lvlOf(n); k >= 0 {
			if k == lvAssign && n.kids[0].k == "asg" {
				wrap(0)
			}
			if k == lvUnary && n.kids[0].k == "un" {
				wrap(0)
			}
		}
	case "un":
		if lvlOf(n.kids[0]) == lvUnary {
			wrap(0)
		}
	case "mem", "idx":
		if lvlOf(n.kids[0]) == 11 {
			wrap(0)
		}
	}
	return n
}

func shapeHas(n *shape, pred func(*shape) bool) bool {
	if n == nil {
		return false
	}
	if pred(n) {
		return true
	}
	for _, k := range n.kids {
		if shapeHas(k, pred) {
			return true
		}
	}
	return false
}

func c05Tree(seed uint64) (stmts []*shape, txt string, infix map[string]int, pre, post []string) {
	r := newRng(seed, "c05tree")
	infix = map[string]int{}
	for i, n := 0, 1+r.intn(3); i < n; i++ {
		infix[[]string{"^", "#", "@"}[i]] = 1 + r.intn(13)
	}
	if r.chance(1, 2) {
		pre = []string{"~"}
	}
	if r.chance(1, 2) {
		post = []string{"?"}
	}
	g := &shapeGen{r: r, extra: infix, preOps: pre, postOps: post}
	n := 1 + r.intn(2)
	for i := 0; i < n; i++ {
		var s *shape
		if r.chance(3, 4) {
			s = sh("es", "", g.expr(2+r.intn(3)))
		} else {
			s = g.stmt(2 + r.intn(2))
		}
		stmts = append(stmts, c05Disambiguate(s, infix))
	}
	red := 0
	if r.chance(1, 4) {
		red = 4 + r.intn(8)
	}
	txt, _ = renderProgram(r, stmts, r.intn(3), r.intn(3), false, red, infix)
	return
}

func checkTree(seed uint64, dist map[string]int) (detail, sig, class string) {
	stmts, txt, infix, pre, post := c05Tree(seed)
	used := map[string]bool{}
	for _, s := range stmts {
		shapeHas(s, func(n *shape) bool {
			if n.k == "bin" || n.k == "un" || n.k == "post" {
				if _, ok := c05Types[n.s]; ok {
					used[n.s] = true
				}
			}
			return false
		})
	}
	var lv []string
	lvl1 := false
	for _, s := range []string{"^", "#", "@"} {
		if l, ok := infix[s]; ok {
			lv = append(lv, fmt.Sprintf("%s=%d", s, l))
			if used[s] {
				dist[fmt.Sprintf("tree: infix level %d used", l)]++
				if l == 1 {
					lvl1 = true
				}
			}
		}
	}
	if used["~"] {
		dist["tree: registered prefix used"]++
	}
	if used["?"] {
		dist["tree: registered postfix used"]++
	}
	what := "infix " + strings.Join(lv, " ")
	if len(pre) > 0 {
		what += " prefix ~"
	}
	if len(post) > 0 {
		what += " postfix ?"
	}
	d := c05Compare(c05Pcase(txt, infix, pre, post), seed%2 == 0, progCanon(stmts), what)
	if d != "" && lvl1 {
		// one canonical text (the failure list is deduplicated by text and capped): the minimal
		// case is "nb 1 alone - 0"
		dist["tree: failing with a level-1 operator in the source"]++
		d = "[an operator registered at level 1 occurs in the source; it is never applied, cf. input 'nb 1 alone - 0'] the parse differs from the expected tree"
		class = "infix-level-1-never-binds"
	}
	if len(used) > 0 {
		sig = "tree:" + txt
	}
	return d, sig, class
}

// ---- registration histories ----

var c05Names = []string{"pow", "hash", "at", "tilde", "quest", "x", "+", "let", ""}
var c05Syms = map[string]string{"pow": "^", "hash": "#", "at": "@", "tilde": "~", "quest": "?"}

var c05ProbeSources = []string{
	"a ^ b # c @ d", "~ a ?", "a + b * c - - d", "x = a ^ b ^ c ; y ? # z", "~ ~ a ^ ( b ) ?", "a ++ ; -- b ; ! c",
	"f ( a ^ b , ~ c ) . d [ e # 1 ]", "+ a", "a !", "a * * b", "a @ ; # b", "a < b == c && d || e % f / g",
}

func builtinRole(role byte, ty token.Type) bool {
	switch role {
	case 'P':
		switch ty {
		case token.NOT, token.MINUS, token.INCREMENT, token.DECREMENT:
			return true
		}
	case 'I':
		switch ty {
		case token.PLUS, token.MINUS, token.MULTIPLY, token.DIVIDE, token.MODULO, token.EQ, token.NOT_EQ, token.LT, token.GT, token.LTE, token.GTE,
			token.AND, token.OR, token.ASSIGN, token.PLUS_ASSIGN, token.MINUS_ASSIGN:
			return true
		}
	case 'O':
		switch ty {
		case token.INCREMENT, token.DECREMENT:
			return true
		}
	}
	return false
}

func checkHist(seed uint64, dist map[string]int) (detail, sig string) {
	r := newRng(seed, "c05hist")
	lb := lexer.NewBuilder()
	retag := map[string]token.Type{}
	lb.UseTokenInterceptor(func(l *lexer.Lexer, next func() token.Token) token.Token {
		t := next()
		if t.Type == token.ILLEGAL {
			if ty, ok := retag[t.Literal]; ok {
				t.Type = ty
			}
		}
		return t
	})
	pb := parser.NewBuilder(lb)
	tolerantMode := r.chance(1, 3)
	if tolerantMode {
		pb.WithTolerantMode(true)
	}
	observeOn := func(pb *parser.Builder) string {
		var parts []string
		for _, src := range c05ProbeSources {
			p := pb.Build(src)
			prog, err := p.ParseProgram()
			var es []string
			for _, e := range p.Errors() {
				es = append(es, errKind(e))
			}
			parts = append(parts, sxStmts(prog.Statements)+"|"+strings.Join(es, ",")+"|"+b01(err != nil))
		}
		return strings.Join(parts, "\n")
	}
	observe := func() string { return observeOn(pb) }
	type regOp struct {
		role byte
		ty   token.Type
		prec int
	}
	var acceptedOps []regOp
	var nameOrder []string
	ids := map[string]token.Type{}
	roles := map[string]bool{} // role byte + type
	var log []string
	refused, accepted := 0, 0
	register := func(name string) (token.Type, string) {
		ty := lb.RegisterTokenType(name)
		log = append(log, fmt.Sprintf("T(%q)=%d", name, int(ty)))
		if old, ok := ids[name]; ok {
			if old != ty {
				return ty, fmt.Sprintf("RegisterTokenType(%q) returned %d, earlier %d; history %s", name, int(ty), int(old), strings.Join(log, " "))
			}
			return ty, ""
		}
		for other, oty := range ids {
			if oty == ty {
				return ty, fmt.Sprintf("RegisterTokenType(%q) returned %d, the id of %q; history %s", name, int(ty), other, strings.Join(log, " "))
			}
		}
		if int(ty) < int(token.DYNAMIC_TOKENS_START) || (int(ty) >= 0 && int(ty) <= int(token.NULL)) {
			return ty, fmt.Sprintf("RegisterTokenType(%q) returned %d, inside the built-in range; history %s", name, int(ty), strings.Join(log, " "))
		}
		ids[name] = ty
		nameOrder = append(nameOrder, name)
		if sym, ok := c05Syms[name]; ok {
			retag[sym] = ty
		}
		return ty, ""
	}
	steps := 4 + r.intn(11)
	for i := 0; i < steps; i++ {
		if r.chance(1, 3) {
			if _, d := register(pick(r, c05Names)); d != "" {
				return d, "ids"
			}
			continue
		}
		// an operator registration on a built-in or dynamic token
		var ty token.Type
		if r.chance(1, 3) {
			ty = token.Type(pick(r, []int{10, 11, 12, 13, 7, 8, 15, 21, 22, 23, 24, 25, 2, 3, 28, 29, 30, 34, 32, 36, 37, 0}))
		} else {
			var d string
			if ty, d = register(pick(r, c05Names[:6])); d != "" {
				return d, "ids"
			}
		}
		role := pick(r, []byte{'P', 'I', 'I', 'O'})
		key := fmt.Sprintf("%c%d", role, int(ty))
		before := observe()
		var err error
		viaPlugin := r.chance(1, 3)
		prec := 1 + r.intn(13)
		do := func(pb *parser.Builder) {
			switch role {
			case 'P':
				err = pb.RegisterPrefixOperator(ty, func(tok token.Token, right func() ast.Expression) ast.Expression {
					return &ast.UnaryExpression{Token: tok, Operator: tok.Literal, Right: right()}
				})
			case 'I':
				err = pb.RegisterInfixOperator(ty, prec, func(tok token.Token, left ast.Expression, right func() ast.Expression) ast.Expression {
					return &ast.BinaryExpression{Token: tok, Left: left, Operator: tok.Literal, Right: right()}
				})
			case 'O':
				err = pb.RegisterPostfixOperator(ty, func(tok token.Token, left ast.Expression) ast.Expression {
					return &ast.PostfixExpression{Token: tok, Left: left, Operator: tok.Literal}
				})
			}
		}
		if viaPlugin {
			pb.Install(do)
		} else {
			do(pb)
		}
		log = append(log, fmt.Sprintf("%c(%d)->%v", role, int(ty), err != nil))
		has := roles[key] || builtinRole(role, ty)
		if has && err == nil {
			why := "registered earlier on this builder"
			if builtinRole(role, ty) {
				why = "built-in"
			}
			return fmt.Sprintf("registration of role %c for token type %d, which has that role already (%s), returned no error; history %s", role, int(ty), why, strings.Join(log, " ")), "dup"
		}
		if err != nil {
			refused++
			if has {
				dist["hist: refused, role present"]++
			} else {
				dist["hist: refused, token has another built-in function (not required)"]++
			}
			if after := observe(); after != before {
				return fmt.Sprintf("refused registration (role %c, token type %d) changed the parser; history %s; before %q after %q", role, int(ty), strings.Join(log, " "), before, after), "changed"
			}
		} else {
			accepted++
			dist["hist: accepted"]++
			roles[key] = true
			acceptedOps = append(acceptedOps, regOp{role, ty, prec})
		}
	}
	// the parsers of this builder (built between the registrations, and now) behave like the
	// parsers of a fresh builder that receives the accepted registrations with no Build in between
	{
		lb2 := lexer.NewBuilder()
		retag2 := map[string]token.Type{}
		lb2.UseTokenInterceptor(func(l *lexer.Lexer, next func() token.Token) token.Token {
			t := next()
			if t.Type == token.ILLEGAL {
				if ty, ok := retag2[t.Literal]; ok {
					t.Type = ty
				}
			}
			return t
		})
		for _, name := range nameOrder {
			ty := lb2.RegisterTokenType(name)
			if sym, ok := c05Syms[name]; ok {
				retag2[sym] = ty
			}
		}
		pb2 := parser.NewBuilder(lb2)
		if tolerantMode {
			pb2.WithTolerantMode(true)
		}
		for _, o := range acceptedOps {
			var err error
			switch o.role {
			case 'P':
				err = pb2.RegisterPrefixOperator(o.ty, func(tok token.Token, right func() ast.Expression) ast.Expression {
					return &ast.UnaryExpression{Token: tok, Operator: tok.Literal, Right: right()}
				})
			case 'I':
				err = pb2.RegisterInfixOperator(o.ty, o.prec, func(tok token.Token, left ast.Expression, right func() ast.Expression) ast.Expression {
					return &ast.BinaryExpression{Token: tok, Left: left, Operator: tok.Literal, Right: right()}
				})
			case 'O':
				err = pb2.RegisterPostfixOperator(o.ty, func(tok token.Token, left ast.Expression) ast.Expression {
					return &ast.PostfixExpression{Token: tok, Left: left, Operator: tok.Literal}
				})
			}
			if err != nil {
				return fmt.Sprintf("replaying the accepted registrations on a fresh builder: role %c for token type %d refused (%v); history %s", o.role, int(o.ty), err, strings.Join(log, " ")), "replay"
			}
		}
		dist["hist: compared with a fresh builder (no Build between registrations)"]++
		if a, b := observe(), observeOn(pb2); a != b {
			return fmt.Sprintf("a builder that built parsers between its registrations behaves differently from a fresh builder with the same accepted registrations; history %s; this builder %q fresh builder %q", strings.Join(log, " "), a, b), "late"
		}
	}
	// ids are still stable after all operator registrations and builds
	for name, ty := range ids {
		if got := lb.RegisterTokenType(name); got != ty {
			return fmt.Sprintf("RegisterTokenType(%q) returned %d at the end, earlier %d; history %s", name, int(got), int(ty), strings.Join(log, " ")), "ids"
		}
	}
	if refused > 0 || accepted > 0 {
		sig = fmt.Sprintf("hist refused=%d accepted=%d names=%d", refused, accepted, len(ids))
	}
	return "", sig
}

func checkC05(line string, dist map[string]int) (detail, sig, class string) {
	f := strings.Fields(line)
	if len(f) < 2 {
		die("bad C05 case %q", line)
	}
	dist["kind "+f[0]]++
	var seed uint64
	fmt.Sscan(f[1], &seed)
	switch f[0] {
	case "nb":
		detail, sig, class = checkNb(f, dist)
	case "tree":
		detail, sig, class = checkTree(seed, dist)
	case "hist":
		detail, sig = checkHist(seed, dist)
	default:
		die("bad C05 kind %q", f[0])
	}
	return detail, sig, class
}
