package main

import (
	"fmt"
	"os"
	"strconv"
	"strings"

	"github.com/xjslang/xjs/ast"
	"github.com/xjslang/xjs/token"
)

func tokenKeyword(s string) (token.Type, bool) { t, ok := token.Keywords[s]; return t, ok }

// C01: transpilation preserves behaviour. A typed generator builds TERMINATING programs
// of the subset as shape trees; the reference unparser renders them in a random layout;
// node runs the source text and the code emitted in every compiler configuration; the
// printed values and the completion type must agree.
//
// input line: "<seed>" (program, layout and everything else derive from it), or
// "s <hexsrc>" (an explicit source text).

func init() {
	oracles["C01"] = &oracle{
		rule:  "terminating programs from a typed generator (let, function declarations/expressions, closures, bounded recursion, return, if/else with and without braces, bounded while/for in 7+4 shapes, blocks, shadowing, all unary/binary/assignment/postfix operators on variables, members and elements, calls, member/index access, array/object/string/number/backtick literals with ${x}, occasional uncaught ReferenceError/TypeError) x layouts of the reference unparser (tight/spaced/wild with comments and line breaks; ';' / ASI / mixed; redundant parentheses; both quote styles) x {compact, compact+map, pretty x indent in {2sp, tab, empty, 0..8 spaces} x semicolons on/off x with/without map}; run by node in fresh contexts (200ms timeout); non-trivial = the source prints at least one value; distinct by (seed, output count, completion)",
		gen:   genC01,
		check: checkC01,
	}
}

// fixed sources checked before the generated ones
var c01Corpus = []string{
	"console.log(1 + 2 * 3, (1 + 2) * 3, 1 - (2 - 3), - -1, !(1 < 2))",
	"let a = 1\n`x`.length\nconsole.log(a)", // JS: tagged template 1`x` (TypeError); xjs: two statements
	"console.log(1 .toString())",
	"if (true) console.log(1)\nelse console.log(2)",
	"let s = `a \nb`\nconsole.log(s)",
	"let x = 1\n;(function () { console.log(x) })()\n;[1, 2].length",
	"let i = 0\nlet j = 1\ni\n++\nj\nconsole.log(i, j)",
	"function f() {\n  return\n  1\n}\nconsole.log(f())",
	"let o = {a: 1, 'b c': 2, 3: 4}; o.a++; --o['b c']; o[3] += 1; console.log(o)",
	// restricted productions and statement starts that could continue the previous line
	"let x = 5\nfunction f() {\n  return\n  -x\n}\nconsole.log(f())",
	"function g() {\n  return\n  {}\n}\nconsole.log(g())",
	"let y = 2\nfunction h() {\n  return\n  +y\n}\nconsole.log(h())",
	"function k() {\n  return\n  [1]\n}\nconsole.log(k())",
	"function m() {\n  return\n  (1)\n}\nconsole.log(m())",
	"let a = 1\nlet b = 2\nlet t\n-a\nconsole.log(t, a)\n{ b }\nconsole.log(b)",
	"function n() { return `p\nq` }\nconsole.log(n())",
	"let i = 1\nlet s = `u\nv`\n++i\nconsole.log(s, i)",
	// lexical corners where xjs reads the text differently from JavaScript (recorded findings)
	"'use\\x20strict'; undeclared = 1; console.log(undeclared)",
	"function q() { \"use\\u0020strict\"; undeclared2 = 2; return undeclared2 }\nconsole.log(q())",
	"let n = 0\n// note\rn = 1\nconsole.log(n)",
}

func genC01(r *rng, n int, tier string) []string {
	var out []string
	for _, s := range c01Corpus {
		out = append(out, "s "+hx(s))
	}
	return append(out, genSeeds(r, n, tier)...)
}

type c01Type int

const (
	tNum c01Type = iota
	tStr
	tBool
	tArr // array of numbers
	tObj // object with known fields
	tFn
	tAny // undefined / unknown
)

type c01Field struct {
	key string // property name
	ty  c01Type
}

type c01Fn struct {
	params  []c01Type
	ret     c01Type
	retFn   *c01Fn // ret == tFn
	cost    int
	litArgs bool // arguments must be small literals (bounded recursion)
}

type c01Var struct {
	name   string
	ty     c01Type
	ro     bool // loop counter: never written by generated code
	fields []c01Field
	fn     *c01Fn
	n      int // tArr: initial length
}

type c01Scope struct{ vars []*c01Var }

type c01Gen struct {
	r       *rng
	scopes  []*c01Scope
	counter int
	mult    int // product of the bounds of the enclosing loops (per call of the current function)
	cost    int // estimated steps of the current function body / top level
	fnDepth int
	rets    []c01Type // return types of the enclosing functions
	retFns  []*c01Fn
	budget  int // statements left
	errUsed bool
	loopDep int
	hazards bool // may statements begin with ( [ - ` (the known no-semicolon findings)?
}

var c01Names = []string{"a", "b", "c", "x", "y", "foo", "bar", "n", "obj", "arr", "f", "g", "k", "m", "s", "t", "val", "acc", "tmp", "$v", "_t", "i", "j"}

func (g *c01Gen) fresh() string {
	g.counter++
	return pick(g.r, c01Names) + strconv.Itoa(g.counter)
}

func (g *c01Gen) push()                 { g.scopes = append(g.scopes, &c01Scope{}) }
func (g *c01Gen) pop()                  { g.scopes = g.scopes[:len(g.scopes)-1] }
func (g *c01Gen) declare(v *c01Var)     { s := g.scopes[len(g.scopes)-1]; s.vars = append(s.vars, v) }
func id(name string) *shape             { return sh("id", name) }
func num(n int) *shape                  { return sh("num", strconv.Itoa(n)) }
func call(f *shape, a ...*shape) *shape { return sh("call", "", append([]*shape{f}, a...)...) }
func mem(o *shape, name string) *shape  { return sh("mem", "", o, id(name)) }
func idx(o, i *shape) *shape            { return sh("idx", "", o, i) }
func bin(op string, a, b *shape) *shape { return sh("bin", op, a, b) }
func es(e *shape) *shape                { return sh("es", "", e) }
func blk(s ...*shape) *shape            { return sh("blk", "", s...) }
func logCall(a ...*shape) *shape        { return es(call(mem(id("console"), "log"), a...)) }

// visible variables (innermost declaration of a name wins)
func (g *c01Gen) visible(pred func(*c01Var) bool) []*c01Var {
	seen := map[string]bool{}
	var out []*c01Var
	for i := len(g.scopes) - 1; i >= 0; i-- {
		vs := g.scopes[i].vars
		for j := len(vs) - 1; j >= 0; j-- {
			v := vs[j]
			if seen[v.name] {
				continue
			}
			seen[v.name] = true
			if pred(v) {
				out = append(out, v)
			}
		}
	}
	return out
}

func (g *c01Gen) varOf(ty c01Type, writable bool) *c01Var {
	vs := g.visible(func(v *c01Var) bool { return v.ty == ty && (!writable || !v.ro) })
	if len(vs) == 0 {
		return nil
	}
	return pick(g.r, vs)
}

// ---- literals ----

func (g *c01Gen) numLit() *shape {
	r := g.r
	if r.chance(1, 8) {
		return sh("num", pick(r, []string{"0x1F", "0b101", "0o17", "1.5", "2e3", "1e-2", "0.25", "100", "0XfF", "3.0", "1E2", "12.50", "7e0"}))
	}
	return num(r.intn(10))
}

var c01StrUnits = []string{"a", "b", "xy", " ", "Z", "0", "-", "é", "✓", "😀", `\n`, `\t`, `\\`, `\x41`, `é`, `\u{1F600}`, `A`, `\0`, "//", "/*", ";", "${x}", "`"}

func (g *c01Gen) strLit() *shape {
	r := g.r
	if r.chance(1, 12) {
		return sh("str", c07RandString(r))
	}
	q := pick(r, []string{`"`, "'"})
	var b strings.Builder
	b.WriteString(q)
	n := r.intn(4)
	for i := 0; i < n; i++ {
		switch r.intn(8) {
		case 0: // the other quote, raw
			if q == `"` {
				b.WriteString("'")
			} else {
				b.WriteString(`"`)
			}
		case 1: // an escaped quote
			b.WriteString(pick(r, []string{`\"`, `\'`}))
		case 2:
			if r.chance(1, 6) {
				b.WriteString(pick(r, []string{"\\\n", "\\\r\n"}))
				continue
			}
			fallthrough
		default:
			b.WriteString(pick(r, c01StrUnits))
		}
	}
	b.WriteString(q)
	return sh("str", b.String())
}

func (g *c01Gen) rawLit() *shape {
	r := g.r
	var b strings.Builder
	b.WriteString("`")
	n := r.intn(5)
	for i := 0; i < n; i++ {
		switch r.intn(12) {
		case 0, 1:
			vs := g.visible(func(v *c01Var) bool { return v.ty == tNum || v.ty == tStr || v.ty == tBool })
			if len(vs) > 0 {
				b.WriteString("${" + pick(r, vs).name + "}")
				continue
			}
			b.WriteString("$ ")
		case 2:
			b.WriteString("\\`")
		case 3:
			b.WriteString(pick(r, []string{`\\`, `\n`, `\t`, `\x41`, `\u{41}`, `\$`, `\${`}))
		case 4:
			b.WriteString(pick(r, []string{"\n", "\n", "\r\n", "\n  ", "\n\t", "\n\n", "\n\n\n", "\n\n\n\n", "\n\t\n\n"}))
		case 5:
			if r.chance(1, 4) {
				b.WriteString(pick(r, []string{" \n", "  \n", "x \n", "\n \n"})) // trailing blanks: known finding
			} else {
				b.WriteString("\t\n")
			}
		case 6:
			b.WriteString(pick(r, []string{"'", `"`, "$ ", "{", "}", "//", "/*", ";", "$$ "}))
		default:
			b.WriteString(pick(r, []string{"a", "bc", " ", "d e", "é", "😀", "1", "="}))
		}
	}
	b.WriteString("`")
	return sh("raw", b.String())
}

// ---- expressions ----

func (g *c01Gen) lvalNum(d int) *shape {
	r := g.r
	switch r.intn(4) {
	case 0:
		if o := g.varOf(tObj, false); o != nil {
			for _, f := range o.fields {
				if f.ty == tNum {
					return g.field(o, f)
				}
			}
		}
	case 1:
		if a := g.varOf(tArr, false); a != nil {
			return idx(id(a.name), num(r.intn(a.n+1)))
		}
	}
	if v := g.varOf(tNum, true); v != nil {
		return id(v.name)
	}
	return nil
}

func isIdentName(s string) bool {
	if s == "" || !isLetterByte(s[0]) {
		return false
	}
	for i := 0; i < len(s); i++ {
		if !isLetterByte(s[i]) && !(s[i] >= '0' && s[i] <= '9') {
			return false
		}
	}
	return true
}

func plainKey(key string) bool {
	_, kw := tokenKeyword(key)
	return isIdentName(key) && !kw
}

func (g *c01Gen) field(o *c01Var, f c01Field) *shape {
	if plainKey(f.key) && !g.r.chance(1, 4) {
		return mem(id(o.name), f.key)
	}
	if _, err := strconv.Atoi(f.key); err == nil && g.r.chance(1, 2) {
		return idx(id(o.name), sh("num", f.key))
	}
	q := pick(g.r, []string{`"`, "'"})
	return idx(id(o.name), sh("str", q+f.key+q))
}

func (g *c01Gen) fixQuote(s *shape) *shape { return s }

func (g *c01Gen) callOf(ret c01Type, d int) *shape {
	vs := g.visible(func(v *c01Var) bool {
		return v.ty == tFn && v.fn.ret == ret && g.cost+g.mult*v.fn.cost <= 4000
	})
	if len(vs) == 0 {
		return nil
	}
	v := pick(g.r, vs)
	return g.callVar(v, d)
}

func (g *c01Gen) callVar(v *c01Var, d int) *shape {
	args := make([]*shape, len(v.fn.params))
	for i, pt := range v.fn.params {
		if v.fn.litArgs {
			args[i] = num(g.r.intn(6))
		} else {
			args[i] = g.expr(pt, d-1)
		}
	}
	// sometimes one argument too many or too few (undefined parameters are legal)
	if !v.fn.litArgs && g.r.chance(1, 12) {
		if len(args) > 0 && g.r.chance(1, 2) {
			args = args[:len(args)-1]
		} else {
			args = append(args, g.numLit())
		}
	}
	g.cost += g.mult * v.fn.cost
	return call(id(v.name), args...)
}

func (g *c01Gen) expr(ty c01Type, d int) *shape {
	switch ty {
	case tNum:
		return g.num(d)
	case tStr:
		return g.str(d)
	case tBool:
		return g.boolean(d)
	case tArr:
		if v := g.varOf(tArr, false); v != nil && g.r.chance(1, 2) {
			return id(v.name)
		}
		return g.arrLit(d)
	}
	return g.anyPrim(d)
}

func (g *c01Gen) arrLit(d int) *shape {
	n := g.r.intn(4)
	kids := make([]*shape, n)
	for i := range kids {
		kids[i] = g.num(d - 1)
	}
	return sh("arr", "", kids...)
}

func (g *c01Gen) num(d int) *shape {
	r := g.r
	if d <= 0 {
		if v := g.varOf(tNum, false); v != nil && r.chance(2, 3) {
			return id(v.name)
		}
		return g.numLit()
	}
	switch r.intn(20) {
	case 0, 1, 2, 3:
		return bin(pick(r, []string{"+", "-", "*", "/", "%", "+", "-", "*"}), g.num(d-1), g.num(d-1))
	case 4:
		return sh("un", "-", g.num(d-1))
	case 5:
		if lv := g.lvalNum(d); lv != nil {
			return sh("un", pick(r, []string{"++", "--"}), g.fixQuote(lv))
		}
	case 6:
		if lv := g.lvalNum(d); lv != nil {
			return sh("post", pick(r, []string{"++", "--"}), g.fixQuote(lv))
		}
	case 7:
		if lv := g.lvalNum(d); lv != nil {
			return sh("asg", pick(r, []string{"=", "+=", "-="}), g.fixQuote(lv), g.num(d-1))
		}
	case 8, 9:
		if c := g.callOf(tNum, d); c != nil {
			return c
		}
	case 10:
		if a := g.varOf(tArr, false); a != nil {
			if r.chance(1, 3) {
				return mem(id(a.name), "length")
			}
			if r.chance(1, 4) {
				return idx(id(a.name), g.num(0))
			}
			return idx(id(a.name), num(r.intn(a.n+1)))
		}
	case 11:
		if o := g.varOf(tObj, false); o != nil {
			for _, f := range o.fields {
				if f.ty == tNum {
					return g.fixQuote(g.field(o, f))
				}
			}
		}
	case 12:
		return mem(g.strAtom(d-1), "length")
	case 13:
		return sh("grp", "", g.num(d-1))
	case 14:
		switch r.intn(4) {
		case 0:
			return call(mem(id("Math"), pick(r, []string{"max", "min"})), g.num(d-1), g.num(d-1))
		case 1:
			return call(mem(id("Math"), pick(r, []string{"floor", "abs"})), g.num(d-1))
		case 2:
			return call(mem(g.strAtom(d-1), "indexOf"), g.str(0))
		case 3:
			if a := g.varOf(tArr, false); a != nil {
				return call(mem(id(a.name), "push"), g.num(d-1))
			}
		}
	case 15:
		// arithmetic on mixed operands: string * number etc.
		return bin(pick(r, []string{"-", "*", "/", "%"}), g.anyPrim(d-1), g.num(d-1))
	}
	if v := g.varOf(tNum, false); v != nil && r.chance(2, 3) {
		return id(v.name)
	}
	return g.numLit()
}

// a string-valued expression that can take a member access without parentheses issues
func (g *c01Gen) strAtom(d int) *shape {
	if v := g.varOf(tStr, false); v != nil && g.r.chance(2, 3) {
		return id(v.name)
	}
	if g.r.chance(1, 3) {
		return sh("grp", "", g.str(d))
	}
	return g.strLit()
}

func (g *c01Gen) str(d int) *shape {
	r := g.r
	if d <= 0 {
		if v := g.varOf(tStr, false); v != nil && r.chance(1, 2) {
			return id(v.name)
		}
		if r.chance(1, 4) {
			return g.rawLit()
		}
		return g.strLit()
	}
	switch r.intn(16) {
	case 0, 1, 2:
		return bin("+", g.str(d-1), g.str(d-1))
	case 3:
		return bin("+", g.str(d-1), g.num(d-1))
	case 4:
		return bin("+", g.num(d-1), g.str(d-1))
	case 5, 6:
		if c := g.callOf(tStr, d); c != nil {
			return c
		}
	case 7:
		if o := g.varOf(tObj, false); o != nil {
			for _, f := range o.fields {
				if f.ty == tStr {
					return g.fixQuote(g.field(o, f))
				}
			}
		}
	case 8:
		switch r.intn(5) {
		case 0:
			return call(mem(g.strAtom(d-1), pick(r, []string{"toUpperCase", "toLowerCase", "trim"})))
		case 1:
			if a := g.varOf(tArr, false); a != nil {
				return call(mem(id(a.name), "join"), g.str(0))
			}
		case 2:
			return call(mem(g.strAtom(d-1), "slice"), num(r.intn(3)), num(r.intn(5)))
		case 3:
			return call(id("String"), g.anyPrim(d-1))
		case 4:
			return call(mem(g.strAtom(d-1), "charAt"), num(r.intn(3)))
		}
	case 9:
		if v := g.varOf(tStr, true); v != nil {
			return sh("asg", pick(r, []string{"=", "+="}), id(v.name), g.str(d-1))
		}
	case 10:
		return g.rawLit()
	case 11:
		return sh("grp", "", g.str(d-1))
	case 12:
		if g.hazards && r.chance(1, 4) {
			// a decimal literal followed by a member access: the printer has to keep the blank
			// (formerly the recorded finding KF9 for C01, repaired)
			return sh("id", fmt.Sprintf("%d .toString()", r.intn(100)))
		}
		if r.chance(1, 4) {
			// literals that may take a member access directly
			return sh("id", pick(r, []string{"1.5.toFixed(1)", "0x10.toString()", "1e3.toString()", "2.5 .toString()", "0b11.toString()", "7.0.toString()", "12 ['toString']()"}))
		}
		return call(mem(sh("grp", "", g.num(d-1)), "toString"))
	}
	if v := g.varOf(tStr, false); v != nil && r.chance(2, 3) {
		return id(v.name)
	}
	return g.strLit()
}

func (g *c01Gen) boolean(d int) *shape {
	r := g.r
	if d <= 0 {
		if v := g.varOf(tBool, false); v != nil && r.chance(1, 2) {
			return id(v.name)
		}
		return sh("bool", pick(r, []string{"true", "false"}))
	}
	switch r.intn(14) {
	case 0, 1, 2:
		return bin(pick(r, []string{"<", ">", "<=", ">=", "==", "!="}), g.num(d-1), g.num(d-1))
	case 3:
		return bin(pick(r, []string{"==", "!=", "<", ">="}), g.str(d-1), g.str(d-1))
	case 4:
		return bin(pick(r, []string{"==", "!="}), g.anyPrim(d-1), g.anyPrim(d-1))
	case 5, 6:
		return bin(pick(r, []string{"&&", "||"}), g.boolean(d-1), g.boolean(d-1))
	case 7, 8:
		return sh("un", "!", g.anyPrim(d-1))
	case 9:
		if c := g.callOf(tBool, d); c != nil {
			return c
		}
	case 10:
		if v := g.varOf(tBool, true); v != nil {
			return sh("asg", "=", id(v.name), g.boolean(d-1))
		}
	case 11:
		return sh("grp", "", g.boolean(d-1))
	}
	if v := g.varOf(tBool, false); v != nil && r.chance(2, 3) {
		return id(v.name)
	}
	return sh("bool", pick(r, []string{"true", "false"}))
}

// any value that console.log renders deterministically
func (g *c01Gen) anyPrim(d int) *shape {
	r := g.r
	switch r.intn(12) {
	case 0, 1, 2:
		return g.num(d)
	case 3, 4:
		return g.str(d)
	case 5, 6:
		return g.boolean(d)
	case 7:
		return sh("null", "null")
	case 8:
		return id("undefined")
	case 9:
		if d > 0 {
			// && / || yield one of their operands
			return bin(pick(r, []string{"&&", "||"}), g.anyPrim(d-1), g.anyPrim(d-1))
		}
	case 10:
		if v := g.varOf(pick(r, []c01Type{tArr, tObj}), false); v != nil {
			return id(v.name)
		}
	case 11:
		if c := g.callOf(tAny, d); c != nil {
			return c
		}
	}
	return g.num(d)
}

// ---- statements ----

func (g *c01Gen) letOf(ty c01Type, d int) *shape {
	name := g.fresh()
	v := &c01Var{name: name, ty: ty}
	var init *shape
	switch ty {
	case tArr:
		n := 1 + g.r.intn(4)
		kids := make([]*shape, n)
		for i := range kids {
			kids[i] = g.num(d - 1)
		}
		v.n = n
		init = sh("arr", "", kids...)
	case tObj:
		n := 1 + g.r.intn(4)
		var kids []*shape
		used := map[string]bool{}
		for i := 0; i < n; i++ {
			key := pick(g.r, []string{"a", "b", "k", "len", "x1", "b c", "1", "2", "é", "if", "$", "_"})
			if used[key] {
				continue
			}
			used[key] = true
			fty := pick(g.r, []c01Type{tNum, tNum, tStr, tBool})
			var ks *shape
			switch {
			case plainKey(key) && !g.r.chance(1, 4):
				ks = id(key)
			default:
				if _, err := strconv.Atoi(key); err == nil && g.r.chance(1, 2) {
					ks = sh("num", key)
				} else {
					q := pick(g.r, []string{`"`, "'"})
					ks = sh("str", q+key+q)
				}
			}
			kids = append(kids, ks, g.expr(fty, d-1))
			v.fields = append(v.fields, c01Field{key, fty})
		}
		if len(v.fields) == 0 || g.r.chance(1, 10) {
			kids = nil
			v.fields = nil
		}
		init = sh("obj", "", kids...)
	default:
		init = g.expr(ty, d)
	}
	g.declare(v) // after the initialiser: it must not refer to the variable itself
	return sh("let", name, init)
}

func (g *c01Gen) params(fn *c01Fn) (*shape, []*c01Var) {
	n := g.r.intn(4)
	var names []string
	var vars []*c01Var
	for i := 0; i < n; i++ {
		ty := pick(g.r, []c01Type{tNum, tNum, tStr, tBool})
		name := g.fresh()
		names = append(names, name)
		vars = append(vars, &c01Var{name: name, ty: ty})
		fn.params = append(fn.params, ty)
	}
	return sh("params", strings.Join(names, ",")), vars
}

// function body with its own scope; returns the block and fills fn
func (g *c01Gen) fnBody(fn *c01Fn, vars []*c01Var, depth int) *shape {
	saveMult, saveCost, saveLoop := g.mult, g.cost, g.loopDep
	g.mult, g.cost, g.loopDep = 1, 1, 0
	g.fnDepth++
	g.rets = append(g.rets, fn.ret)
	g.retFns = append(g.retFns, fn.retFn)
	g.push()
	for _, v := range vars {
		g.declare(v)
	}
	stmts := g.stmts(1+g.r.intn(4), depth)
	if fn.ret != tAny || g.r.chance(1, 3) {
		stmts = append(stmts, g.ret(depth))
	}
	g.pop()
	g.rets = g.rets[:len(g.rets)-1]
	g.retFns = g.retFns[:len(g.retFns)-1]
	g.fnDepth--
	fn.cost = g.cost
	g.mult, g.cost, g.loopDep = saveMult, saveCost, saveLoop
	return blk(stmts...)
}

func (g *c01Gen) ret(depth int) *shape {
	ty := g.rets[len(g.rets)-1]
	switch ty {
	case tAny:
		if g.r.chance(1, 2) {
			return sh("ret", "", nil)
		}
		return sh("ret", "", g.anyPrim(1))
	case tFn:
		inner := g.retFns[len(g.retFns)-1]
		return sh("ret", "", g.fnExprOf(inner, depth-1))
	}
	return sh("ret", "", g.expr(ty, 2))
}

// a function expression whose signature is fixed beforehand (closure factories)
func (g *c01Gen) fnExprOf(fn *c01Fn, depth int) *shape {
	var names []string
	var vars []*c01Var
	for _, ty := range fn.params {
		name := g.fresh()
		names = append(names, name)
		vars = append(vars, &c01Var{name: name, ty: ty})
	}
	name := ""
	if g.r.chance(1, 4) {
		name = g.fresh()
	}
	body := g.fnBody(fn, vars, depth)
	return sh("fn", name, sh("params", strings.Join(names, ",")), body)
}

func (g *c01Gen) newFnSig() *c01Fn {
	fn := &c01Fn{ret: pick(g.r, []c01Type{tNum, tNum, tStr, tBool, tAny})}
	if g.fnDepth < 2 && g.r.chance(1, 7) {
		fn.ret = tFn
		fn.retFn = &c01Fn{ret: pick(g.r, []c01Type{tNum, tStr}), params: []c01Type{tNum}[:g.r.intn(2)]}
	}
	return fn
}

func (g *c01Gen) fnDecl(depth int) *shape {
	fn := g.newFnSig()
	ps, vars := g.params(fn)
	name := g.fresh()
	body := g.fnBody(fn, vars, depth-1)
	g.declare(&c01Var{name: name, ty: tFn, fn: fn})
	return sh("fd", name, ps, body)
}

func (g *c01Gen) fnLet(depth int) *shape {
	fn := g.newFnSig()
	ps, vars := g.params(fn)
	inner := ""
	if g.r.chance(1, 4) {
		inner = g.fresh()
	}
	body := g.fnBody(fn, vars, depth-1)
	name := g.fresh()
	g.declare(&c01Var{name: name, ty: tFn, fn: fn})
	return sh("let", name, sh("fn", inner, ps, body))
}

// function rec(n) { if (n <= 0) { return base } return n op rec(n - 1) }
func (g *c01Gen) recDecl() *shape {
	name, p := g.fresh(), g.fresh()
	str := g.r.chance(1, 3)
	var base, step *shape
	self := call(id(name), bin("-", id(p), num(1)))
	if str {
		base = g.strLit()
		step = bin("+", pick(g.r, []*shape{id(p), g.strLit()}), self)
	} else {
		base = g.numLit()
		step = bin(pick(g.r, []string{"+", "*", "-"}), id(p), self)
	}
	if g.r.chance(1, 2) {
		step = bin(step.s, step.kids[1], step.kids[0])
	}
	var body []*shape
	guard := sh("if", "", bin("<=", id(p), num(0)), blk(sh("ret", "", base)), nil)
	if g.r.chance(1, 3) {
		guard = sh("if", "", bin("<=", id(p), num(0)), sh("ret", "", base), nil)
	}
	body = append(body, guard)
	if g.r.chance(1, 3) {
		body = append(body, logCall(id(p)))
	}
	body = append(body, sh("ret", "", step))
	ret := tNum
	if str {
		ret = tStr
	}
	g.declare(&c01Var{name: name, ty: tFn, fn: &c01Fn{params: []c01Type{tNum}, ret: ret, cost: 30, litArgs: true}})
	return sh("fd", name, sh("params", p), blk(body...))
}

func (g *c01Gen) body(stmts []*shape, allowBare bool) *shape {
	if allowBare && len(stmts) == 1 && (stmts[0].k == "es" || stmts[0].k == "ret") && g.r.chance(1, 2) {
		return stmts[0]
	}
	return blk(stmts...)
}

func (g *c01Gen) scoped(n, depth int, pre ...*c01Var) []*shape {
	g.push()
	for _, v := range pre {
		g.declare(v)
	}
	var out []*shape
	// shadowing: an inner declaration of an outer name, before any use in this scope
	if g.r.chance(1, 6) {
		if vs := g.visible(func(v *c01Var) bool { return !v.ro && (v.ty == tNum || v.ty == tStr) }); len(vs) > 0 {
			o := pick(g.r, vs)
			init := g.numLit()
			if o.ty == tStr {
				init = g.strLit()
			}
			g.declare(&c01Var{name: o.name, ty: o.ty})
			out = append(out, sh("let", o.name, init))
		}
	}
	out = append(out, g.stmts(n, depth)...)
	g.pop()
	return out
}

func (g *c01Gen) loop(depth int) []*shape {
	r := g.r
	k := r.intn(5)
	if g.mult*max(k, 1) > 150 || g.loopDep >= 3 {
		k = 1
	}
	ctr := &c01Var{name: g.fresh(), ty: tNum, ro: true}
	c := id(ctr.name)
	saveMult := g.mult
	g.mult *= max(k, 1)
	g.loopDep++
	defer func() { g.mult = saveMult; g.loopDep-- }()
	inc := func() *shape {
		return pick(r, []*shape{sh("post", "++", c), sh("un", "++", c), sh("asg", "+=", c, num(1)), sh("asg", "=", c, bin("+", c, num(1)))})
	}
	decr := func() *shape {
		return pick(r, []*shape{sh("post", "--", c), sh("un", "--", c), sh("asg", "-=", c, num(1))})
	}
	nb := 1 + r.intn(3)
	switch r.intn(11) {
	case 0, 1, 2:
		body := g.scoped(nb, depth-1, ctr)
		return []*shape{sh("for", "", sh("lete", ctr.name, num(0)), bin("<", c, num(k)), inc(), g.body(body, true))}
	case 3:
		body := g.scoped(nb, depth-1, ctr)
		return []*shape{sh("for", "", sh("lete", ctr.name, num(k)), bin(">", c, num(0)), decr(), g.body(body, true))}
	case 4:
		body := g.scoped(nb, depth-1, ctr)
		return []*shape{sh("for", "", sh("lete", ctr.name, num(0)), bin("<=", c, num(2*k)), sh("asg", "+=", c, num(2)), g.body(body, true))}
	case 5: // counter declared before, initialised in the header
		g.declare(ctr)
		body := g.scoped(nb, depth-1)
		ctr.ro = false
		return []*shape{sh("let", ctr.name, nil), sh("for", "", sh("asg", "=", c, num(0)), bin("<", c, num(k)), inc(), g.body(body, true))}
	case 6: // no initialiser
		g.declare(ctr)
		body := g.scoped(nb, depth-1)
		ctr.ro = false
		return []*shape{sh("let", ctr.name, num(0)), sh("for", "", nil, bin("<", c, num(k)), inc(), g.body(body, true))}
	case 7: // no update expression
		body := g.scoped(nb, depth-1, ctr)
		body = append(body, es(inc()))
		return []*shape{sh("for", "", sh("lete", ctr.name, num(0)), bin("<", c, num(k)), nil, blk(body...))}
	case 8: // while, counting up; the increment sits anywhere in the body
		g.declare(ctr)
		body := g.scoped(nb, depth-1)
		at := r.intn(len(body) + 1)
		body = append(body[:at:at], append([]*shape{es(inc())}, body[at:]...)...)
		ctr.ro = false
		cond := bin(pick(r, []string{"<", "!="}), c, num(k))
		if r.chance(1, 6) {
			return []*shape{sh("let", ctr.name, num(0)), sh("while", "", cond, es(inc()))}
		}
		return []*shape{sh("let", ctr.name, num(0)), sh("while", "", cond, blk(body...))}
	case 9: // while, counting down
		g.declare(ctr)
		body := g.scoped(nb, depth-1)
		body = append([]*shape{es(decr())}, body...)
		ctr.ro = false
		return []*shape{sh("let", ctr.name, num(k)), sh("while", "", bin(">", c, num(0)), blk(body...))}
	default: // no condition: left by a return (functions only)
		if g.fnDepth == 0 {
			body := g.scoped(nb, depth-1, ctr)
			return []*shape{sh("for", "", sh("lete", ctr.name, num(0)), bin("<", c, num(k)), inc(), blk(body...))}
		}
		exit := sh("if", "", bin(">=", c, num(k)), blk(g.ret(depth)), nil)
		if r.chance(1, 2) {
			exit = sh("if", "", bin(">=", c, num(k)), g.ret(depth), nil)
		}
		body := g.scoped(nb, depth-1, ctr)
		body = append([]*shape{exit}, body...)
		switch r.intn(3) {
		case 0:
			return []*shape{sh("for", "", sh("lete", ctr.name, num(0)), nil, inc(), blk(body...))}
		case 1: // for (;;)
			g.declare(ctr)
			ctr.ro = false
			body = append(body, es(inc()))
			return []*shape{sh("let", ctr.name, num(0)), sh("for", "", nil, nil, nil, blk(body...))}
		}
		g.declare(ctr)
		ctr.ro = false
		body = append(body, es(inc()))
		return []*shape{sh("let", ctr.name, num(0)), sh("while", "", sh("bool", "true"), blk(body...))}
	}
}

func (g *c01Gen) errorStmt() *shape {
	g.counter++
	n := strconv.Itoa(g.counter)
	switch g.r.intn(7) {
	case 0:
		return es(call(id("nope" + n)))
	case 1:
		return es(mem(sh("null", "null"), "x"))
	case 2:
		return es(call(sh("num", "1")))
	case 3:
		return sh("let", "q"+n, bin("+", id("undeclared"+n), num(1)))
	case 4:
		return blk(logCall(id("tdz"+n)), sh("let", "tdz"+n, num(1)))
	case 5:
		return es(sh("asg", "=", mem(mem(id("undefined"), "a"), "b"), num(1)))
	}
	if v := g.varOf(tNum, false); v != nil {
		return es(call(id(v.name), num(1)))
	}
	return es(call(mem(sh("str", `"s"`), "nope")))
}

func (g *c01Gen) stmts(n, depth int) []*shape {
	var out []*shape
	for i := 0; i < n && g.budget > 0; i++ {
		out = append(out, g.stmt(depth)...)
	}
	return out
}

func (g *c01Gen) stmt(depth int) []*shape {
	r := g.r
	g.budget--
	g.cost += g.mult
	if !g.errUsed && r.chance(1, 90) {
		g.errUsed = true
		return []*shape{g.errorStmt()}
	}
	k := r.intn(30)
	if depth <= 0 && k >= 14 && k <= 23 {
		k = r.intn(14)
	}
	switch k {
	case 0, 1, 2, 3:
		return []*shape{g.letOf(pick(r, []c01Type{tNum, tNum, tNum, tStr, tStr, tBool, tArr, tObj}), 2)}
	case 4:
		name := g.fresh()
		g.declare(&c01Var{name: name, ty: tAny})
		return []*shape{sh("let", name, nil)}
	case 5, 6, 7, 8, 9:
		na := 1 + r.intn(3)
		args := make([]*shape, na)
		for i := range args {
			args[i] = g.anyPrim(2)
		}
		return []*shape{logCall(args...)}
	case 10, 11:
		// expression statements with side effects
		ty := pick(r, []c01Type{tNum, tNum, tStr, tBool})
		for try := 0; try < 4; try++ {
			e := g.expr(ty, 2)
			if e.k == "asg" || e.k == "post" || e.k == "un" && (e.s == "++" || e.s == "--") || e.k == "call" {
				return []*shape{es(e)}
			}
		}
		if lv := g.lvalNum(1); lv != nil {
			return []*shape{es(sh("asg", pick(r, []string{"=", "+=", "-="}), g.fixQuote(lv), g.num(1)))}
		}
		return []*shape{logCall(g.anyPrim(1))}
	case 12:
		// member assignment, possibly a new property
		if o := g.varOf(tObj, false); o != nil {
			key := pick(r, []string{"a", "z", "w1"})
			known := false
			for _, f := range o.fields {
				if f.key == key {
					known = true
				}
			}
			if !known {
				val := g.num(1)
				o.fields = append(o.fields, c01Field{key, tNum})
				return []*shape{es(sh("asg", "=", mem(id(o.name), key), val))}
			}
		}
		if v := g.varOf(tFn, false); v != nil && g.cost+g.mult*v.fn.cost <= 4000 {
			return []*shape{es(g.callVar(v, 2))}
		}
		return []*shape{logCall(g.anyPrim(2))}
	case 13:
		if g.fnDepth > 0 && r.chance(1, 2) {
			// early return guarded by a condition
			return []*shape{sh("if", "", g.boolean(1), g.body([]*shape{g.ret(depth)}, true), nil)}
		}
		if v := g.varOf(tFn, false); v != nil && v.fn.ret == tFn && g.cost+g.mult*v.fn.cost <= 4000 {
			name := g.fresh()
			c := g.callVar(v, 2)
			g.declare(&c01Var{name: name, ty: tFn, fn: v.fn.retFn})
			return []*shape{sh("let", name, c)}
		}
		return []*shape{logCall(g.anyPrim(2), g.anyPrim(1))}
	case 14, 15, 16:
		cond := g.boolean(2)
		if r.chance(1, 5) {
			cond = g.anyPrim(1)
		}
		thn := g.scoped(1+r.intn(2), depth-1)
		var els *shape
		if r.chance(1, 2) {
			if r.chance(1, 4) {
				// else if
				els = sh("if", "", g.boolean(1), blk(g.scoped(1, depth-1)...), nil)
				if r.chance(1, 2) {
					els.kids[2] = blk(g.scoped(1, depth-1)...)
				}
			} else {
				els = g.body(g.scoped(1+r.intn(2), depth-1), true)
			}
		}
		return []*shape{sh("if", "", cond, g.body(thn, els == nil || g.hazards), els)}
	case 17, 18, 19:
		return g.loop(depth)
	case 20, 21:
		if g.fnDepth >= 3 {
			return []*shape{logCall(g.anyPrim(1))}
		}
		var decl *shape
		switch {
		case r.chance(1, 6):
			decl = g.recDecl()
		case r.chance(1, 2):
			decl = g.fnLet(depth)
		default:
			decl = g.fnDecl(depth)
		}
		out := []*shape{decl}
		// usually use the function right away
		if v := g.scopes[len(g.scopes)-1].vars; len(v) > 0 && r.chance(3, 4) {
			f := v[len(v)-1]
			if f.ty == tFn && g.cost+g.mult*f.fn.cost <= 4000 {
				c := g.callVar(f, 2)
				switch {
				case f.fn.ret == tFn:
					name := g.fresh()
					g.declare(&c01Var{name: name, ty: tFn, fn: f.fn.retFn})
					out = append(out, sh("let", name, c))
					k := &c01Var{name: name, ty: tFn, fn: f.fn.retFn}
					out = append(out, logCall(g.callVar(k, 1), g.callVar(k, 1)))
				case f.fn.ret == tAny && r.chance(1, 2):
					out = append(out, es(c))
				default:
					out = append(out, logCall(c))
				}
			}
		}
		return out
	case 22:
		return []*shape{blk(g.scoped(1+r.intn(3), depth-1)...)}
	case 23:
		// immediately invoked function expression
		fn := &c01Fn{ret: tAny}
		body := g.fnBody(fn, nil, depth-1)
		g.cost += g.mult * fn.cost
		iife := call(sh("fn", "", sh("params", ""), body))
		if !g.hazards {
			name := g.fresh()
			g.declare(&c01Var{name: name, ty: tAny})
			return []*shape{sh("let", name, iife)}
		}
		return []*shape{es(iife)}
	case 24:
		if g.fnDepth > 0 && r.chance(1, 3) {
			return []*shape{g.ret(depth)}
		}
	case 25:
		// statements that begin with a token that continues a previous line
		if !g.hazards {
			break
		}
		switch r.intn(4) {
		case 0:
			return []*shape{es(call(mem(sh("arr", "", g.num(1), g.num(1)), "join"), g.strLit()))}
		case 1:
			if v := g.varOf(tNum, true); v != nil {
				return []*shape{es(sh("asg", "=", sh("grp", "", id(v.name)), g.num(1)))}
			}
		case 2:
			if v := g.varOf(tNum, true); v != nil {
				return []*shape{es(bin("*", sh("un", "-", id(v.name)), num(1)))}
			}
		case 3:
			return []*shape{es(mem(g.rawLit(), "length"))}
		}
	}
	if v := g.varOf(tFn, false); v != nil && g.cost+g.mult*v.fn.cost <= 4000 && r.chance(1, 2) {
		if v.fn.ret == tAny || r.chance(1, 3) {
			return []*shape{es(g.callVar(v, 2))}
		}
		return []*shape{logCall(g.callVar(v, 2))}
	}
	return []*shape{logCall(g.anyPrim(2))}
}

// c01Shapes builds the statement list of the program of a seed; hazards reports whether
// the program may contain the statement shapes of the known no-semicolon findings
func c01Shapes(r *rng) (stmts []*shape, hazards bool) {
	g := &c01Gen{r: r, mult: 1, budget: 6 + r.intn(22), hazards: r.chance(1, 6)}
	g.push()
	n := 2 + r.intn(7)
	var out []*shape
	for i := 0; i < n && g.budget > 0; i++ {
		out = append(out, g.stmt(1+r.intn(3))...)
	}
	// make sure something is observed
	vs := g.visible(func(v *c01Var) bool { return v.ty != tFn })
	var args []*shape
	for i := 0; i < len(vs) && i < 4; i++ {
		args = append(args, id(vs[i].name))
	}
	if len(args) == 0 {
		args = []*shape{g.anyPrim(1)}
	}
	out = append(out, logCall(args...))
	return out, g.hazards
}

// c01Program renders the program of a seed in the layout of that seed
func c01Program(seed uint64) (string, []*shape) {
	r := newRng(seed, "c01case")
	stmts, hazards := c01Shapes(r)
	return c01Render(seed, stmts, hazards), stmts
}

func c01Render(seed uint64, stmts []*shape, hazards bool) string {
	r := newRng(seed, "c01layout")
	red := 0
	if r.chance(1, 3) {
		red = 4 + r.intn(8)
	}
	layout, semis := r.intn(3), r.intn(3)
	txt, toks := renderProgram(r, stmts, layout, semis, false, red, nil)
	if !hazards && red > 0 {
		// redundant parentheses at the start of a statement are the known
		// no-semicolon hazard again: keep them for the programs that may have it
		for _, t := range toks {
			if t.stmtBeg && t.text == "(" {
				txt, _ = renderProgram(r, stmts, layout, semis, false, 0, nil)
				break
			}
		}
	}
	return txt
}

func c01Cfgs() []string {
	out := allCcfgs()
	seen := map[string]bool{}
	for _, c := range out {
		seen[c] = true
	}
	for k := 0; k <= 8; k++ {
		for _, s := range []int{1, 0} {
			for _, m := range []string{"p", "pm"} {
				c := fmt.Sprintf("%s:%s:%d", m, hx(strings.Repeat(" ", k)), s)
				if !seen[c] {
					seen[c] = true
					out = append(out, c)
				}
			}
		}
	}
	return out
}

// ---- class predicates on the tree xjs builds for the source ----

// endsWithoutSemi: when optional semicolons are omitted, does the printed statement end
// in an expression (rather than in the '}' of a block statement)?
func endsWithoutSemi(s ast.Statement) bool {
	if isNilNode(s) {
		return false
	}
	switch x := s.(type) {
	case *ast.LetStatement, *ast.ExpressionStatement:
		return true
	case *ast.ReturnStatement:
		return x.ReturnValue != nil
	case *ast.IfStatement:
		if !isNilNode(x.ElseBranch) {
			return endsWithoutSemi(x.ElseBranch)
		}
		return endsWithoutSemi(x.ThenBranch)
	case *ast.WhileStatement:
		return endsWithoutSemi(x.Body)
	case *ast.ForStatement:
		return endsWithoutSemi(x.Body)
	}
	return false
}

// first character the printer writes for an expression
func firstChar(e ast.Expression) byte {
	for !isNilNode(e) {
		switch x := e.(type) {
		case *ast.BinaryExpression:
			if x.Left != nil && x.Left.Precedence() < x.Precedence() {
				return '('
			}
			e = x.Left
		case *ast.AssignmentExpression:
			e = x.Left
		case *ast.CompoundAssignmentExpression:
			e = x.Left
		case *ast.PostfixExpression:
			e = x.Left
		case *ast.CallExpression:
			e = x.Function
		case *ast.MemberExpression:
			e = x.Object
		case *ast.GroupedExpression:
			return '('
		case *ast.ArrayLiteral:
			return '['
		case *ast.MultiStringLiteral:
			return '`'
		case *ast.UnaryExpression:
			if x.Operator == "" {
				return 0
			}
			if x.Operator == "++" || x.Operator == "--" {
				return 0 // a line break before a prefix ++/-- ends the previous statement
			}
			return x.Operator[0]
		default:
			return 0
		}
	}
	return 0
}

func stmtFirstChar(s ast.Statement) byte {
	if es, ok := s.(*ast.ExpressionStatement); ok && !isNilNode(es) {
		return firstChar(es.Expression)
	}
	return 0
}

type c01Traits struct {
	asiHazard, nosemiElse, backtickBlank bool
	newlineBacktick                      bool // a backtick string at the start of a line right after a complete expression
	escapedDirective                     bool // "use strict" written with an escape in a directive prologue
	terminatorInComment                  bool // lone CR / U+2028 / U+2029 inside a comment, text after it
}

// newlineBeforeBacktick: JavaScript continues `a<LF>`x“ as a tagged template (outside
// the subset), xjs starts a new statement
func newlineBeforeBacktick(src string) bool {
	toks := lexAll(src, len(src)+2)
	for i, t := range toks {
		if t.Type == token.EOF {
			break
		}
		if t.Type == token.RAW_STRING && t.AfterNewline && i > 0 {
			switch toks[i-1].Type {
			case token.IDENT, token.RPAREN, token.RBRACKET, token.STRING, token.RAW_STRING, token.INT, token.FLOAT, token.TRUE, token.FALSE, token.NULL:
				return true
			}
		}
	}
	return false
}

// escapedDirective: a string-literal statement in a directive prologue (start of the program or of
// a function body) that is written with an escape sequence and whose VALUE is "use strict". For
// JavaScript it is no directive (directives are recognised by their raw text); xjs decodes the
// escape and prints "use strict", which is one.
func escapedDirective(src string) bool {
	toks := lexAll(src, len(src)+2)
	starts := lineStarts(src)
	for i, t := range toks {
		if t.Type == token.EOF {
			break
		}
		if t.Type != token.STRING || t.Literal != "use strict" {
			continue
		}
		a, ok1 := offsetOf(src, starts, t.Start)
		b, ok2 := offsetOf(src, starts, t.End)
		if !ok1 || !ok2 || a > b || b > len(src) || !strings.Contains(src[a:b], "\\") {
			continue
		}
		j := i - 1
		for j >= 0 && (toks[j].Type == token.STRING || toks[j].Type == token.SEMICOLON) {
			j--
		}
		if j < 0 || toks[j].Type == token.LBRACE {
			return true
		}
	}
	return false
}

// terminatorInComment: a lone CR, U+2028 or U+2029 inside a // comment followed by more text. For
// JavaScript the comment ends there and the rest of the line is code; for xjs it is comment text
// (dropped by the compact printer).
func terminatorInComment(src string) bool {
	for _, t := range lexAll(src, len(src)+2) {
		for _, c := range t.LeadingComments {
			for _, sep := range []string{"\r", "\u2028", "\u2029"} {
				if i := strings.Index(c, sep); i >= 0 && strings.TrimSpace(c[i+len(sep):]) != "" {
					return true
				}
			}
		}
		if t.Type == token.EOF {
			break
		}
	}
	return false
}

func c01TraitsOf(prog *ast.Program) c01Traits {
	var t c01Traits
	lists := [][]ast.Statement{prog.Statements}
	walkProgram(prog, func(n ast.Node) {
		switch x := n.(type) {
		case *ast.BlockStatement:
			lists = append(lists, x.Statements)
		case *ast.IfStatement:
			if !isNilNode(x.ElseBranch) {
				if _, isBlock := x.ThenBranch.(*ast.BlockStatement); !isBlock && endsWithoutSemi(x.ThenBranch) {
					t.nosemiElse = true
				}
			}
		case *ast.MultiStringLiteral:
			if strings.Contains(x.Value, " \n") {
				t.backtickBlank = true
			}
		}
	})
	for _, l := range lists {
		for i := 0; i+1 < len(l); i++ {
			if !endsWithoutSemi(l[i]) {
				continue
			}
			switch stmtFirstChar(l[i+1]) {
			case '(', '[', '+', '-', '/', '`':
				t.asiHazard = true
			}
		}
	}
	return t
}

func c01Class(t c01Traits, cfg ccfg) string {
	if os.Getenv("C01_NOCLASS") != "" { // self-test of the minimiser: treat every failure as unexplained
		return ""
	}
	switch {
	case t.newlineBacktick:
		return "newline-before-backtick"
	case t.escapedDirective:
		return "escaped-use-strict-directive"
	case !cfg.pretty && t.terminatorInComment:
		return "line-terminator-in-comment"
	case cfg.pretty && !cfg.semi && t.asiHazard:
		return "nosemi-asi-hazard"
	case cfg.pretty && !cfg.semi && t.nosemiElse:
		return "nosemi-else"
	case cfg.pretty && t.backtickBlank:
		return "backtick-trailing-blank-pretty"
	}
	return ""
}

// ---- the check ----

type c01Fail struct {
	cfg   string
	code  string
	got   nodeRun
	class string
}

func sameRun(a, b nodeRun) bool {
	if a.Completion != b.Completion || len(a.Output) != len(b.Output) {
		return false
	}
	for i := range a.Output {
		if a.Output[i] != b.Output[i] {
			return false
		}
	}
	return true
}

func showRun(r nodeRun) string {
	o := r.Output
	more := ""
	if len(o) > 12 {
		more = fmt.Sprintf(" ... (%d lines)", len(o))
		o = o[:12]
	}
	return fmt.Sprintf("printed [%s]%s, completion %s", strings.Join(o, " | "), more, r.Completion)
}

// c01Eval runs src and its compilations; status: "" (checked), or a reason for skipping
func c01Eval(src string) (status string, ref nodeRun, fails []c01Fail) {
	b := buildParser(pcase{src: src}, false)
	prog, err := b.p.ParseProgram()
	if err != nil {
		r := nodeRunAll([]string{src})[0]
		if r.Completion == "SyntaxError" {
			return "skip:source-invalid-for-both", r, nil
		}
		return "skip:xjs-rejects-node-accepts", r, nil
	}
	traits := c01TraitsOf(prog)
	traits.newlineBacktick = newlineBeforeBacktick(src)
	traits.escapedDirective = escapedDirective(src)
	traits.terminatorInComment = terminatorInComment(src)
	codes := []string{src}
	byCode := map[string]int{}
	cfgsOf := map[int][]string{}
	for _, cs := range c01Cfgs() {
		var code string
		func() {
			defer func() {
				if recover() != nil {
					code = "\x00PANIC"
				}
			}()
			code = parseCcfg(cs).compiler().Compile(prog).Code
		}()
		if code == "\x00PANIC" {
			fails = append(fails, c01Fail{cfg: cs, code: "(compiler panicked)", class: ""})
			continue
		}
		i, ok := byCode[code]
		if !ok {
			i = len(codes)
			byCode[code] = i
			codes = append(codes, code)
		}
		cfgsOf[i] = append(cfgsOf[i], cs)
	}
	runs := nodeRunAll(codes)
	ref = runs[0]
	switch ref.Completion {
	case "SyntaxError":
		return "skip:source-is-not-valid-js", ref, nil
	case "timeout", "RangeError":
		return "skip:source-" + ref.Completion, ref, nil
	}
	for i := 1; i < len(codes); i++ {
		if sameRun(ref, runs[i]) {
			continue
		}
		if runs[i].Completion == "timeout" {
			// the source finished within the short limit: give the output the long one
			// before calling it a difference (machine load)
			runs[i] = nodeRunSlow([]string{codes[i]})[0]
			if sameRun(ref, runs[i]) {
				continue
			}
		}
		for _, cs := range cfgsOf[i] {
			fails = append(fails, c01Fail{cfg: cs, code: codes[i], got: runs[i], class: c01Class(traits, parseCcfg(cs))})
		}
	}
	return "", ref, fails
}

func c01Unexplained(fails []c01Fail) *c01Fail {
	for i := range fails {
		if fails[i].class == "" {
			return &fails[i]
		}
	}
	return nil
}

// greedy statement-level minimisation of a program with an unexplained failure
func c01Shrink(seed uint64, stmts []*shape, completion string) []*shape {
	attempts := 0
	still := func(cand []*shape) bool {
		attempts++
		st, ref, fails := c01Eval(c01Render(seed, cand, true))
		return st == "" && ref.Completion == completion && c01Unexplained(fails) != nil
	}
	var lists func(s *shape, f func(owner *shape))
	lists = func(s *shape, f func(owner *shape)) {
		if s == nil {
			return
		}
		if s.k == "blk" {
			f(s)
		}
		for _, k := range s.kids {
			lists(k, f)
		}
	}
	changed := true
	for changed && attempts < 150 {
		changed = false
		for i := 0; i < len(stmts) && attempts < 150; i++ {
			cand := append(append([]*shape{}, stmts[:i]...), stmts[i+1:]...)
			if len(cand) > 0 && still(cand) {
				stmts = cand
				changed = true
				i--
			}
		}
		var owners []*shape
		for _, s := range stmts {
			lists(s, func(o *shape) { owners = append(owners, o) })
		}
		for _, o := range owners {
			for i := 0; i < len(o.kids) && attempts < 150; i++ {
				saved := o.kids
				o.kids = append(append([]*shape{}, saved[:i]...), saved[i+1:]...)
				if still(stmts) {
					changed = true
					i--
				} else {
					o.kids = saved
				}
			}
		}
	}
	return stmts
}

func checkC01(line string, dist map[string]int) (detail, sig, class string) {
	var src string
	var stmts []*shape
	var seed uint64
	if strings.HasPrefix(line, "s ") {
		src = unhx(strings.TrimSpace(line[2:]))
	} else {
		fmt.Sscan(line, &seed)
		src, stmts = c01Program(seed)
	}
	status, ref, fails := c01Eval(src)
	if status != "" {
		dist[status]++
		if os.Getenv("C01DEBUG") != "" {
			fmt.Fprintf(os.Stderr, "%s: seed %s completion %s\n%s\n----\n", status, line, ref.Completion, src)
		}
		return "", "", ""
	}
	dist[fmt.Sprintf("source-bytes<=%d", bucket(len(src)/10)*10)]++
	dist["completion:"+ref.Completion]++
	dist[fmt.Sprintf("printed-lines<=%d", bucket(len(ref.Output)))]++
	if len(ref.Output) > 0 {
		sig = fmt.Sprintf("%d/%s", len(ref.Output), ref.Completion)
	}
	if len(fails) == 0 {
		return "", sig, ""
	}
	for _, f := range fails {
		c := f.class
		if c == "" {
			c = "unexplained"
		}
		dist["failing-configurations:"+c]++
	}
	f := fails[0]
	if c01Unexplained(fails) != nil {
		dist["failed-cases:unexplained"]++
	} else {
		dist["failed-cases:"+f.class]++
	}
	if u := c01Unexplained(fails); u != nil {
		f = *u
		if stmts != nil {
			small := c01Shrink(seed, stmts, ref.Completion)
			msrc := c01Render(seed, small, true)
			if st, mref, mfails := c01Eval(msrc); st == "" {
				if mu := c01Unexplained(mfails); mu != nil {
					src, ref, f = msrc, mref, *mu
					detail = "(minimised) "
				}
			}
		}
	}
	var cfgs []string
	for _, x := range fails {
		if x.class == f.class {
			cfgs = append(cfgs, x.cfg)
		}
	}
	if len(cfgs) > 6 {
		cfgs = append(cfgs[:6], fmt.Sprintf("... %d configurations", len(cfgs)))
	}
	detail += fmt.Sprintf("source %q (replay: s %s): %s; configuration %s emits %q: %s; failing configurations of this kind: %s", src, hx(src), showRun(ref), f.cfg, f.code, showRun(f.got), strings.Join(cfgs, ","))
	return capKnown(f.class, detail), sig, f.class
}
