package main

import (
	"strconv"
	"strings"

	"github.com/xjslang/xjs/ast"
	"github.com/xjslang/xjs/token"
)

// Reader for the canonical S-expressions of pcase.go: builds real ast nodes through
// their public fields (programmatically assembled trees).

type sxReader struct {
	toks []string
	pos  int
}

func sxTokenize(s string) []string {
	var out []string
	i := 0
	for i < len(s) {
		c := s[i]
		switch {
		case c == ' ':
			i++
		case c == '(' || c == ')' || c == '[' || c == ']':
			out = append(out, string(c))
			i++
		case c == '{':
			j := strings.IndexByte(s[i:], '}')
			out = append(out, s[i:i+j+1])
			i += j + 1
		default:
			j := i
			for j < len(s) && !strings.ContainsRune(" ()[]", rune(s[j])) {
				j++
			}
			out = append(out, s[i:j])
			i = j
		}
	}
	return out
}

func (r *sxReader) peek() string {
	if r.pos < len(r.toks) {
		return r.toks[r.pos]
	}
	return ""
}
func (r *sxReader) next() string { t := r.peek(); r.pos++; return t }
func (r *sxReader) expect(s string) {
	if r.next() != s {
		die("sexpr: expected %q at %d", s, r.pos-1)
	}
}

func parseTok(s string) token.Token {
	s = strings.TrimSuffix(strings.TrimPrefix(s, "{"), "}")
	p := strings.Split(s, ":")
	if len(p) != 8 {
		die("bad token %q", s)
	}
	ai := func(x string) int { v, _ := strconv.Atoi(x); return v }
	t := token.Token{Type: token.Type(ai(p[0])), Literal: unhx(p[1]),
		Start: token.Position{Line: ai(p[2]), Column: ai(p[3])}, End: token.Position{Line: ai(p[4]), Column: ai(p[5])},
		AfterNewline: p[6] == "1"}
	if p[7] != "" {
		for _, c := range strings.Split(p[7], ",") {
			t.LeadingComments = append(t.LeadingComments, unhx(c))
		}
	}
	return t
}

func (r *sxReader) tok() token.Token { return parseTok(r.next()) }

func (r *sxReader) ident() *ast.Identifier {
	if r.peek() == "noid" {
		r.next()
		return nil
	}
	r.expect("(")
	r.expect("id")
	t := r.tok()
	v := unhx(r.next())
	r.expect(")")
	return &ast.Identifier{Token: t, Value: v}
}

func (r *sxReader) idents() []*ast.Identifier {
	r.expect("[")
	out := []*ast.Identifier{}
	for r.peek() != "]" {
		out = append(out, r.ident())
	}
	r.expect("]")
	return out
}

func (r *sxReader) exprs() []ast.Expression {
	r.expect("[")
	out := []ast.Expression{}
	for r.peek() != "]" {
		out = append(out, r.expr())
	}
	r.expect("]")
	return out
}

func (r *sxReader) block() *ast.BlockStatement {
	if r.peek() == "snil" {
		r.next()
		return nil
	}
	s := r.stmt()
	b, ok := s.(*ast.BlockStatement)
	if !ok {
		die("sexpr: body is not a block")
	}
	return b
}

func (r *sxReader) expr() ast.Expression {
	if r.peek() == "nil" {
		r.next()
		return nil
	}
	r.expect("(")
	k := r.next()
	var e ast.Expression
	switch k {
	case "id":
		t := r.tok()
		e = &ast.Identifier{Token: t, Value: unhx(r.next())}
	case "int":
		e = &ast.IntegerLiteral{Token: r.tok()}
	case "float":
		e = &ast.FloatLiteral{Token: r.tok()}
	case "str":
		t := r.tok()
		e = &ast.StringLiteral{Token: t, Value: unhx(r.next())}
	case "raw":
		t := r.tok()
		e = &ast.MultiStringLiteral{Token: t, Value: unhx(r.next())}
	case "bool":
		t := r.tok()
		e = &ast.BooleanLiteral{Token: t, Value: r.next() == "1"}
	case "null":
		e = &ast.NullLiteral{Token: r.tok()}
	case "lete":
		t := r.tok()
		n := r.ident()
		e = &ast.LetExpression{Token: t, Name: n, Value: r.expr()}
	case "bin":
		t := r.tok()
		l := r.expr()
		op := unhx(r.next())
		e = &ast.BinaryExpression{Token: t, Left: l, Operator: op, Right: r.expr()}
	case "un":
		t := r.tok()
		op := unhx(r.next())
		e = &ast.UnaryExpression{Token: t, Operator: op, Right: r.expr()}
	case "post":
		t := r.tok()
		l := r.expr()
		e = &ast.PostfixExpression{Token: t, Left: l, Operator: unhx(r.next())}
	case "grp":
		t := r.tok()
		x := r.expr()
		e = &ast.GroupedExpression{Token: t, Expression: x, RParen: r.tok()}
	case "call":
		t := r.tok()
		f := r.expr()
		e = &ast.CallExpression{Token: t, Function: f, Arguments: r.exprs()}
	case "mem":
		t := r.tok()
		o := r.expr()
		p := r.expr()
		e = &ast.MemberExpression{Token: t, Object: o, Property: p, Computed: r.next() == "1"}
	case "asg":
		t := r.tok()
		l := r.expr()
		e = &ast.AssignmentExpression{Token: t, Left: l, Value: r.expr()}
	case "casg":
		t := r.tok()
		l := r.expr()
		op := unhx(r.next())
		e = &ast.CompoundAssignmentExpression{Token: t, Left: l, Operator: op, Value: r.expr()}
	case "fn":
		t := r.tok()
		var name *ast.Identifier
		if r.peek() == "none" {
			r.next()
		} else {
			name = r.ident()
		}
		ps := r.idents()
		e = &ast.FunctionExpression{Token: t, Name: name, Parameters: ps, Body: r.block()}
	case "arr":
		t := r.tok()
		es := r.exprs()
		e = &ast.ArrayLiteral{Token: t, Elements: es, RBracket: r.tok()}
	case "obj":
		t := r.tok()
		r.expect("[")
		props := []ast.ObjectProperty{}
		for r.peek() != "]" {
			r.expect("(")
			k := r.expr()
			v := r.expr()
			r.expect(")")
			props = append(props, ast.ObjectProperty{Key: k, Value: v})
		}
		r.expect("]")
		e = &ast.ObjectLiteral{Token: t, Properties: props, RBrace: r.tok()}
	default:
		die("sexpr: unknown expression kind %q", k)
	}
	r.expect(")")
	return e
}

func (r *sxReader) stmts() []ast.Statement {
	r.expect("[")
	out := []ast.Statement{}
	for r.peek() != "]" {
		out = append(out, r.stmt())
	}
	r.expect("]")
	return out
}

func (r *sxReader) stmt() ast.Statement {
	if r.peek() == "snil" {
		r.next()
		return nil
	}
	r.expect("(")
	k := r.next()
	var s ast.Statement
	switch k {
	case "let":
		t := r.tok()
		n := r.ident()
		s = &ast.LetStatement{Token: t, Name: n, Value: r.expr()}
	case "ret":
		t := r.tok()
		s = &ast.ReturnStatement{Token: t, ReturnValue: r.expr()}
	case "es":
		s = &ast.ExpressionStatement{Expression: r.expr()}
	case "fd":
		t := r.tok()
		n := r.ident()
		ps := r.idents()
		s = &ast.FunctionDeclaration{Token: t, Name: n, Parameters: ps, Body: r.block()}
	case "blk":
		t := r.tok()
		ss := r.stmts()
		s = &ast.BlockStatement{Token: t, Statements: ss, RBrace: r.tok()}
	case "if":
		t := r.tok()
		c := r.expr()
		a := r.stmt()
		s = &ast.IfStatement{Token: t, Condition: c, ThenBranch: a, ElseBranch: r.stmt()}
	case "while":
		t := r.tok()
		c := r.expr()
		s = &ast.WhileStatement{Token: t, Condition: c, Body: r.stmt()}
	case "for":
		t := r.tok()
		i := r.expr()
		c := r.expr()
		u := r.expr()
		s = &ast.ForStatement{Token: t, Init: i, Condition: c, Update: u, Body: r.stmt()}
	default:
		die("sexpr: unknown statement kind %q", k)
	}
	r.expect(")")
	return s
}

// readProgram parses "STMTS EOFTOK"
func readProgram(s string) *ast.Program {
	r := &sxReader{toks: sxTokenize(s)}
	ss := r.stmts()
	eof := token.Token{Type: token.EOF}
	if r.peek() != "" {
		eof = r.tok()
	}
	return &ast.Program{Statements: ss, EOF: eof}
}
