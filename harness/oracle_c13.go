package main

import (
	"fmt"
	"strings"

	"github.com/xjslang/xjs/token"
)

// Direct oracle for C13 (parser modes differ only where documented), search support.
// input lines:
//   "ref <seed>"    reference program of the C02 generator (all layouts): four modes
//   "src <hexsrc>"  any source (generated programs, mutations, corpus): four modes
//   "nosep <seed>"  two statements on one line joined by a single space instead of ';'
//   "open <seed>"   reference program cut in front of the closing braces of its last, nested blocks
//   "snl <seed>"    statements separated by line breaks only, many beginning with '(' or '['

func init() {
	oracles["C13"] = &oracle{
		rule:  "ref/src: reference programs in all layouts, generated programs, token/byte mutations and the malformed corpus x 4 modes (T1: strict accepts => tolerant identical tree, EOF token, no errors, for smart off and on; S1: no '(' or '[' token after a line break => smart identical to default incl. errors, for strict and tolerant; S3: otherwise smart(src) ~ default(src with ';' in front of every line-initial bracket that follows a complete operand; brackets after an operator, '(' ',' a keyword, a function name or an if/while/for header continue nothing and get no ';'; cases with a line-initial bracket after '}' '++' '--' are skipped) compared by error-freeness and canonical tree); nosep: let/return/expression statement followed after one space by a statement starting with a word or string literal, at top level, among other lines, in a block or in a function body: tolerant (smart off/on) gives exactly both statements and no error; open: 1-3 nested blocks (block, function declaration, function expression as value, if, else, while, for) left open at end of input after 0-2 complete statements each: tolerant gives the complete program's tree and no error; snl: line-break-only separators with statements starting with '(' / '[' (groups, arrays, IIFEs): smart (strict and tolerant) gives the rendered statement list and equals default mode on the text with ';' inserted; non-trivial = the clause's premise holds; distinct by (input, clause outcomes)",
		gen:   genC13,
		check: countFailures(checkC13),
	}
}

func genC13(r *rng, n int, tier string) []string {
	var out []string
	seed := func() uint64 { return r.next() % (1 << 40) }
	for i := 0; i < n*4/20; i++ {
		out = append(out, fmt.Sprintf("ref %d", seed()))
	}
	for _, s := range genParseSources(r, n*4/20) {
		out = append(out, "src "+hx(s))
	}
	for i := 0; i < n*4/20; i++ {
		out = append(out, fmt.Sprintf("nosep %d", seed()))
	}
	for i := 0; i < n*3/20; i++ {
		out = append(out, fmt.Sprintf("open %d", seed()))
	}
	for i := 0; i < n*5/20; i++ {
		out = append(out, fmt.Sprintf("snl %d", seed()))
	}
	return out
}

type modeRun struct {
	sx, eof, canon string
	errs           []string
	errFlag        bool
}

func runMode(src string, tolerant, smart bool) modeRun {
	c := pcase{src: src, tolerant: tolerant, smart: smart}
	b := buildParser(c, false)
	prog, err := b.p.ParseProgram()
	m := modeRun{sx: sxStmts(prog.Statements), eof: tk(prog.EOF), canon: canonProgram(prog), errFlag: err != nil}
	for _, e := range b.p.Errors() {
		m.errs = append(m.errs, errKind(e)+"/"+e.Message)
	}
	return m
}

func (m modeRun) ok() bool { return len(m.errs) == 0 && !m.errFlag }

func modeName(tolerant, smart bool) string {
	s := "strict"
	if tolerant {
		s = "tolerant"
	}
	if smart {
		return s + "+smart"
	}
	return s
}

// lineInitialBrackets: indices of '(' / '[' tokens that follow a line break
func lineInitialBrackets(toks []token.Token) []int {
	var out []int
	for i, t := range toks {
		if (t.Type == token.LPAREN || t.Type == token.LBRACKET) && t.AfterNewline {
			out = append(out, i)
		}
	}
	return out
}

// continues reports whether the bracket token i stands where it would continue a complete
// operand (1), certainly not (0), or undecidable from the tokens alone (-1).
func continuesOperand(toks []token.Token, i int) int {
	if i == 0 {
		return 0
	}
	switch toks[i-1].Type {
	case token.IDENT:
		if i >= 2 && toks[i-2].Type == token.FUNCTION {
			return 0 // function name: the '(' opens the parameter list
		}
		return 1
	case token.INT, token.FLOAT, token.STRING, token.RAW_STRING, token.TRUE, token.FALSE, token.NULL, token.RBRACKET:
		return 1
	case token.RPAREN:
		depth := 0
		for j := i - 1; j >= 0; j-- {
			switch toks[j].Type {
			case token.RPAREN:
				depth++
			case token.LPAREN:
				depth--
				if depth == 0 {
					if j > 0 {
						switch toks[j-1].Type {
						case token.IF, token.WHILE, token.FOR:
							return 0 // statement header: the bracket starts the body
						}
					}
					return 1
				}
			}
		}
		return -1
	case token.RBRACE, token.INCREMENT, token.DECREMENT:
		return -1
	}
	return 0
}

// withSemicolons inserts ';' in front of the given tokens of src
func withSemicolons(src string, toks []token.Token, idx []int) (string, bool) {
	starts := lineStarts(src)
	var b strings.Builder
	prev := 0
	for _, i := range idx {
		o, ok := offsetOf(src, starts, toks[i].Start)
		if !ok || o < prev {
			return "", false
		}
		b.WriteString(src[prev:o])
		b.WriteString(";")
		prev = o
	}
	b.WriteString(src[prev:])
	return b.String(), true
}

// modeClauses checks T1, S1 and S3 on an arbitrary source.
func modeClauses(src string, dist map[string]int, tag string) (detail string, sig []string) {
	var runs [2][2]modeRun
	for t := 0; t < 2; t++ {
		for s := 0; s < 2; s++ {
			runs[t][s] = runMode(src, t == 1, s == 1)
		}
	}
	// T1
	for s := 0; s < 2; s++ {
		st, to := runs[0][s], runs[1][s]
		if !st.ok() {
			dist[tag+" strict rejects"]++
			continue
		}
		dist[tag+" strict accepts"]++
		sig = append(sig, "T1")
		if !to.ok() {
			return fmt.Sprintf("%s accepts but %s reports %v; source %q", modeName(false, s == 1), modeName(true, s == 1), to.errs, src), sig
		}
		if to.sx != st.sx || to.eof != st.eof {
			return fmt.Sprintf("%s accepts but %s returns a different tree; source %q; strict %s tolerant %s", modeName(false, s == 1), modeName(true, s == 1), src, st.sx, to.sx), sig
		}
	}
	toks := tokensToEOF(src)
	lib := lineInitialBrackets(toks)
	if len(lib) == 0 {
		dist[tag+" no line-initial bracket"]++
		sig = append(sig, "S1")
		for t := 0; t < 2; t++ {
			d, s := runs[t][0], runs[t][1]
			if d.sx != s.sx || d.eof != s.eof || strings.Join(d.errs, " ") != strings.Join(s.errs, " ") || d.errFlag != s.errFlag {
				return fmt.Sprintf("no '(' or '[' after a line break, yet %s and %s differ; source %q; default %s %v smart %s %v", modeName(t == 1, false), modeName(t == 1, true), src, d.sx, d.errs, s.sx, s.errs), sig
			}
		}
		return "", sig
	}
	dist[tag+" with line-initial bracket"]++
	var ins []int
	for _, i := range lib {
		switch continuesOperand(toks, i) {
		case 1:
			ins = append(ins, i)
		case -1:
			dist[tag+" S3 skipped (bracket after } ++ --)"]++
			return "", sig
		}
	}
	src2, ok := withSemicolons(src, toks, ins)
	if !ok {
		dist[tag+" S3 skipped (position)"]++
		return "", sig
	}
	sig = append(sig, fmt.Sprintf("S3:%d/%d", len(ins), len(lib)))
	for t := 0; t < 2; t++ {
		sm := runs[t][1]
		df := runMode(src2, t == 1, false)
		if sm.ok() != df.ok() {
			return fmt.Sprintf("%s on %q: errors %v, but %s on the text with ';' before the line-initial brackets %q: errors %v", modeName(t == 1, true), src, sm.errs, modeName(t == 1, false), src2, df.errs), sig
		}
		if sm.ok() && sm.canon != df.canon {
			return fmt.Sprintf("%s on %q gives %s, but %s on the text with ';' before the line-initial brackets %q gives %s", modeName(t == 1, true), src, sm.canon, modeName(t == 1, false), src2, df.canon), sig
		}
		if sm.ok() {
			dist[tag+" S3 compared trees"]++
		} else {
			dist[tag+" S3 both rejected"]++
		}
	}
	return "", sig
}

// ---- nosep ----

func renderOne(r *rng, s *shape, layout int) (string, []rtok) {
	return renderProgram(r, []*shape{s}, layout, 0, false, 0, nil)
}

func c13NoSep(seed uint64) (want []*shape, txt string, ok bool, where int) {
	r := newRng(seed, "c13nosep")
	g := &shapeGen{r: r}
	var first *shape
	switch r.intn(4) {
	case 0:
		first = sh("let", pick(r, identPool), g.optExpr(2))
	case 1:
		first = sh("ret", "", g.expr(2))
	default:
		first = sh("es", "", g.expr(1+r.intn(2)))
	}
	second := g.stmt(1 + r.intn(2))
	layout := r.intn(2)
	t1, k1 := renderOne(r, first, layout)
	t2, k2 := renderOne(r, second, layout)
	where = r.intn(4)
	if len(k1) < 2 || k1[len(k1)-1].text != ";" || !strings.HasSuffix(t1, ";") || len(k2) == 0 {
		return nil, "", false, where
	}
	c := k2[0].text[0]
	if !(isWordTok(k2[0].text) || c == '"' || c == '\'') {
		return nil, "", false, where
	}
	if strings.ContainsAny(t1, "\n\r") {
		return nil, "", false, where
	}
	pair := strings.TrimSuffix(t1, ";")
	pair = strings.TrimRight(pair, " ") + " " + t2
	switch where {
	case 0:
		return []*shape{first, second}, pair, true, where
	case 1:
		a, b := g.stmt(1), g.stmt(1)
		ta, _ := renderProgram(r, []*shape{a}, layout, 0, false, 0, nil)
		tb, _ := renderProgram(r, []*shape{b}, layout, 0, false, 0, nil)
		return []*shape{a, first, second, b}, ta + "\n" + pair + "\n" + tb, true, where
	case 2:
		return []*shape{sh("blk", "", first, second)}, "{ " + pair + " }", true, where
	}
	return []*shape{sh("fd", "f", sh("params", "a"), sh("blk", "", first, second))}, "function f(a) { " + pair + " }", true, where
}

func checkNoSep(seed uint64, dist map[string]int) (detail, sig string) {
	want, txt, ok, where := c13NoSep(seed)
	if !ok {
		dist["nosep discarded (second statement starts with a punctuator)"]++
		return "", ""
	}
	dist[fmt.Sprintf("nosep placement %d", where)]++
	if runMode(txt, false, false).ok() {
		dist["nosep strict accepts too"]++
	} else {
		dist["nosep strict rejects"]++
	}
	wc := progCanon(want)
	for s := 0; s < 2; s++ {
		m := runMode(txt, true, s == 1)
		if !m.ok() {
			return fmt.Sprintf("%s reports %v for two statements on one line: %q", modeName(true, s == 1), m.errs, txt), "err"
		}
		if m.canon != wc {
			return fmt.Sprintf("%s does not keep both statements of %q: want %s got %s", modeName(true, s == 1), txt, wc, m.canon), "tree"
		}
	}
	return "", "nosep:" + txt
}

// ---- open blocks ----

func c13Open(seed uint64) (want []*shape, txt string, depth int, ok bool) {
	r := newRng(seed, "c13open")
	g := &shapeGen{r: r}
	depth = 1 + r.intn(3)
	var open func(d int) *shape
	inner := func(d int) *shape {
		var kids []*shape
		for i, k := 0, r.intn(3); i < k; i++ {
			kids = append(kids, g.stmt(1+r.intn(2)))
		}
		if d > 1 {
			kids = append(kids, open(d-1))
		}
		return sh("blk", "", kids...)
	}
	params := func() *shape { return sh("params", strings.Join(g.params(), ",")) }
	open = func(d int) *shape {
		switch r.intn(9) {
		case 0:
			return sh("fd", pick(r, identPool), params(), inner(d))
		case 1:
			return sh("if", "", g.expr(1), inner(d), nil)
		case 2:
			return sh("if", "", g.expr(1), g.block(1), inner(d))
		case 3:
			return sh("while", "", g.expr(1), inner(d))
		case 4:
			return sh("for", "", nil, g.optExpr(1), nil, inner(d))
		case 5:
			return sh("let", pick(r, identPool), sh("fn", "", params(), inner(d)))
		case 6:
			return sh("es", "", sh("asg", "=", sh("id", pick(r, identPool)), sh("fn", "", params(), inner(d))))
		case 7:
			return sh("ret", "", sh("fn", pick(r, identPool), params(), inner(d)))
		}
		return inner(d)
	}
	for i, k := 0, r.intn(3); i < k; i++ {
		want = append(want, g.stmt(1+r.intn(2)))
	}
	want = append(want, open(depth))
	full, rt := renderProgram(r, want, r.intn(3), r.intn(3), false, 0, nil)
	lexed := tokensToEOF(full)
	lexed = lexed[:len(lexed)-1]
	if len(lexed) != len(rt) {
		return nil, "", depth, false
	}
	cut, seen := -1, 0
	for i := len(rt) - 1; i >= 0; i-- {
		if rt[i].text == "}" {
			seen++
			if seen == depth {
				cut = i
				break
			}
			continue
		}
		if rt[i].text != ";" {
			return nil, "", depth, false
		}
	}
	if cut < 0 {
		return nil, "", depth, false
	}
	o, ok2 := offsetOf(full, lineStarts(full), lexed[cut].Start)
	if !ok2 {
		return nil, "", depth, false
	}
	return want, full[:o], depth, true
}

func checkOpen(seed uint64, dist map[string]int) (detail, sig string) {
	want, txt, depth, ok := c13Open(seed)
	if !ok {
		return "ORACLE: open-block case could not be cut", "gen"
	}
	dist[fmt.Sprintf("open depth %d", depth)]++
	if runMode(txt, false, false).ok() {
		return fmt.Sprintf("ORACLE: strict mode accepts the cut program %q", txt), "gen"
	}
	wc := progCanon(want)
	smartToo := len(lineInitialBrackets(tokensToEOF(txt))) == 0
	for s := 0; s < 2; s++ {
		if s == 1 && !smartToo {
			dist["open: smart skipped (line-initial bracket)"]++
			continue
		}
		m := runMode(txt, true, s == 1)
		if !m.ok() {
			return fmt.Sprintf("%s reports %v for blocks left open at end of input: %q", modeName(true, s == 1), m.errs, txt), "err"
		}
		if m.canon != wc {
			return fmt.Sprintf("%s loses statements of %q: want %s got %s", modeName(true, s == 1), txt, wc, m.canon), "tree"
		}
	}
	return "", fmt.Sprintf("open%d:%s", depth, txt)
}

// ---- statements separated by line breaks only, beginning with ( or [ ----

func c13Snl(seed uint64) (want []*shape, txt string, rt []rtok, layout int) {
	r := newRng(seed, "c13snl")
	g := &shapeGen{r: r}
	ng := &nestGen{r: r, g: g}
	bracketStmt := func() *shape {
		switch r.intn(7) {
		case 0:
			return sh("es", "", sh("grp", "", g.expr(2)))
		case 1:
			return sh("es", "", sh("arr", "", g.exprs(1, 3)...))
		case 2: // immediately invoked function
			return sh("es", "", sh("call", "", append([]*shape{sh("grp", "", ng.fnExpr(2))}, g.exprs(1, 2)...)...))
		case 3:
			return sh("es", "", sh("mem", "", sh("arr", "", g.exprs(1, 2)...), sh("id", pick(r, identPool))))
		case 4:
			return sh("es", "", sh("asg", "=", sh("mem", "", sh("grp", "", g.expr(1)), sh("id", pick(r, identPool))), g.expr(1)))
		case 5:
			return sh("es", "", sh("bin", pick(r, binOps), sh("grp", "", g.expr(1)), g.expr(1)))
		}
		return sh("es", "", sh("call", "", append([]*shape{sh("grp", "", g.expr(1))}, g.exprs(1, 2)...)...))
	}
	var gen func(d int) *shape
	gen = func(d int) *shape {
		if r.chance(1, 2) {
			return bracketStmt()
		}
		if d > 0 && r.chance(1, 5) {
			k := 1 + r.intn(3)
			kids := make([]*shape, k)
			for i := range kids {
				kids[i] = gen(d - 1)
			}
			if r.chance(1, 2) {
				return sh("fd", pick(r, identPool), sh("params", ""), sh("blk", "", kids...))
			}
			return sh("blk", "", kids...)
		}
		return g.stmt(1 + r.intn(2))
	}
	n := 2 + r.intn(4)
	for i := 0; i < n; i++ {
		want = append(want, gen(2))
	}
	layout = r.intn(3)
	if r.chance(1, 2) {
		layout = r.intn(2)
	}
	txt, rt = renderProgram(r, want, layout, 1, true, 0, nil)
	return
}

func checkSnl(seed uint64, dist map[string]int) (detail, sig string) {
	want, txt, rt, layout := c13Snl(seed)
	lexed := tokensToEOF(txt)
	if len(lexed)-1 != len(rt) {
		return fmt.Sprintf("ORACLE: %d rendered tokens, %d lexed; %q", len(rt), len(lexed)-1, txt), "gen"
	}
	lib := lineInitialBrackets(lexed)
	atStart := 0
	for _, i := range lib {
		if !rt[i].stmtBeg {
			// wild layout: a line break in front of a call / index bracket inside a statement
			dist["snl: line break inside a statement before a bracket (general clauses only)"]++
			d, s := modeClauses(txt, dist, "snl")
			return d, strings.Join(s, ",")
		}
		atStart++
	}
	dist[fmt.Sprintf("snl layout %d", layout)]++
	dist[fmt.Sprintf("snl statements beginning with a line-initial bracket: %d", bucket(atStart))]++
	wc := progCanon(want)
	// ';' goes in front of a statement-initial bracket that follows a complete operand (the end of
	// a let / return / expression statement); not after '{', a statement header or at the very
	// beginning, where an empty statement would result; after '}' the tokens alone do not tell
	var ins []int
	semiKnown := true
	for _, i := range lib {
		switch continuesOperand(lexed, i) {
		case 1:
			ins = append(ins, i)
		case -1:
			semiKnown = false
		}
	}
	src2, ok := withSemicolons(txt, lexed, ins)
	if !ok {
		return "ORACLE: cannot insert semicolons", "gen"
	}
	if !semiKnown {
		dist["snl: ';' comparison skipped (bracket after })"]++
	}
	for t := 0; t < 2; t++ {
		m := runMode(txt, t == 1, true)
		if !m.ok() {
			return fmt.Sprintf("%s reports %v on statements separated by line breaks: %q", modeName(t == 1, true), m.errs, txt), "err"
		}
		if m.canon != wc {
			return fmt.Sprintf("%s does not yield the statements of %q: want %s got %s", modeName(t == 1, true), txt, wc, m.canon), "tree"
		}
		d := runMode(src2, t == 1, false)
		if semiKnown && (!d.ok() || d.canon != m.canon) {
			return fmt.Sprintf("%s on %q differs from %s on %q: %s %v", modeName(t == 1, true), txt, modeName(t == 1, false), src2, d.canon, d.errs), "semi"
		}
		d0 := runMode(txt, t == 1, false)
		if t == 0 {
			if d0.ok() && d0.canon == m.canon {
				dist["snl: default mode agrees"]++
			} else if d0.ok() {
				dist["snl: default mode reads a different tree"]++
			} else {
				dist["snl: default mode rejects"]++
			}
		}
	}
	// the general clauses as well
	if d, _ := modeClauses(txt, dist, "snl"); d != "" {
		return d, "general"
	}
	if atStart == 0 {
		return "", ""
	}
	return "", fmt.Sprintf("snl%d:%s", atStart, txt)
}

func checkC13(line string, dist map[string]int) (detail, sig, class string) {
	f := strings.SplitN(line, " ", 2)
	if len(f) != 2 {
		die("bad C13 case %q", line)
	}
	var seed uint64
	fmt.Sscan(f[1], &seed)
	dist["kind "+f[0]]++
	switch f[0] {
	case "ref":
		_, txt := c02Case(seed)
		d, s := modeClauses(txt, dist, "ref")
		return d, strings.Join(s, ","), ""
	case "src":
		d, s := modeClauses(unhx(f[1]), dist, "src")
		return d, strings.Join(s, ","), ""
	case "nosep":
		d, s := checkNoSep(seed, dist)
		return d, s, ""
	case "open":
		d, s := checkOpen(seed, dist)
		return d, s, ""
	case "snl":
		d, s := checkSnl(seed, dist)
		return d, s, ""
	}
	die("bad C13 kind %q", f[0])
	return
}
