package main

import (
	"fmt"
	"strconv"
	"strings"

	"github.com/xjslang/xjs/ast"
	"github.com/xjslang/xjs/lexer"
	"github.com/xjslang/xjs/parser"
	"github.com/xjslang/xjs/token"
)

// Direct oracle for C04 (interception is transparent, ordered, re-entrant), search support.
// input line: "<mode> <seq> <hexsrc>"
//   mode = "-" | "T" | "S" | "T;S"
//   seq  = "-" or a comma-separated installation sequence; item = <kind><what>[*]
//          kind s (statement) / e (expression) / t (token); what p (pass-through), q<N> (probe
//          logging its id and what it sees, then passing through), r (expression only: parses the
//          prefix itself and asks the parser to continue the remaining expression);
//          '*' = installed from inside a plugin given to Install, otherwise directly on the builder
// The items are installed in sequence order, kinds interleaved.

func init() {
	oracles["C04"] = &oracle{
		rule:  "sources: malformed corpus, generated programs in random layouts, token/byte mutations, fragment soup, reference programs x 4 modes x installation sequences of 0..8 interceptors (statement p/q, expression p/q/r, token p/q; any interleaving of kinds; each one installed directly or from a plugin passed to Install). Transparency: tree with every token field, EOF token, error list, error flag, final context, the token stream of a lexer built from the same builder, and the output of the compact / pretty / source-map compilers equal those of a parser without interceptors. Order: the log of the statement (expression) probes is, step by step, the step sequence observed by a single probe alone, each step logging the probes in installation order with the same current token (expression probes installed after an 'r' interceptor never run: 'r' does not delegate); for error-free parses the single-probe step sequence itself is compared with the steps derived from the resulting tree (every statement once, first token; every operand expression parsed by a recursive step, first token). Token probes: on every NextToken call each probe logs exactly once, with lexer Line/Column equal to the Start of the token returned; within one call the probes run in REVERSE installation order (lexer.useTokenInterceptor wraps the previous chain, the last one installed is outermost). Non-trivial = at least one interceptor and at least 2 tokens; distinct by (input, counts per kind, steps)",
		gen:   genC04,
		check: countFailures(checkC04),
	}
}

func genC04(r *rng, n int, tier string) []string {
	var srcs []string
	srcs = append(srcs, genParseSources(r, n*3/4)...)
	for len(srcs) < n+len(parseCorpus) {
		_, txt := c02Case(r.next() % (1 << 40))
		srcs = append(srcs, txt)
	}
	var out []string
	for i, s := range srcs {
		k := r.intn(9)
		if i%7 == 0 {
			k = 8
		}
		var items []string
		nq := 0
		for j := 0; j < k; j++ {
			kind := pick(r, []string{"s", "e", "e", "t"})
			what := "p"
			switch r.intn(4) {
			case 0, 1:
				nq++
				what = fmt.Sprintf("q%d", nq)
			case 2:
				if kind == "e" {
					what = "r"
				}
			}
			it := kind + what
			if r.chance(1, 2) {
				it += "*"
			}
			items = append(items, it)
		}
		seq := "-"
		if len(items) > 0 {
			seq = strings.Join(items, ",")
		}
		out = append(out, pick(r, fourModes)+" "+seq+" "+hx(s))
	}
	return out
}

type c04Item struct {
	kind   byte // 's', 'e', 't'
	what   byte // 'p', 'q', 'r'
	id     int
	plugin bool
}

func parseC04Seq(s string) []c04Item {
	if s == "-" {
		return nil
	}
	var out []c04Item
	for _, it := range strings.Split(s, ",") {
		var c c04Item
		if strings.HasSuffix(it, "*") {
			c.plugin = true
			it = it[:len(it)-1]
		}
		if len(it) < 2 {
			die("bad C04 item %q", it)
		}
		c.kind, c.what = it[0], it[1]
		if c.what == 'q' {
			c.id, _ = strconv.Atoi(it[2:])
		}
		if !strings.ContainsRune("set", rune(c.kind)) || !strings.ContainsRune("pqr", rune(c.what)) || (c.what == 'r' && c.kind != 'e') {
			die("bad C04 item %q", it)
		}
		out = append(out, c)
	}
	return out
}

// buildC04 builds a real parser builder with the installation sequence applied in order.
func buildC04(mode string, seq []c04Item) (*parser.Builder, *[]event) {
	events := &[]event{}
	lb := lexer.NewBuilder()
	pb := parser.NewBuilder(lb)
	pb.WithTolerantMode(strings.Contains(mode, "T")).WithSmartSemicolon(strings.Contains(mode, "S"))
	for _, it := range seq {
		it := it
		f := func(pb *parser.Builder) {
			switch it.kind {
			case 's':
				if it.what == 'p' {
					pb.UseStatementInterceptor(func(p *parser.Parser, next func() ast.Statement) ast.Statement { return next() })
				} else {
					pb.UseStatementInterceptor(func(p *parser.Parser, next func() ast.Statement) ast.Statement {
						*events = append(*events, event{id: it.id, kind: 0, tok: p.CurrentToken, ctx: int(p.CurrentContext()), inFn: p.IsInFunction()})
						return next()
					})
				}
			case 'e':
				switch it.what {
				case 'p':
					pb.UseExpressionInterceptor(func(p *parser.Parser, next func() ast.Expression) ast.Expression { return next() })
				case 'r':
					pb.UseExpressionInterceptor(func(p *parser.Parser, next func() ast.Expression) ast.Expression {
						left := p.ParsePrefixExpression()
						return p.ParseRemainingExpression(left)
					})
				default:
					pb.UseExpressionInterceptor(func(p *parser.Parser, next func() ast.Expression) ast.Expression {
						*events = append(*events, event{id: it.id, kind: 1, tok: p.CurrentToken, ctx: int(p.CurrentContext()), inFn: p.IsInFunction()})
						return next()
					})
				}
			case 't':
				if it.what == 'p' {
					pb.LexerBuilder.UseTokenInterceptor(func(l *lexer.Lexer, next func() token.Token) token.Token { return next() })
				} else {
					pb.LexerBuilder.UseTokenInterceptor(func(l *lexer.Lexer, next func() token.Token) token.Token {
						*events = append(*events, event{id: it.id, kind: 2, line: l.Line, col: l.Column})
						return next()
					})
				}
			}
		}
		if it.plugin {
			pb.Install(f)
		} else {
			f(pb)
		}
	}
	return pb, events
}

type c04Obs struct {
	tree, eof, errs, ctx string
	errFlag              bool
	code                 []string
	prog                 *ast.Program
}

var c04Ccfgs = []string{"c", "cm", "p:" + hx("  ") + ":1", "pm:" + hx("\t") + ":0"}

func observeC04(pb *parser.Builder, src string) c04Obs {
	p := pb.Build(src)
	prog, err := p.ParseProgram()
	var es []string
	for _, e := range p.Errors() {
		es = append(es, errKind(e)+"/"+e.Message)
	}
	o := c04Obs{tree: sxStmts(prog.Statements), eof: tk(prog.EOF), errs: strings.Join(es, " "), errFlag: err != nil,
		ctx: fmt.Sprintf("%d/%v", int(p.CurrentContext()), p.IsInFunction()), prog: prog}
	for _, cc := range c04Ccfgs {
		o.code = append(o.code, compileObservable(parseCcfg(cc), prog))
	}
	return o
}

// ---- parse steps derived from a tree ----

type step struct {
	kind int // 0 statement, 1 expression
	tok  token.Token
}

func firstTokExpr(e ast.Expression) (token.Token, bool) {
	switch n := e.(type) {
	case *ast.Identifier:
		return n.Token, true
	case *ast.IntegerLiteral:
		return n.Token, true
	case *ast.FloatLiteral:
		return n.Token, true
	case *ast.StringLiteral:
		return n.Token, true
	case *ast.MultiStringLiteral:
		return n.Token, true
	case *ast.BooleanLiteral:
		return n.Token, true
	case *ast.NullLiteral:
		return n.Token, true
	case *ast.LetExpression:
		return n.Token, true
	case *ast.UnaryExpression:
		return n.Token, true
	case *ast.GroupedExpression:
		return n.Token, true
	case *ast.FunctionExpression:
		return n.Token, true
	case *ast.ArrayLiteral:
		return n.Token, true
	case *ast.ObjectLiteral:
		return n.Token, true
	case *ast.BinaryExpression:
		return firstTokExpr(n.Left)
	case *ast.PostfixExpression:
		return firstTokExpr(n.Left)
	case *ast.CallExpression:
		return firstTokExpr(n.Function)
	case *ast.MemberExpression:
		return firstTokExpr(n.Object)
	case *ast.AssignmentExpression:
		return firstTokExpr(n.Left)
	case *ast.CompoundAssignmentExpression:
		return firstTokExpr(n.Left)
	}
	return token.Token{}, false
}

type stepWalker struct {
	steps []step
	bad   bool
}

// operand: e is parsed by a parse step of its own (asStep) or is the left operand the
// enclosing step has already built (not a step)
func (w *stepWalker) expr(e ast.Expression, asStep bool) {
	if isNilNode(e) {
		w.bad = true
		return
	}
	if asStep {
		t, ok := firstTokExpr(e)
		if !ok {
			w.bad = true
			return
		}
		w.steps = append(w.steps, step{1, t})
	}
	switch n := e.(type) {
	case *ast.LetExpression:
		if !isNilNode(n.Value) {
			w.expr(n.Value, true)
		}
	case *ast.UnaryExpression:
		w.expr(n.Right, true)
	case *ast.GroupedExpression:
		w.expr(n.Expression, true)
	case *ast.FunctionExpression:
		w.block(n.Body)
	case *ast.ArrayLiteral:
		for _, x := range n.Elements {
			w.expr(x, true)
		}
	case *ast.ObjectLiteral:
		for _, p := range n.Properties {
			w.expr(p.Key, true)
			w.expr(p.Value, true)
		}
	case *ast.BinaryExpression:
		w.expr(n.Left, false)
		w.expr(n.Right, true)
	case *ast.PostfixExpression:
		w.expr(n.Left, false)
	case *ast.CallExpression:
		w.expr(n.Function, false)
		for _, x := range n.Arguments {
			w.expr(x, true)
		}
	case *ast.MemberExpression:
		w.expr(n.Object, false)
		w.expr(n.Property, true)
	case *ast.AssignmentExpression:
		w.expr(n.Left, false)
		w.expr(n.Value, true)
	case *ast.CompoundAssignmentExpression:
		w.expr(n.Left, false)
		w.expr(n.Value, true)
	}
}

func (w *stepWalker) block(b *ast.BlockStatement) {
	if b == nil {
		w.bad = true
		return
	}
	for _, s := range b.Statements {
		w.stmt(s)
	}
}

func (w *stepWalker) stmt(s ast.Statement) {
	if isNilNode(s) {
		w.bad = true
		return
	}
	switch n := s.(type) {
	case *ast.LetStatement:
		w.steps = append(w.steps, step{0, n.Token})
		if !isNilNode(n.Value) {
			w.expr(n.Value, true)
		}
	case *ast.ReturnStatement:
		w.steps = append(w.steps, step{0, n.Token})
		if !isNilNode(n.ReturnValue) {
			w.expr(n.ReturnValue, true)
		}
	case *ast.ExpressionStatement:
		t, ok := firstTokExpr(n.Expression)
		if !ok {
			w.bad = true
			return
		}
		w.steps = append(w.steps, step{0, t})
		w.expr(n.Expression, true)
	case *ast.FunctionDeclaration:
		w.steps = append(w.steps, step{0, n.Token})
		w.block(n.Body)
	case *ast.BlockStatement:
		w.steps = append(w.steps, step{0, n.Token})
		w.block(n)
	case *ast.IfStatement:
		w.steps = append(w.steps, step{0, n.Token})
		w.expr(n.Condition, true)
		w.stmt(n.ThenBranch)
		if !isNilNode(n.ElseBranch) {
			w.stmt(n.ElseBranch)
		}
	case *ast.WhileStatement:
		w.steps = append(w.steps, step{0, n.Token})
		w.expr(n.Condition, true)
		w.stmt(n.Body)
	case *ast.ForStatement:
		w.steps = append(w.steps, step{0, n.Token})
		if !isNilNode(n.Init) {
			_, isLet := n.Init.(*ast.LetExpression)
			w.expr(n.Init, !isLet)
		}
		if !isNilNode(n.Condition) {
			w.expr(n.Condition, true)
		}
		if !isNilNode(n.Update) {
			w.expr(n.Update, true)
		}
		w.stmt(n.Body)
	default:
		w.bad = true
	}
}

func tokBrief(t token.Token) string {
	return fmt.Sprintf("%q@%d:%d", t.Literal, t.Start.Line, t.Start.Column)
}

func sameTok(a, b token.Token) bool {
	return a.Type == b.Type && a.Literal == b.Literal && a.Start == b.Start && a.End == b.End
}

func checkC04(line string, dist map[string]int) (detail, sig, class string) {
	f := strings.SplitN(line, " ", 3)
	if len(f) != 3 {
		die("bad C04 case %q", line)
	}
	mode, seq, src := f[0], parseC04Seq(f[1]), unhx(f[2])
	if len(seq) > 8 {
		die("C04: more than 8 interceptors")
	}
	var sq, eq, tq []int // probe ids per kind in installation order
	firstR := false
	nS, nE, nT, nPlug := 0, 0, 0, 0
	var eqLive []int // expression probes that are reached (installed before the first 'r')
	for _, it := range seq {
		if it.plugin {
			nPlug++
		}
		switch it.kind {
		case 's':
			nS++
			if it.what == 'q' {
				sq = append(sq, it.id)
			}
		case 'e':
			nE++
			if it.what == 'q' {
				eq = append(eq, it.id)
				if !firstR {
					eqLive = append(eqLive, it.id)
				}
			}
			if it.what == 'r' {
				firstR = true
			}
		case 't':
			nT++
			if it.what == 'q' {
				tq = append(tq, it.id)
			}
		}
	}
	dist[fmt.Sprintf("interceptors=%d", len(seq))]++
	dist["mode="+mode]++
	if firstR {
		dist["with re-entrant"]++
	}
	if nPlug > 0 {
		dist["with plugin-installed"]++
	}

	// reference: no interceptors
	plainB, _ := buildC04(mode, nil)
	plain := observeC04(plainB, src)
	plainToks := tokensToEOF(src)
	if plain.errFlag {
		dist["rejected"]++
	} else {
		dist["accepted"]++
	}

	// the run under test
	pb, events := buildC04(mode, seq)
	// the property speaks about every parser built from the configured builder: in two
	// thirds of the cases the observed one is the 2nd or 3rd built from it
	for k := len(src) % 3; k > 0; k-- {
		observeC04(pb, src)
		*events = (*events)[:0]
	}
	got := observeC04(pb, src)
	parseEvents := append([]event(nil), *events...)
	desc := fmt.Sprintf("with interceptors %s (mode %s) on %q", f[1], mode, src)
	switch {
	case got.tree != plain.tree:
		return fmt.Sprintf("tree changes %s: plain %s, intercepted %s", desc, plain.tree, got.tree), "tree", ""
	case got.eof != plain.eof:
		return fmt.Sprintf("EOF token changes %s: %s vs %s", desc, plain.eof, got.eof), "eof", ""
	case got.errs != plain.errs || got.errFlag != plain.errFlag:
		return fmt.Sprintf("errors change %s: plain [%s], intercepted [%s]", desc, plain.errs, got.errs), "errs", ""
	case got.ctx != plain.ctx:
		return fmt.Sprintf("final context changes %s: %s vs %s", desc, plain.ctx, got.ctx), "ctx", ""
	}
	for i := range got.code {
		if got.code[i] != plain.code[i] {
			return fmt.Sprintf("output of compiler %s changes %s", c04Ccfgs[i], desc), "code", ""
		}
	}

	// token stream of a lexer built from the same builder; token probes per NextToken call
	*events = (*events)[:0]
	lx := pb.LexerBuilder.Build(src)
	plainMore := lexAll(src, len(plainToks)+2) // the same number of requests to a plain lexer
	for i := 0; i < len(plainMore); i++ {
		before := len(*events)
		t := lx.NextToken()
		want := plainMore[i]
		if fmtToken(t) != fmtToken(want) {
			return fmt.Sprintf("token %d changes %s: plain %s, intercepted %s", i, desc, fmtToken(want), fmtToken(t)), "tokens", ""
		}
		evs := (*events)[before:]
		if len(evs) != len(tq) {
			return fmt.Sprintf("NextToken call %d (%s): %d token-probe events for %d probes %s", i, tokBrief(t), len(evs), len(tq), desc), "tcount", ""
		}
		for j, e := range evs {
			if e.kind != 2 || e.id != tq[len(tq)-1-j] {
				return fmt.Sprintf("NextToken call %d (%s): token probes logged %s, expected each once, last installed first %s", i, tokBrief(t), fmtEvents(evs), desc), "torder", ""
			}
			if e.line != t.Start.Line || e.col != t.Start.Column {
				return fmt.Sprintf("NextToken call %d: token probe q%d saw the lexer at %d:%d but the token %s starts at %d:%d %s", i, e.id, e.line, e.col, tokBrief(t), t.Start.Line, t.Start.Column, desc), "tpos", ""
			}
		}
	}

	// events of the parse: split by kind
	var sev, eev, tev []event
	for _, e := range parseEvents {
		switch e.kind {
		case 0:
			sev = append(sev, e)
		case 1:
			eev = append(eev, e)
		default:
			tev = append(tev, e)
		}
	}
	// token probes during the parse: groups of len(tq), positions = the token stream then EOF again
	if len(tq) > 0 {
		if len(tev)%len(tq) != 0 {
			return fmt.Sprintf("parse logged %d token-probe events for %d probes %s", len(tev), len(tq), desc), "tcount", ""
		}
		calls := len(tev) / len(tq)
		if calls < len(plainToks) {
			return fmt.Sprintf("parser requested %d tokens, the source has %d %s", calls, len(plainToks), desc), "tcount", ""
		}
		for c := 0; c < calls; c++ {
			want := plainToks[len(plainToks)-1]
			if c < len(plainToks) {
				want = plainToks[c]
			}
			for j := 0; j < len(tq); j++ {
				e := tev[c*len(tq)+j]
				if e.id != tq[len(tq)-1-j] || e.line != want.Start.Line || e.col != want.Start.Column {
					return fmt.Sprintf("during the parse, token request %d (%s at %d:%d): probe events %s %s", c, tokBrief(want), want.Start.Line, want.Start.Column, fmtEvents(tev[c*len(tq):(c+1)*len(tq)]), desc), "tparse", ""
				}
			}
		}
	}

	// reference step sequence: one statement probe and one expression probe alone
	refB, refEvents := buildC04(mode, []c04Item{{kind: 's', what: 'q', id: 1}, {kind: 'e', what: 'q', id: 2}})
	refObs := observeC04(refB, src)
	if refObs.tree != plain.tree || refObs.errs != plain.errs {
		return fmt.Sprintf("a single pair of probes changes the result (mode %s) on %q", mode, src), "tree", ""
	}
	var steps []step
	for _, e := range *refEvents {
		steps = append(steps, step{e.kind, e.tok})
	}
	// every step's token is a token of the source
	byStart := map[token.Position]token.Token{}
	for _, t := range plainToks {
		byStart[t.Start] = t
	}
	for _, s := range steps {
		if t, ok := byStart[s.tok.Start]; !ok || !sameTok(t, s.tok) {
			return fmt.Sprintf("probe ran with current token %s, which is not a token of the source (mode %s) %q", tokBrief(s.tok), mode, src), "steptok", ""
		}
	}
	// order: per kind, the log is the step sequence, each step logging the probes in installation order
	checkOrder := func(kind int, evs []event, ids []int, name string) string {
		var ks []step
		for _, s := range steps {
			if s.kind == kind {
				ks = append(ks, s)
			}
		}
		if len(ids) == 0 {
			if len(evs) != 0 {
				return fmt.Sprintf("%d %s events without a live probe %s", len(evs), name, desc)
			}
			return ""
		}
		if len(evs) != len(ks)*len(ids) {
			return fmt.Sprintf("%d %s parse steps and %d live probes %v, but %d events logged %s", len(ks), name, len(ids), ids, len(evs), desc)
		}
		for i, s := range ks {
			for j, id := range ids {
				e := evs[i*len(ids)+j]
				if e.id != id || !sameTok(e.tok, s.tok) {
					return fmt.Sprintf("%s step %d (current token %s): events %s, expected probes %v in installation order with that token %s", name, i, tokBrief(s.tok), fmtEvents(evs[i*len(ids):(i+1)*len(ids)]), ids, desc)
				}
			}
		}
		return ""
	}
	if d := checkOrder(0, sev, sq, "statement"); d != "" {
		return d, "sorder", ""
	}
	if d := checkOrder(1, eev, eqLive, "expression"); d != "" {
		return d, "eorder", ""
	}
	// the step sequence against the tree (error-free parses)
	if !plain.errFlag {
		w := &stepWalker{}
		for _, s := range plain.prog.Statements {
			w.stmt(s)
		}
		if w.bad {
			dist["steps: tree with absent child (not compared)"]++
		} else {
			dist["steps compared with tree"]++
			if len(w.steps) != len(steps) {
				return fmt.Sprintf("%d parse steps observed, %d constructs in the tree (mode %s) %q: observed %s expected %s", len(steps), len(w.steps), mode, src, fmtSteps(steps), fmtSteps(w.steps)), "steps", ""
			}
			for i := range steps {
				if steps[i].kind != w.steps[i].kind || !sameTok(steps[i].tok, w.steps[i].tok) {
					return fmt.Sprintf("parse step %d: probe of kind %d saw %s, the construct parsed begins with %s (kind %d) (mode %s) %q", i, steps[i].kind, tokBrief(steps[i].tok), tokBrief(w.steps[i].tok), w.steps[i].kind, mode, src), "steps", ""
				}
			}
		}
	}
	if len(seq) > 0 && len(plainToks) >= 3 {
		sig = fmt.Sprintf("s%d e%d t%d r%v plug%d steps%d", nS, nE, nT, firstR, nPlug, len(steps))
	}
	return "", sig, ""
}

func fmtSteps(ss []step) string {
	parts := make([]string, len(ss))
	for i, s := range ss {
		parts[i] = fmt.Sprintf("%d:%s", s.kind, tokBrief(s.tok))
	}
	return "[" + strings.Join(parts, " ") + "]"
}
