package main

import (
	"fmt"
	"sort"
	"strings"

	"github.com/xjslang/xjs/token"
)

// Direct oracle for C16 (parsing-context queries), search support.
// input lines:
//   "v <seed>"          a nested valid program rendered by the reference unparser, one statement
//                       probe and one expression probe installed; every probe event is compared
//                       with the nesting the renderer recorded for that source token
//   "m <cfg> <hexsrc>"  any input (valid or malformed), any mode, optional probes: final state only

func init() {
	oracles["C16"] = &oracle{
		rule:  "v: random programs biased towards nesting (blocks, function declarations, function expressions as values, in call arguments, object/array literals, conditions, IIFEs; depth up to 5) rendered by the reference unparser in all layouts x 4 modes, one case in eleven a deep nest of 15..70 levels (blocks in a function, nested function declarations / expressions, a function in the innermost block), probes si:q1 ei:q2 or selective probes only (asking at some of let/return/function), every event checked against the renderer's own nesting record of the current token; m: parse corpus, generated programs, token/byte mutations, fragment soup x 4 modes x with/without interceptors: context back at top level after parsing; non-trivial = at least one event below top level (v) / at least one '{' or 'function' in the input (m); distinct by (input, set of expected contexts x probe kinds, depth)",
		gen:   genC16,
		check: countFailures(checkC16),
	}
}

func genC16(r *rng, n int, tier string) []string {
	var out []string
	nv := n * 2 / 3
	for i := 0; i < nv; i++ {
		out = append(out, fmt.Sprintf("v %d", r.next()%(1<<40)))
	}
	srcs := genParseSources(r, n-nv)
	for i, s := range srcs {
		cfg := fourModes[i%4]
		if r.chance(1, 2) {
			items := []string{}
			if cfg != "-" {
				items = append(items, cfg)
			}
			items = append(items, "si:"+pick(r, []string{"q1", "p,q1", "q1,q3", "b,q1"}), "ei:"+pick(r, []string{"q2", "q2,r", "r,q2", "p", "b,q2"}))
			cfg = strings.Join(items, ";")
		}
		out = append(out, "m "+cfg+" "+hx(s))
	}
	return out
}

// nestGen builds shapes in which blocks and functions nest deeply and functions occur in
// every expression position.
type nestGen struct {
	r *rng
	g *shapeGen
}

func (n *nestGen) fnExpr(d int) *shape {
	name := ""
	if n.r.chance(1, 3) {
		name = pick(n.r, identPool)
	}
	return sh("fn", name, sh("params", strings.Join(n.g.params(), ",")), n.block(d-1))
}

func (n *nestGen) block(d int) *shape {
	k := n.r.intn(3)
	if d > 0 && k == 0 && n.r.chance(1, 2) {
		k = 1
	}
	kids := make([]*shape, k)
	for i := range kids {
		kids[i] = n.stmt(d)
	}
	return sh("blk", "", kids...)
}

func (n *nestGen) leaf() *shape { return n.g.expr(1) }

func (n *nestGen) expr(d int) *shape {
	r := n.r
	if d <= 0 {
		return n.leaf()
	}
	id := func() *shape { return sh("id", pick(r, identPool)) }
	switch r.intn(12) {
	case 0:
		return n.fnExpr(d)
	case 1: // function among call arguments
		args := []*shape{}
		for i, k := 0, 1+r.intn(3); i < k; i++ {
			if r.chance(1, 2) {
				args = append(args, n.fnExpr(d))
			} else {
				args = append(args, n.expr(d-1))
			}
		}
		return sh("call", "", append([]*shape{n.g.callee(1)}, args...)...)
	case 2: // object literal values
		kids := []*shape{}
		for i, k := 0, 1+r.intn(2); i < k; i++ {
			kids = append(kids, id(), n.expr(d))
		}
		return sh("obj", "", kids...)
	case 3:
		kids := []*shape{}
		for i, k := 0, 1+r.intn(3); i < k; i++ {
			kids = append(kids, n.expr(d-r.intn(2)))
		}
		return sh("arr", "", kids...)
	case 4:
		return sh("bin", pick(r, binOps), n.expr(d-1), n.expr(d-1))
	case 5:
		return sh("asg", pick(r, []string{"=", "+=", "-="}), n.g.lvalue(1), n.expr(d))
	case 6: // immediately invoked function
		return sh("call", "", sh("grp", "", n.fnExpr(d)), n.expr(d-1))
	case 7:
		return sh("un", pick(r, []string{"!", "-"}), n.expr(d-1))
	case 8:
		return sh("idx", "", n.g.callee(1), n.expr(d-1))
	case 9:
		return sh("grp", "", n.expr(d-1))
	}
	return n.leaf()
}

func (n *nestGen) body(d int) *shape {
	if n.r.chance(3, 4) {
		return n.block(d)
	}
	s := n.stmt(d)
	if s.k == "let" || s.k == "fd" {
		return sh("blk", "", s)
	}
	return s
}

func (n *nestGen) stmt(d int) *shape {
	r := n.r
	if d <= 0 {
		return sh("es", "", n.expr(0))
	}
	switch r.intn(12) {
	case 0, 1:
		return n.block(d - 1)
	case 2, 3:
		return sh("fd", pick(r, identPool), sh("params", strings.Join(n.g.params(), ",")), n.block(d-1))
	case 4:
		var els *shape
		if r.chance(1, 2) {
			els = n.body(d - 1)
		}
		thn := n.body(d - 1)
		if els != nil && (thn.k == "if" || thn.k == "while" || thn.k == "for") {
			thn = sh("blk", "", thn)
		}
		return sh("if", "", n.expr(d-1), thn, els)
	case 5:
		return sh("while", "", n.expr(d-1), n.body(d-1))
	case 6:
		var init, cond, upd *shape
		if r.chance(2, 3) {
			if r.chance(1, 2) {
				init = sh("lete", pick(r, identPool), n.expr(d-1))
			} else {
				init = n.expr(d - 1)
			}
		}
		if r.chance(2, 3) {
			cond = n.expr(d - 1)
		}
		if r.chance(2, 3) {
			upd = n.expr(d - 1)
		}
		return sh("for", "", init, cond, upd, n.body(d-1))
	case 7:
		return sh("let", pick(r, identPool), n.expr(d))
	case 8:
		return sh("ret", "", n.expr(d))
	}
	return sh("es", "", n.expr(d))
}

// deepNest builds n levels, each with a statement before and after the nested construct, so
// that questions are asked on the way into and out of the nest.
//   form 0: blocks inside one function declaration     form 1: nested function declarations
//   form 2: nested function expressions as let values  form 3: blocks, a function in the innermost
func deepNest(r *rng, form, n int) *shape {
	id := func() *shape { return sh("es", "", sh("id", pick(r, identPool))) }
	var inner *shape
	switch form {
	case 3:
		inner = sh("fd", "f", sh("params", ""), sh("blk", "", id(), sh("ret", "", sh("id", "a"))))
	default:
		inner = sh("blk", "", id())
	}
	for i := 0; i < n; i++ {
		var level *shape
		switch form {
		case 1:
			level = sh("fd", pick(r, identPool), sh("params", ""), sh("blk", "", id(), inner, id()))
		case 2:
			level = sh("let", pick(r, identPool), sh("fn", "", sh("params", ""), sh("blk", "", id(), inner, id())))
		default:
			level = sh("blk", "", id(), inner, id())
		}
		inner = level
	}
	if form == 0 {
		return sh("fd", "f", sh("params", ""), sh("blk", "", id(), inner, id()))
	}
	return inner
}

// c16Case regenerates the program of a seed: statements, text, rendered tokens, mode.
func c16Case(seed uint64) (stmts []*shape, txt string, toks []rtok, mode string) {
	r := newRng(seed, "c16case")
	ng := &nestGen{r: r, g: &shapeGen{r: r}}
	if seed%11 == 7 {
		// a deep nest (30..140 context levels; a function body counts two): the context
		// stack is unbounded, whatever its representation
		stmts = append(stmts, sh("es", "", ng.leaf()), deepNest(r, int(seed>>4)%4, 15+r.intn(56)), sh("es", "", ng.leaf()))
	} else {
		k := 1 + r.intn(3)
		d := 2 + r.intn(4)
		for i := 0; i < k; i++ {
			stmts = append(stmts, ng.stmt(d))
		}
	}
	red := 0
	if r.chance(1, 4) {
		red = 5 + r.intn(8)
	}
	txt, toks = renderProgram(r, stmts, r.intn(3), r.intn(3), false, red, nil)
	mode = fourModes[r.intn(4)]
	return
}

var ctxNames = []string{"Global(0)", "Function(1)", "Block(2)"}

func ctxName(c int) string {
	if c >= 0 && c < len(ctxNames) {
		return ctxNames[c]
	}
	return fmt.Sprintf("Context(%d)", c)
}

func clipN(s string, n int) string {
	if len(s) <= n {
		return s
	}
	return s[:n] + "..."
}

func checkC16(line string, dist map[string]int) (detail, sig, class string) {
	f := strings.SplitN(line, " ", 2)
	if len(f) != 2 {
		die("bad C16 case %q", line)
	}
	if f[0] == "m" {
		return checkC16Final(f[1], dist)
	}
	var seed uint64
	fmt.Sscan(f[1], &seed)
	_, txt, rt, mode := c16Case(seed)
	dist["v mode="+mode]++
	// half of the cases ask at every statement and expression; the others install
	// selective probes only (they ask at some of let / return / function), so that two
	// consecutive questions can fall under different context stacks of the same depth
	cfg := "si:q1;ei:q2"
	if (seed>>11)%3 == 0 { // an include-style interceptor runs a second parser of the same builder first
		cfg = "si:b,q1;ei:b,q2"
	}
	switch (seed >> 3) % 4 {
	case 2:
		cfg = fmt.Sprintf("si:s%d", 20+(seed>>5)%7)
	case 3:
		cfg = fmt.Sprintf("si:s%d;ei:s%d", 20+(seed>>5)%7, 20+(seed>>8)%7)
	}
	dist["v probes="+strings.NewReplacer("0", "", "1", "", "2", "", "3", "", "4", "", "5", "", "6", "", "7", "", "8", "", "9", "").Replace(cfg)]++
	if mode != "-" {
		cfg = mode + ";" + cfg
	}
	c := parsePcase(cfg + " " + hx(txt))
	b := buildParser(c, seed%2 == 1)
	_, err := b.p.ParseProgram()
	if int(b.p.CurrentContext()) != 0 || b.p.IsInFunction() {
		return fmt.Sprintf("after parsing (mode %s) context is %s, in function=%v; source %q", mode, ctxName(int(b.p.CurrentContext())), b.p.IsInFunction(), txt), "final", ""
	}
	if err != nil {
		// a smart-semicolon split of a wild layout may turn the program into an invalid one: the
		// nesting of a token of an invalid program is not defined by the renderer's record
		dist["v rejected (events not compared)"]++
		if !strings.Contains(mode, "S") {
			return fmt.Sprintf("ORACLE: generated program rejected in mode %s: %v; source %q", mode, b.p.Errors()[0], txt), "gen", ""
		}
		return "", "", ""
	}
	lexed := tokensToEOF(txt)
	lexed = lexed[:len(lexed)-1]
	if len(lexed) != len(rt) {
		return fmt.Sprintf("ORACLE: %d rendered tokens but %d lexed tokens; source %q", len(rt), len(lexed), txt), "gen", ""
	}
	byStart := map[token.Position]int{}
	for i, t := range lexed {
		byStart[t.Start] = i
	}
	var other, known string
	seen := map[string]bool{}
	maxFn, maxBl := 0, 0
	for _, e := range *b.events {
		i, ok := byStart[e.tok.Start]
		if !ok || lexed[i].Type != e.tok.Type {
			other = fmt.Sprintf("probe q%d ran with current token %q at %d:%d, which is not a token of the source %q", e.id, e.tok.Literal, e.tok.Start.Line, e.tok.Start.Column, txt)
			break
		}
		t := rt[i]
		wantFn := t.depthFn > 0
		wantCtx := 2
		if t.depthBl == 0 {
			wantCtx = 0
		} else if t.innerFn {
			wantCtx = 1
		}
		if t.depthFn > maxFn {
			maxFn = t.depthFn
		}
		if t.depthBl > maxBl {
			maxBl = t.depthBl
		}
		kind := "stmt"
		if e.kind == 1 {
			kind = "expr"
		}
		dist[fmt.Sprintf("event %s in %s", kind, ctxName(wantCtx))]++
		seen[fmt.Sprintf("%s/%d", kind, wantCtx)] = true
		if e.inFn == wantFn && e.ctx == wantCtx {
			continue
		}
		where := fmt.Sprintf("%s probe at token %q (%d:%d, %d enclosing blocks, %d of them function bodies, innermost is a function body: %v)",
			kind, e.tok.Literal, e.tok.Start.Line, e.tok.Start.Column, t.depthBl, t.depthFn, t.innerFn)
		if e.inFn == wantFn && wantCtx == 1 && e.ctx == 2 {
			if known == "" {
				// one canonical text per probe kind and function depth: the recorded failures stay few
				known = fmt.Sprintf("%s probe with the current token directly inside a function body (%d enclosing function bodies): CurrentContext()=%s, expected %s; IsInFunction()=%v is right", kind, t.depthFn, ctxName(e.ctx), ctxName(wantCtx), e.inFn)
			}
			continue
		}
		if other == "" {
			other = fmt.Sprintf("%s: CurrentContext()=%s IsInFunction()=%v, expected %s / %v; source %q", where, ctxName(e.ctx), e.inFn, ctxName(wantCtx), wantFn, txt)
		}
	}
	if maxBl > 0 {
		keys := make([]string, 0, len(seen))
		for k := range seen {
			keys = append(keys, k)
		}
		sort.Strings(keys)
		sig = fmt.Sprintf("%s fn%d bl%d", strings.Join(keys, ","), maxFn, maxBl)
	}
	dist[fmt.Sprintf("v max function depth %d", maxFn)]++
	if other != "" {
		return other, sig, ""
	}
	if known != "" {
		return known, sig, "function-body-reported-as-block"
	}
	return "", sig, ""
}

func checkC16Final(rest string, dist map[string]int) (detail, sig, class string) {
	c := parsePcase(rest)
	b := buildParser(c, len(c.src)%2 == 1)
	_, err := b.p.ParseProgram()
	if err != nil {
		dist["m rejected"]++
	} else {
		dist["m accepted"]++
	}
	if int(b.p.CurrentContext()) != 0 || b.p.IsInFunction() {
		return fmt.Sprintf("after parsing %q (cfg %s) context is %s, in function=%v", c.src, strings.SplitN(rest, " ", 2)[0], ctxName(int(b.p.CurrentContext())), b.p.IsInFunction()), "final", ""
	}
	if strings.Contains(c.src, "{") || strings.Contains(c.src, "function") {
		sig = "final"
		if err != nil {
			sig = "final-rejected"
		}
	}
	return "", sig, ""
}
