package main

import (
	"encoding/json"
	"os"
)

// dumpC02 writes n rendered reference programs as JSON (used to cross-check the
// reference unparser against a real JavaScript engine).
func dumpC02(seed uint64, n int, out string) {
	r := newRng(seed, "dump")
	var progs []string
	for i := 0; i < n; i++ {
		_, txt := c02Case(r.next() % (1 << 40))
		progs = append(progs, txt)
	}
	b, _ := json.Marshal(progs)
	os.WriteFile(out, b, 0o644)
}
