package main

import (
	"fmt"
	"strings"
)

// Random subset programs rendered straight to text, in random layouts.
// Used by the lex / parse / print suites and by several oracles.

type progGen struct {
	r      *rng
	depth  int
	layout int  // 0 compact-ish, 1 spaced, 2 wild (newlines, comments)
	semis  int  // 0 always ';', 1 newline-separated, 2 mixed
	noASI  bool // avoid constructs whose meaning depends on ASI subtleties
	idents []string
}

var identPool = []string{"a", "b", "c", "x", "y", "foo", "bar", "i", "n", "obj", "arr", "f", "g", "$v", "_t", "x1", "console", "log", "lets", "iff", "returns"}

func (g *progGen) gap() string {
	switch g.layout {
	case 0:
		return ""
	case 1:
		return " "
	}
	switch g.r.intn(12) {
	case 0:
		return "\n"
	case 1:
		return "  "
	case 2:
		return "\t"
	case 3:
		return " // c" + fmt.Sprint(g.r.intn(100)) + "\n"
	case 4:
		return "\n\n"
	case 5:
		return "\r\n"
	case 6, 7:
		return ""
	}
	return " "
}

// gap that never contains a line break (for restricted productions)
func (g *progGen) hgap() string {
	switch g.layout {
	case 0:
		return ""
	case 1:
		return " "
	}
	return pick(g.r, []string{"", " ", "  ", "\t"})
}

func (g *progGen) ident() string { return pick(g.r, identPool) }

func (g *progGen) number() string {
	r := g.r
	switch r.intn(10) {
	case 0:
		return fmt.Sprintf("0x%X", r.intn(4096))
	case 1:
		return fmt.Sprintf("0b%b", r.intn(64))
	case 2:
		return fmt.Sprintf("0o%o", r.intn(512))
	case 3:
		return fmt.Sprintf("%d.%d", r.intn(100), r.intn(1000))
	case 4:
		return fmt.Sprintf("%de%d", r.intn(50), r.intn(10))
	case 5:
		return fmt.Sprintf("%d.%dE-%d", r.intn(10), r.intn(10), r.intn(5))
	case 6:
		return "0"
	}
	return fmt.Sprint(r.intn(1000))
}

var strBodies = []string{"", "a", "hello world", `it\'s`, `say \"hi\"`, `tab\there`, `nl\nx`, `\x41\x7e`, `Aé`, `\u{1F600}`, `back\\slash`, "é✓", `q"q`, `p'p`, `\0`, `\x22`, `\u{22}`, `a\
b`}

func (g *progGen) str() string {
	b := pick(g.r, strBodies)
	if g.r.chance(1, 2) {
		if strings.Contains(b, "'") && !strings.Contains(b, `\'`) {
			return `"` + b + `"`
		}
		b = strings.ReplaceAll(b, `p'p`, `pp`)
		return "'" + b + "'"
	}
	b = strings.ReplaceAll(b, `q"q`, `qq`)
	return `"` + b + `"`
}

var rawBodies = []string{"", "abc", "multi\nline", "esc\\`tick", "${x} y", "trail  \nsp", `bs\\`, `\n`}

func (g *progGen) raw() string { return "`" + pick(g.r, rawBodies) + "`" }

var binOps = []string{"+", "-", "*", "/", "%", "==", "!=", "<", ">", "<=", ">=", "&&", "||"}

func (g *progGen) primary() string {
	r := g.r
	switch r.intn(14) {
	case 0, 1, 2, 3:
		return g.ident()
	case 4, 5:
		return g.number()
	case 6:
		return g.str()
	case 7:
		return g.raw()
	case 8:
		return pick(r, []string{"true", "false", "null"})
	case 9:
		if g.depth > 0 {
			return "(" + g.gap() + g.expr() + g.gap() + ")"
		}
	case 10:
		if g.depth > 0 {
			n := r.intn(4)
			parts := make([]string, n)
			for i := range parts {
				parts[i] = g.expr()
			}
			return "[" + g.gap() + strings.Join(parts, ","+g.gap()) + g.gap() + "]"
		}
	case 11:
		if g.depth > 0 {
			n := r.intn(3)
			parts := make([]string, n)
			for i := range parts {
				k := g.ident()
				if r.chance(1, 4) {
					k = g.str()
				}
				parts[i] = k + g.gap() + ":" + g.gap() + g.expr()
			}
			return "{" + g.gap() + strings.Join(parts, ","+g.gap()) + g.gap() + "}"
		}
	case 12:
		if g.depth > 1 {
			name := ""
			if r.chance(1, 3) {
				name = " " + g.ident()
			}
			return "function" + name + g.gap() + "(" + g.params() + ")" + g.gap() + g.block()
		}
	}
	return g.ident()
}

func (g *progGen) params() string {
	n := g.r.intn(4)
	ps := make([]string, n)
	for i := range ps {
		ps[i] = g.ident()
	}
	return strings.Join(ps, ","+g.gap())
}

func (g *progGen) postfixChain() string {
	e := g.primary()
	// object literal / function at the very start would be a statement-level hazard;
	// callers that start a statement wrap in parens when needed
	n := g.r.intn(3)
	for i := 0; i < n; i++ {
		switch g.r.intn(4) {
		case 0:
			e += g.hgap() + "." + g.gap() + g.ident()
		case 1:
			e += g.hgap() + "[" + g.gap() + g.expr() + g.gap() + "]"
		case 2:
			na := g.r.intn(3)
			as := make([]string, na)
			for j := range as {
				as[j] = g.expr()
			}
			e += g.hgap() + "(" + strings.Join(as, ","+g.gap()) + ")"
		case 3:
			e += g.hgap() + "." + g.ident()
		}
	}
	return e
}

func (g *progGen) unary() string {
	r := g.r
	switch r.intn(8) {
	case 0:
		return "!" + g.gap() + g.unary()
	case 1:
		return "-" + g.hgap() + " " + g.unary()
	case 2:
		return pick(r, []string{"++", "--"}) + g.gap() + g.lvalue()
	case 3:
		return g.lvalue() + g.hgap() + pick(r, []string{"++", "--"})
	}
	return g.postfixChain()
}

func (g *progGen) lvalue() string {
	if g.r.chance(1, 3) {
		return g.ident() + "." + g.ident()
	}
	if g.r.chance(1, 5) {
		return g.ident() + "[" + g.expr() + "]"
	}
	return g.ident()
}

func (g *progGen) binary(d int) string {
	if d <= 0 || g.r.chance(1, 3) {
		return g.unary()
	}
	op := pick(g.r, binOps)
	sp := g.gap()
	if g.layout == 0 && (op == "+" || op == "-") {
		sp = " " // keep "a + +b" style hazards out of compact-layout sources
	}
	return g.binary(d-1) + sp + op + sp + g.binary(d-1)
}

func (g *progGen) expr() string {
	g.depth--
	defer func() { g.depth++ }()
	if g.depth <= 0 {
		return g.unaryLeaf()
	}
	if g.r.chance(1, 6) {
		op := pick(g.r, []string{"=", "+=", "-="})
		return g.lvalue() + g.gap() + op + g.gap() + g.expr()
	}
	return g.binary(2)
}

func (g *progGen) unaryLeaf() string {
	switch g.r.intn(4) {
	case 0:
		return g.number()
	case 1:
		return g.str()
	}
	return g.ident()
}

func (g *progGen) term() string {
	switch g.semis {
	case 0:
		return g.hgap() + ";"
	case 1:
		return "\n"
	}
	if g.r.chance(1, 2) {
		return ";"
	}
	return "\n"
}

func (g *progGen) block() string {
	n := g.r.intn(3)
	var b strings.Builder
	b.WriteString("{" + g.gap())
	for i := 0; i < n; i++ {
		b.WriteString(g.stmt())
		b.WriteString(g.gap())
	}
	b.WriteString("}")
	return b.String()
}

// exprStmtText makes sure an expression statement does not begin with '{' or 'function'
func (g *progGen) exprStmtText() string {
	e := g.expr()
	t := strings.TrimLeft(e, " \t\n\r")
	if strings.HasPrefix(t, "{") || strings.HasPrefix(t, "function") || strings.HasPrefix(t, "//") {
		return "(" + e + ")"
	}
	if g.semis != 0 && (strings.HasPrefix(t, "(") || strings.HasPrefix(t, "[") || strings.HasPrefix(t, "+") ||
		strings.HasPrefix(t, "-") || strings.HasPrefix(t, "`") || strings.HasPrefix(t, "/")) {
		return ";" + e
	}
	return e
}

func (g *progGen) stmt() string {
	g.depth--
	defer func() { g.depth++ }()
	r := g.r
	if g.depth <= 0 {
		return g.exprStmtText() + g.term()
	}
	switch r.intn(12) {
	case 0, 1:
		s := "let " + g.ident()
		if r.chance(3, 4) {
			s += g.gap() + "=" + g.gap() + g.expr()
		}
		return s + g.term()
	case 2:
		return "function " + g.ident() + g.gap() + "(" + g.params() + ")" + g.gap() + g.block()
	case 3:
		if r.chance(1, 3) {
			return "return" + g.term()
		}
		return "return " + g.hgap() + g.expr() + g.term()
	case 4:
		s := "if" + g.gap() + "(" + g.expr() + ")" + g.gap() + g.block()
		if r.chance(1, 2) {
			s += g.gap() + "else" + g.gap()
			if r.chance(1, 3) {
				s += "if" + g.gap() + "(" + g.expr() + ")" + g.gap() + g.block()
			} else {
				s += g.block()
			}
		}
		return s
	case 5:
		return "while" + g.gap() + "(" + g.expr() + ")" + g.gap() + g.block()
	case 6:
		init := ""
		if r.chance(2, 3) {
			init = "let " + g.ident() + " = " + g.expr()
		}
		cond := ""
		if r.chance(2, 3) {
			cond = g.expr()
		}
		upd := ""
		if r.chance(2, 3) {
			upd = g.lvalue() + "++"
		}
		return "for" + g.gap() + "(" + init + ";" + g.gap() + cond + ";" + g.gap() + upd + ")" + g.gap() + g.block()
	case 7:
		return g.block()
	case 8:
		// brace-less bodies
		return "if (" + g.expr() + ") " + g.exprStmtText() + ";" + pick(r, []string{"", " else " + g.exprStmtText() + ";"})
	}
	return g.exprStmtText() + g.term()
}

func genProgram(r *rng) string {
	g := &progGen{r: r, depth: 2 + r.intn(3), layout: r.intn(3), semis: r.intn(3)}
	n := 1 + r.intn(5)
	var b strings.Builder
	if g.layout == 2 && r.chance(1, 4) {
		b.WriteString(pick(r, []string{"\n", "// head\n", "\n\n// a\n", "  "}))
	}
	for i := 0; i < n; i++ {
		b.WriteString(g.stmt())
		if g.layout > 0 {
			b.WriteString(pick(r, []string{"\n", " ", "\n\n", "\n// sep\n"}))
		}
	}
	if g.layout == 2 && r.chance(1, 4) {
		b.WriteString(pick(r, []string{"// tail", "\n\n", "// t\n// u\n"}))
	}
	return b.String()
}
