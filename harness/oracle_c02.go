package main

import (
	"fmt"
	"strings"
)

// C02: random syntax trees rendered by the reference unparser in many layouts must be
// parsed to exactly that tree (grouping nodes aside), without errors, in default mode.
// input line: "<seed>" (the case is regenerated from its own seed so that it replays).

func init() {
	oracles["C02"] = &oracle{
		rule:  "random syntax trees over all statement/expression forms x layouts (tight, spaced, wild: line breaks wherever ECMAScript permits one, comments in gaps) x separators (';', line break, mixed) x redundant parentheses; rendered by an independent unparser; non-trivial = tree with >= 3 nodes; distinct by rendered text",
		gen:   genSeeds,
		check: checkC02,
	}
}

func genSeeds(r *rng, n int, tier string) []string {
	out := make([]string, n)
	for i := range out {
		out[i] = fmt.Sprint(r.next() % (1 << 40))
	}
	return out
}

func c02Case(seed uint64) ([]*shape, string) {
	r := newRng(seed, "c02case")
	g := &shapeGen{r: r, multiline: seed%3 == 0}
	n := 1 + r.intn(4)
	stmts := make([]*shape, n)
	for i := range stmts {
		stmts[i] = g.stmt(1 + r.intn(3))
	}
	red := 0
	if r.chance(1, 3) {
		red = 4 + r.intn(8)
	}
	txt, _ := renderProgram(r, stmts, r.intn(3), r.intn(3), false, red, nil)
	return stmts, txt
}

func checkC02(line string, dist map[string]int) (detail, sig, class string) {
	var seed uint64
	fmt.Sscan(line, &seed)
	stmts, txt := c02Case(seed)
	want := progCanon(stmts)
	c := pcase{src: txt}
	b := buildParser(c, false)
	prog, err := b.p.ParseProgram()
	got := canonProgram(prog)
	dist[fmt.Sprintf("stmts=%d", len(stmts))]++
	if err != nil {
		return fmt.Sprintf("valid program rejected: %v; source %q", b.p.Errors()[0], txt), "err", classifyC02(txt)
	}
	if got != want {
		return fmt.Sprintf("tree differs; source %q; want %s got %s", txt, want, got), "tree", classifyC02(txt)
	}
	if strings.Count(want, "(") >= 3 {
		sig = txt
	}
	return "", sig, ""
}

func classifyC02(txt string) string { return "" }
