package main

import (
	"bufio"
	"encoding/hex"
	"encoding/json"
	"io"
	"os"
	"os/exec"
	"sync"
	"time"
)

// A long-lived `node` child process used as the reference JavaScript engine by the
// C01 / C07 / C12 oracles. Line protocol: one JSON request per line on stdin, one JSON
// reply per line on stdout. Program texts travel hex-encoded (raw bytes, decoded as
// UTF-8 by node exactly as it would read a file), so nothing is altered by JSON string
// encoding on the Go side. The child ends by itself when its stdin is closed (i.e. when
// the harness exits); nodeStop kills it explicitly. A missing or broken `node` is fatal:
// an oracle must never pass because its reference engine is absent.

const nodeHelperJS = `
'use strict';
const vm = require('vm');
const readline = require('readline');

function render(v, d) {
  switch (typeof v) {
    case 'string': return JSON.stringify(v);
    case 'number': return Object.is(v, -0) ? '-0' : String(v);
    case 'boolean': return String(v);
    case 'undefined': return 'undefined';
    case 'bigint': return String(v) + 'n';
    case 'symbol': return '[symbol]';
    case 'function': return '[function]';
  }
  if (v === null) return 'null';
  if (d > 4) return '[deep]';
  if (Array.isArray(v)) {
    const parts = [];
    for (let i = 0; i < v.length && i < 100; i++) parts.push(i in v ? render(v[i], d + 1) : '<hole>');
    return '[' + parts.join(',') + ']';
  }
  let keys;
  try { keys = Object.keys(v); } catch (e) { return '[object]'; }
  return '{' + keys.slice(0, 100).map(k => JSON.stringify(k) + ':' + render(v[k], d + 1)).join(',') + '}';
}

function errName(e) {
  try {
    if (e && e.code === 'ERR_SCRIPT_EXECUTION_TIMEOUT') return 'timeout';
    if (e && typeof e === 'object' && typeof e.name === 'string') return e.name;
  } catch (_) {}
  return 'thrown:' + typeof e;
}

// run a whole program text in a fresh context; console.log is the only observable
function runProg(src, limit) {
  const out = [];
  const sandbox = { console: { log: (...a) => { if (out.length < 5000) out.push(a.map(x => render(x, 0)).join(' ')); } } };
  const ctx = vm.createContext(sandbox);
  let completion = 'normal';
  try {
    const s = new vm.Script(src);
    s.runInContext(ctx, { timeout: limit || 200 });
  } catch (e) { completion = errName(e); }
  return { output: out, completion: completion };
}

function describe(v) {
  if (typeof v === 'string') return { t: 's', u: Array.from({ length: v.length }, (_, i) => v.charCodeAt(i)) };
  if (typeof v === 'number') return { t: 'n', s: Object.is(v, -0) ? '-0' : String(v) };
  return { t: typeof v, s: render(v, 0) };
}

// evaluate a program that declares v; reply with the exact value of v
function evalV(code) {
  try {
    const f = new vm.Script('(function(){' + code + '\n;return v\n})').runInThisContext();
    return describe(f());
  } catch (e) { return { t: 'err', s: errName(e) }; }
}

// evaluate one expression text (a literal)
function evalE(code) {
  try {
    return describe(new vm.Script('(' + code + '\n)').runInThisContext());
  } catch (e) { return { t: 'err', s: errName(e) }; }
}

// does a JavaScript parser reject the text? w: as a function body (top-level return
// allowed, as in xjs); p: as a plain script
function syn(src) {
  const r = { w: false, p: false, msg: '' };
  try { new vm.Script('(function(){' + src + '\n})'); } catch (e) { r.w = e instanceof SyntaxError; r.msg = String(e && e.message); }
  try { new vm.Script(src); } catch (e) { r.p = e instanceof SyntaxError; if (!r.msg) r.msg = String(e && e.message); }
  return r;
}

const dec = h => Buffer.from(h, 'hex').toString('utf8');
const rl = readline.createInterface({ input: process.stdin, terminal: false, crlfDelay: Infinity });
rl.on('line', line => {
  let reply;
  try {
    const req = JSON.parse(line);
    const items = (req.items || []).map(dec);
    switch (req.op) {
      case 'ping': reply = { ok: true, version: process.version }; break;
      case 'run': reply = { ok: true, r: items.map(x => runProg(x, 200)) }; break;
      case 'runslow': reply = { ok: true, r: items.map(x => runProg(x, 5000)) }; break;
      case 'evalv': reply = { ok: true, r: items.map(evalV) }; break;
      case 'evale': reply = { ok: true, r: items.map(evalE) }; break;
      case 'syn': reply = { ok: true, r: items.map(syn) }; break;
      default: reply = { ok: false, error: 'unknown op ' + req.op };
    }
  } catch (e) { reply = { ok: false, error: String(e && e.stack || e) }; }
  process.stdout.write(JSON.stringify(reply) + '\n');
});
rl.on('close', () => process.exit(0));
`

type nodeProc struct {
	cmd   *exec.Cmd
	in    io.WriteCloser
	lines chan []byte
}

var (
	nodeMu   sync.Mutex
	nodeInst *nodeProc
)

type nodeReq struct {
	Op    string   `json:"op"`
	Items []string `json:"items,omitempty"`
}

func nodeStart() *nodeProc {
	path, err := exec.LookPath("node")
	if err != nil {
		die("reference engine: `node` not found in PATH (%v); the C01/C07/C12 oracles cannot run without it", err)
	}
	// the helper is written to a temp file (removed as soon as node has loaded it)
	f, err := os.CreateTemp(os.TempDir(), "verifharness-node-*.js")
	if err != nil {
		die("reference engine: cannot write helper script: %v", err)
	}
	f.WriteString(nodeHelperJS)
	f.Close()
	cmd := exec.Command(path, f.Name())
	cmd.Stderr = os.Stderr
	in, err := cmd.StdinPipe()
	if err != nil {
		die("reference engine: %v", err)
	}
	outp, err := cmd.StdoutPipe()
	if err != nil {
		die("reference engine: %v", err)
	}
	if err := cmd.Start(); err != nil {
		os.Remove(f.Name())
		die("reference engine: cannot start node: %v", err)
	}
	p := &nodeProc{cmd: cmd, in: in, lines: make(chan []byte, 1)}
	go func() {
		rd := bufio.NewReaderSize(outp, 1<<20)
		for {
			line, err := rd.ReadBytes('\n')
			if len(line) > 0 {
				p.lines <- line
			}
			if err != nil {
				close(p.lines)
				return
			}
		}
	}()
	var pong struct {
		OK      bool   `json:"ok"`
		Version string `json:"version"`
	}
	p.call(nodeReq{Op: "ping"}, &pong)
	os.Remove(f.Name())
	if !pong.OK {
		die("reference engine: node helper did not answer the ping")
	}
	return p
}

func (p *nodeProc) call(req nodeReq, reply any) {
	b, _ := json.Marshal(req)
	b = append(b, '\n')
	if _, err := p.in.Write(b); err != nil {
		die("reference engine: write to node failed: %v", err)
	}
	select {
	case line, ok := <-p.lines:
		if !ok {
			die("reference engine: node exited unexpectedly")
		}
		if err := json.Unmarshal(line, reply); err != nil {
			die("reference engine: bad reply from node: %v: %.200s", err, line)
		}
	case <-time.After(120 * time.Second):
		p.cmd.Process.Kill()
		die("reference engine: node did not reply within 120s (op %s, %d items)", req.Op, len(req.Items))
	}
}

// nodeCall sends one batch request (items are program texts) and decodes the reply's
// "r" array into out (a pointer to a slice).
func nodeCall(op string, items []string, out any) {
	nodeMu.Lock()
	defer nodeMu.Unlock()
	if nodeInst == nil {
		nodeInst = nodeStart()
	}
	enc := make([]string, len(items))
	for i, s := range items {
		enc[i] = hex.EncodeToString([]byte(s))
	}
	var reply struct {
		OK    bool            `json:"ok"`
		Error string          `json:"error"`
		R     json.RawMessage `json:"r"`
	}
	nodeInst.call(nodeReq{Op: op, Items: enc}, &reply)
	if !reply.OK {
		die("reference engine: helper error: %s", reply.Error)
	}
	if err := json.Unmarshal(reply.R, out); err != nil {
		die("reference engine: cannot decode reply of %s: %v", op, err)
	}
}

// nodeStop kills the child (it also ends by itself when the harness exits and its
// stdin is closed).
func nodeStop() {
	nodeMu.Lock()
	defer nodeMu.Unlock()
	if nodeInst != nil {
		nodeInst.in.Close()
		nodeInst.cmd.Process.Kill()
		nodeInst.cmd.Wait()
		nodeInst = nil
	}
}

type nodeRun struct {
	Output     []string `json:"output"`
	Completion string   `json:"completion"`
}

type nodeVal struct {
	T string `json:"t"` // s (string), n (number), err, or a typeof name
	U []int  `json:"u"` // UTF-16 code units of a string
	S string `json:"s"` // rendering of anything else
}

type nodeSyn struct {
	W   bool   `json:"w"` // rejected as a function body
	P   bool   `json:"p"` // rejected as a script
	Msg string `json:"msg"`
}

func nodeRunAll(progs []string) []nodeRun {
	var r []nodeRun
	nodeCall("run", progs, &r)
	if len(r) != len(progs) {
		die("reference engine: %d results for %d programs", len(r), len(progs))
	}
	return r
}

// nodeRunSlow runs programs with a 5 s limit: used to re-examine a run that timed out
// under the short limit (a loaded machine must not look like a behaviour change)
func nodeRunSlow(progs []string) []nodeRun {
	var r []nodeRun
	nodeCall("runslow", progs, &r)
	if len(r) != len(progs) {
		die("reference engine: %d results for %d programs", len(r), len(progs))
	}
	return r
}

func nodeEvalV(progs []string) []nodeVal {
	var r []nodeVal
	nodeCall("evalv", progs, &r)
	if len(r) != len(progs) {
		die("reference engine: %d results for %d programs", len(r), len(progs))
	}
	return r
}

func nodeEvalE(exprs []string) []nodeVal {
	var r []nodeVal
	nodeCall("evale", exprs, &r)
	if len(r) != len(exprs) {
		die("reference engine: %d results for %d expressions", len(r), len(exprs))
	}
	return r
}

func nodeSynAll(srcs []string) []nodeSyn {
	var r []nodeSyn
	nodeCall("syn", srcs, &r)
	if len(r) != len(srcs) {
		die("reference engine: %d results for %d texts", len(r), len(srcs))
	}
	return r
}

// capKnown keeps the failure list of a run readable: after 25 examples of a known-finding
// class the detail becomes one fixed text (the runner lists distinct details only), so
// that known findings cannot crowd unexplained failures out of the capped list. A single
// replayed input always shows its full detail.
var knownShown = map[string]int{}

func capKnown(class, detail string) string {
	if class == "" || detail == "" {
		return detail
	}
	knownShown[class]++
	if knownShown[class] > 25 {
		return "further failures of known class " + class + " (details suppressed after 25 examples; replay the input alone for the detail)"
	}
	return detail
}
