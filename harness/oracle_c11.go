package main

import (
	"fmt"
	"reflect"
	"strings"

	"github.com/xjslang/xjs/ast"
	"github.com/xjslang/xjs/parser"
	"github.com/xjslang/xjs/token"
)

// Direct oracle for C11 (totality and the error contract), search support.
// input line: "<mode> <hexsrc>", mode = "-" | "T" | "S" | "T;S".

func init() {
	oracles["C11"] = &oracle{
		rule:  "byte strings (corpus of malformed snippets, generated programs in random layouts, token-level mutations: delete/duplicate/swap a lexeme, lexeme-fragment soup, byte-level mutations, random bytes incl. NUL and non-UTF-8) x {strict, tolerant} x {smart semicolons on, off}; every error-free result x the 14 configurations of allCcfgs plus two odd indents; non-trivial = at least 2 tokens; distinct by (input, mode, error kinds / statement count)",
		gen:   genC11,
		check: countFailures(checkC11),
	}
}

var fourModes = []string{"-", "T", "S", "T;S"}

// countFailures records the number of failing inputs per class in the distribution (the
// failure list itself is deduplicated and capped by the runner).
func countFailures(check func(string, map[string]int) (string, string, string)) func(string, map[string]int) (string, string, string) {
	return func(in string, dist map[string]int) (detail, sig, class string) {
		detail, sig, class = check(in, dist)
		if detail != "" {
			if class == "" {
				dist["FAILING inputs, no known class"]++
			} else {
				dist["FAILING inputs, class "+class]++
			}
		}
		return
	}
}

func genC11(r *rng, n int, tier string) []string {
	m := n / 4
	if m < 1 {
		m = 1
	}
	srcs := genParseSources(r, m)
	for i := 0; i < m/8+1; i++ {
		k := r.intn(24)
		b := make([]byte, k)
		for j := range b {
			if r.chance(1, 2) {
				b[j] = byte(r.intn(256))
			} else {
				b[j] = pick(r, []byte("(){}[];,.=+-!<>&|\"'`\\ \n\r\tafx019/*%:"))
			}
		}
		srcs = append(srcs, string(b))
	}
	var out []string
	for _, s := range srcs {
		for _, m := range fourModes {
			out = append(out, m+" "+hx(s))
		}
	}
	return out
}

// ---- generic tree inspection (reflection over the public node fields) ----

var (
	stmtIface = reflect.TypeOf((*ast.Statement)(nil)).Elem()
	exprIface = reflect.TypeOf((*ast.Expression)(nil)).Elem()
	tokenType = reflect.TypeOf(token.Token{})
)

func nilValue(v reflect.Value) bool {
	switch v.Kind() {
	case reflect.Interface:
		if v.IsNil() {
			return true
		}
		return nilValue(v.Elem())
	case reflect.Ptr, reflect.Slice, reflect.Map:
		return v.IsNil()
	}
	return false
}

// optional children (may be nil in a well-formed tree), by "Type.Field"
var optionalChild = map[string]bool{
	"LetStatement.Value": true, "LetExpression.Value": true, "ReturnStatement.ReturnValue": true,
	"IfStatement.ElseBranch": true, "ForStatement.Init": true, "ForStatement.Condition": true, "ForStatement.Update": true,
	"FunctionExpression.Name": true,
}

// inspectTree walks the tree below v. nilStmt receives the path of every nil entry of a
// statement list, missing the path of every absent mandatory child.
func inspectTree(v reflect.Value, path string, nilStmt, missing *[]string, depth int) {
	if depth > 10000 {
		return
	}
	switch v.Kind() {
	case reflect.Interface, reflect.Ptr:
		if v.IsNil() {
			return
		}
		inspectTree(v.Elem(), path, nilStmt, missing, depth+1)
	case reflect.Slice:
		for i := 0; i < v.Len(); i++ {
			e := v.Index(i)
			p := fmt.Sprintf("%s[%d]", path, i)
			if nilValue(e) {
				if v.Type().Elem() == stmtIface {
					*nilStmt = append(*nilStmt, p)
				} else {
					*missing = append(*missing, p)
				}
				continue
			}
			inspectTree(e, p, nilStmt, missing, depth+1)
		}
	case reflect.Struct:
		if v.Type() == tokenType {
			return
		}
		tn := v.Type().Name()
		for i := 0; i < v.NumField(); i++ {
			f := v.Type().Field(i)
			fv := v.Field(i)
			p := path + "." + f.Name
			switch fv.Kind() {
			case reflect.Interface, reflect.Ptr:
				if nilValue(fv) {
					if !optionalChild[tn+"."+f.Name] {
						*missing = append(*missing, p)
					}
					continue
				}
				inspectTree(fv, p, nilStmt, missing, depth+1)
			case reflect.Slice, reflect.Struct:
				inspectTree(fv, p, nilStmt, missing, depth+1)
			}
		}
	}
}

// tokenRanges lexes src with a plain lexer: the tokens up to and including end of input.
func tokensToEOF(src string) []token.Token {
	toks := lexAll(src, len(src)+2)
	for i, t := range toks {
		if t.Type == token.EOF {
			return toks[:i+1]
		}
	}
	return toks
}

func errKindNoPos(e parser.ParserError) string {
	k := errKind(e)
	p := strings.Split(k, ":")
	return p[0] + ":" + p[1]
}

var oddCcfgs = []string{"p:" + hx(" \t") + ":1", "pm:" + hx("        ") + ":0"}

func checkC11(line string, dist map[string]int) (detail, sig, class string) {
	c := parsePcase(line)
	mode := strings.SplitN(line, " ", 2)[0]
	dist["mode="+mode]++

	var prog *ast.Program
	var err error
	var errs []parser.ParserError
	panicked := func() (p bool) {
		defer func() {
			if r := recover(); r != nil {
				p = true
			}
		}()
		b := buildParser(c, false)
		prog, err = b.p.ParseProgram()
		errs = b.p.Errors()
		return false
	}()
	if panicked {
		return fmt.Sprintf("parsing panicked (mode %s) on %q", mode, c.src), "panic", ""
	}
	if prog == nil {
		return fmt.Sprintf("no program returned (mode %s) on %q", mode, c.src), "noprog", ""
	}
	if (err != nil) != (len(errs) > 0) {
		return fmt.Sprintf("error value %v but %d errors listed (mode %s) on %q", err, len(errs), mode, c.src), "flag", ""
	}
	var nilStmt, missing []string
	inspectTree(reflect.ValueOf(prog), "Program", &nilStmt, &missing, 0)
	if len(nilStmt) > 0 {
		return fmt.Sprintf("nil entry in a statement list at %s (mode %s) on %q", nilStmt[0], mode, c.src), "nilstmt", ""
	}
	toks := tokensToEOF(c.src)
	for i, e := range errs {
		found := false
		for _, t := range toks {
			if t.Start == e.Range.Start && t.End == e.Range.End {
				found = true
				break
			}
		}
		if !found {
			return fmt.Sprintf("error %d %q has range %d:%d-%d:%d, which is the range of no token (mode %s) of %q", i, e.Message,
				e.Range.Start.Line, e.Range.Start.Column, e.Range.End.Line, e.Range.End.Column, mode, c.src), "range", ""
		}
	}
	if len(errs) == 0 {
		dist["accepted"]++
		if len(missing) > 0 {
			return fmt.Sprintf("no error reported but mandatory child %s is absent (mode %s) on %q", missing[0], mode, c.src), "missing", ""
		}
		for _, cc := range append(allCcfgs(), oddCcfgs...) {
			if compileObservable(parseCcfg(cc), prog) == "PANIC" {
				return fmt.Sprintf("no error reported but compiling in configuration %s panicked (mode %s) on %q", cc, mode, c.src), "cpanic", ""
			}
		}
	} else {
		dist["rejected"]++
	}
	if len(toks) >= 3 {
		if len(errs) == 0 {
			sig = fmt.Sprintf("%s ok:%d", mode, len(prog.Statements))
		} else {
			ks := make([]string, 0, len(errs))
			for _, e := range errs {
				ks = append(ks, errKindNoPos(e))
			}
			if len(ks) > 4 {
				ks = ks[:4]
			}
			sig = mode + " " + strings.Join(ks, ",")
		}
	}
	return "", sig, ""
}
