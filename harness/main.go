// verifharness: runs the real xjs implementation on generated cases and prints
// canonical observables, one line per case, for comparison with the Coq model;
// also hosts the direct property oracles used to search for failing inputs.
package main

import (
	"bufio"
	"encoding/hex"
	"fmt"
	"os"
	"strconv"
	"strings"
	"time"
)

func die(format string, a ...any) {
	fmt.Fprintf(os.Stderr, "harness: "+format+"\n", a...)
	os.Exit(2)
}

type suite struct {
	gen func(r *rng, n int, tier string) []string // case lines
	run func(line string) string                  // observable of the implementation
}

var suites = map[string]*suite{}

func hx(s string) string {
	if s == "" {
		return "-"
	}
	return hex.EncodeToString([]byte(s))
}

func unhx(s string) string {
	if s == "-" {
		return ""
	}
	b, err := hex.DecodeString(s)
	if err != nil {
		die("bad hex %q", s)
	}
	return string(b)
}

func readLines(path string) []string {
	f, err := os.Open(path)
	if err != nil {
		die("%v", err)
	}
	defer f.Close()
	var out []string
	sc := bufio.NewScanner(f)
	sc.Buffer(make([]byte, 1<<20), 1<<28)
	for sc.Scan() {
		out = append(out, sc.Text())
	}
	return out
}

func writeLines(path string, lines []string) {
	f, err := os.Create(path)
	if err != nil {
		die("%v", err)
	}
	w := bufio.NewWriterSize(f, 1<<20)
	for _, l := range lines {
		w.WriteString(l)
		w.WriteByte('\n')
	}
	w.Flush()
	f.Close()
}

func main() {
	if len(os.Args) < 2 {
		die("usage: harness gen|run|oracle ...")
	}
	switch os.Args[1] {
	case "gen": // gen <suite> <seed> <n> <tier> <out>
		if len(os.Args) != 7 {
			die("usage: harness gen <suite> <seed> <n> <tier> <out>")
		}
		s := suites[os.Args[2]]
		if s == nil {
			die("unknown suite %s", os.Args[2])
		}
		seed, _ := strconv.ParseUint(os.Args[3], 10, 64)
		n, _ := strconv.Atoi(os.Args[4])
		writeLines(os.Args[6], s.gen(newRng(seed, os.Args[2]), n, os.Args[5]))
	case "run": // run <suite> <cases> <out>
		if len(os.Args) != 5 {
			die("usage: harness run <suite> <cases> <out>")
		}
		s := suites[os.Args[2]]
		if s == nil {
			die("unknown suite %s", os.Args[2])
		}
		cases := readLines(os.Args[3])
		out := make([]string, len(cases))
		for i, c := range cases {
			if hung { // a case did not terminate: its goroutine still runs, stop here
				out[i] = "SKIPPED-AFTER-TIMEOUT"
				continue
			}
			if p := os.Getenv("RUN_PROGRESS"); p != "" {
				os.WriteFile(p, []byte(fmt.Sprintf("%d\n", i)), 0o644)
			}
			out[i] = safeRun(s.run, c)
		}
		writeLines(os.Args[4], out)
	case "oracle": // oracle <prop> <seed> <n> <tier> <out.json> [extra-input-file]
		if len(os.Args) < 7 {
			die("usage: harness oracle <prop> <seed> <n> <tier> <out.json> [inputs]")
		}
		seed, _ := strconv.ParseUint(os.Args[3], 10, 64)
		n, _ := strconv.Atoi(os.Args[4])
		extra := ""
		if len(os.Args) > 7 {
			extra = os.Args[7]
		}
		runOracle(os.Args[2], seed, n, os.Args[5], os.Args[6], extra)
	case "dumpc02": // dumpc02 <seed> <n> <out.json>
		seed, _ := strconv.ParseUint(os.Args[2], 10, 64)
		n, _ := strconv.Atoi(os.Args[3])
		dumpC02(seed, n, os.Args[4])
	default:
		die("unknown command %s", os.Args[1])
	}
}

func safeRun(f func(string) string, c string) (out string) {
	done := make(chan string, 1)
	go func() {
		defer func() {
			if r := recover(); r != nil {
				done <- "PANIC"
			}
		}()
		done <- f(c)
	}()
	select {
	case out = <-done:
		return out
	case <-time.After(caseTimeout):
		hung = true
		return "TIMEOUT"
	}
}

func fields(line string) []string {
	if strings.TrimSpace(line) == "" {
		return nil
	}
	return strings.Fields(line)
}
