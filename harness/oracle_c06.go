package main

import (
	"fmt"
	"strings"

	"github.com/xjslang/xjs/ast"
	"github.com/xjslang/xjs/compiler"
	"github.com/xjslang/xjs/token"
)

// C06: pretty printing changes layout only, and is stable.
// Input lines:  G <seed>  source from genProgram
//               R <seed>  source rendered by the reference unparser from random shapes
//                         enriched with statements beginning with ( [ - ++ or a backtick,
//                         multi-line backtick literals and brace-less if/else bodies
// Sources rejected by the default parser are skipped (counted in the distribution).

func init() {
	oracles["C06"] = &oracle{
		rule:  "random subset programs (genProgram text in compact/spaced/wild layouts; reference-unparser renderings with comments and blank lines in every gap, multi-line backtick literals, statements beginning with ( [ - ++ or a backtick, brace-less if/else bodies) accepted by the default parser x indent {tab, 0..8 spaces} x semicolons {on, off}; non-trivial = at least 2 lines of pretty output; distinct by source text",
		gen:   genC06,
		check: checkC06,
	}
}

// fixed sources checked before the generated ones (explicit text, "X <hex>")
var c06Corpus = []string{
	"x;//\t", "x;// \t", "x;//\u00a0", "x;//\v\f", "x //\t\ny", "//\t\nx", "{ x //\t\n}", // white-space-only comments (repaired defect)
	"// c\n\n\nx\n\n// d\n", "a;b;c", "if (a) b; else c", "x = `a\nb`;",
	// multi-line literals with lines made of white space other than blanks (kept by the post-processing)
	"function f() {\n\tlet t = `a\n\t\t\n\tb`;\n\treturn t;\n}", "let tsv = `a\tb\n\t\n1\t2`;\nf(tsv);", "let w = `first\r\n\r\nthird`;", "s = \"a\\\n\t\\\nb\";",
}

func genC06(r *rng, n int, tier string) []string {
	out := []string{}
	for _, s := range c06Corpus {
		out = append(out, "X "+hx(s))
	}
	for i := 0; i < n; i++ {
		seed := r.next() % (1 << 40)
		switch r.intn(5) {
		case 0, 1:
			out = append(out, fmt.Sprintf("G %d", seed))
		case 2, 3:
			out = append(out, fmt.Sprintf("R %d", seed))
		default:
			out = append(out, fmt.Sprintf("GAP %d", seed))
		}
	}
	return out
}

func c06Reference(seed uint64) string {
	r := newRng(seed, "c06ref")
	g := &shapeGen{r: r}
	id := func() *shape { return sh("id", pick(r, identPool)) }
	n := 1 + r.intn(5)
	var stmts []*shape
	for i := 0; i < n; i++ {
		switch r.intn(14) {
		case 0:
			stmts = append(stmts, sh("es", "", sh("grp", "", g.expr(1+r.intn(2)))))
		case 1:
			stmts = append(stmts, sh("es", "", sh("call", "", sh("grp", "", sh("fn", "", sh("params", ""), g.block(1))))))
		case 2:
			stmts = append(stmts, sh("es", "", sh("arr", "", g.exprs(1, 3)...)))
		case 3:
			stmts = append(stmts, sh("es", "", sh("mem", "", sh("arr", "", g.exprs(1, 2)...), id())))
		case 4:
			stmts = append(stmts, sh("es", "", sh("un", "-", g.expr(r.intn(2)))))
		case 5:
			stmts = append(stmts, sh("es", "", sh("un", pick(r, []string{"++", "--"}), g.lvalue(r.intn(2)))))
		case 6:
			raw := pick(r, []string{"`r`", "`a\nb`", "`l1\n\n  l3`", "`x\\`y\nz`", "`\n`", "`t \nu`", "`tab\t\nv`"})
			e := sh("raw", raw)
			if r.chance(1, 3) {
				e = sh("mem", "", e, id())
			}
			stmts = append(stmts, sh("es", "", e))
		case 7:
			var els *shape
			if r.chance(2, 3) {
				els = sh("es", "", g.expr(1))
				if r.chance(1, 4) {
					els = sh("ret", "", g.optExpr(1))
				}
			}
			thn := sh("es", "", g.expr(1))
			if r.chance(1, 5) {
				thn = sh("ret", "", g.optExpr(1))
			}
			stmts = append(stmts, sh("if", "", g.expr(1), thn, els))
		case 8:
			stmts = append(stmts, sh("let", pick(r, identPool), sh("raw", pick(r, []string{"`m1\nm2`", "`q`", "`  lead\n  more`"}))))
		default:
			stmts = append(stmts, g.stmt(1+r.intn(3)))
		}
	}
	red := 0
	if r.chance(1, 4) {
		red = 4 + r.intn(8)
	}
	layout := r.intn(3)
	if r.chance(1, 2) {
		layout = 2
	}
	txt, _ := renderProgram(r, stmts, layout, r.intn(3), false, red, nil)
	return txt
}

type indentOpt struct {
	name string
	unit string // what one level of indentation is expected to look like
	opt  compiler.PrettyPrintOption
}

func c06Indents() []indentOpt {
	out := []indentOpt{{"tab", "\t", compiler.WithTabs()}}
	for n := 0; n <= 8; n++ {
		u := strings.Repeat(" ", n)
		if n == 0 {
			u = "  " // documented default when the indent string is empty
		}
		out = append(out, indentOpt{fmt.Sprintf("%dsp", n), u, compiler.WithSpaces(n)})
	}
	return out
}

// stmtSemiOffsets: byte offsets of the SEMICOLON tokens of code that are not separators
// of a for(...) header; ok=false when the token stream is not bracket-balanced.
func stmtSemiOffsets(code string) (offs []int, ok bool) {
	toks := lexAll(code, len(code)+2)
	starts := lineStarts(code)
	var stack []byte
	prevFor := false
	for _, t := range toks {
		if t.Type == token.EOF {
			break
		}
		switch t.Type {
		case token.LPAREN:
			if prevFor {
				stack = append(stack, 'F')
			} else {
				stack = append(stack, '(')
			}
		case token.LBRACKET:
			stack = append(stack, '[')
		case token.LBRACE:
			stack = append(stack, '{')
		case token.RPAREN, token.RBRACKET, token.RBRACE:
			if len(stack) == 0 {
				return nil, false
			}
			stack = stack[:len(stack)-1]
		case token.SEMICOLON:
			if len(stack) > 0 && stack[len(stack)-1] == 'F' {
				break
			}
			o, good := offsetOf(code, starts, t.Start)
			if !good || o >= len(code) || code[o] != ';' {
				return nil, false
			}
			offs = append(offs, o)
		}
		prevFor = t.Type == token.FOR
	}
	return offs, len(stack) == 0
}

func deleteOffsets(s string, offs []int) string {
	var b strings.Builder
	prev := 0
	for _, o := range offs {
		b.WriteString(s[prev:o])
		prev = o + 1
	}
	b.WriteString(s[prev:])
	return b.String()
}

func leadingCount(s string, c byte) int {
	n := 0
	for n < len(s) && s[n] == c {
		n++
	}
	return n
}

// sameButIndent: does variant v (indent unit u) differ from the tab variant only in
// that each line's k leading tabs became k units?
func sameButIndent(tab, v, u string) string {
	lt := strings.Split(tab, "\n")
	lv := strings.Split(v, "\n")
	if len(lt) != len(lv) {
		return fmt.Sprintf("%d lines vs %d lines", len(lt), len(lv))
	}
	for i := range lt {
		a, b := lt[i], lv[i]
		if strings.TrimLeft(a, " \t") != strings.TrimLeft(b, " \t") {
			return fmt.Sprintf("line %d differs beyond leading whitespace: %q vs %q", i, a, b)
		}
		if strings.TrimLeft(a, " \t") == "" {
			continue
		}
		ok := false
		for k := 0; k <= leadingCount(a, '\t'); k++ {
			if b == strings.Repeat(u, k)+a[k:] {
				ok = true
				break
			}
		}
		if !ok {
			return fmt.Sprintf("line %d: leading whitespace is not the indent unit repeated: %q vs %q", i, a, b)
		}
	}
	return ""
}

// gapVariants renders a reference program with single spaces and then, for every gap
// between two tokens where ECMAScript permits a line terminator, yields the variant
// with a line break there and the variant with a comment + line break there. This
// enumerates the single-gap layouts instead of sampling them.
func gapVariants(seed uint64) []string {
	r := newRng(seed, "c06gap")
	g := &shapeGen{r: r}
	n := 1 + r.intn(3)
	stmts := make([]*shape, n)
	for i := range stmts {
		stmts[i] = g.stmt(1 + r.intn(2))
	}
	w := &renderer{r: r, layout: 1, semis: 0}
	w.stmts(stmts)
	w.finish()
	var out []string
	for gap := 1; gap < len(w.toks); gap++ {
		if w.toks[gap].noLFbef {
			continue
		}
		for _, ins := range []string{"\n", " // c\n"} {
			var b strings.Builder
			for i, t := range w.toks {
				if i > 0 {
					if i == gap {
						b.WriteString(ins)
					} else {
						b.WriteString(" ")
					}
				}
				b.WriteString(t.text)
			}
			out = append(out, b.String())
		}
	}
	return out
}

func checkC06(line string, dist map[string]int) (detail, sig, class string) {
	p := strings.SplitN(line, " ", 2)
	if len(p) != 2 {
		return "bad input line", "", ""
	}
	if p[0] == "GAP" {
		var seed uint64
		fmt.Sscan(p[1], &seed)
		vs := gapVariants(seed)
		dist["kind=GAP"]++
		dist["gap-variants"] += len(vs)
		anySig := ""
		for _, v := range vs {
			d, sg, cl := checkC06("X "+hx(v), dist)
			if sg != "" {
				anySig = sg
			}
			if d != "" && cl == "" {
				return d, sg, cl
			}
			if d != "" && detail == "" {
				detail, class = d, cl
			}
		}
		return detail, anySig, class
	}
	var seed uint64
	fmt.Sscan(p[1], &seed)
	var src string
	switch p[0] {
	case "G":
		src = genProgram(newRng(seed, "c06src"))
	case "R":
		src = c06Reference(seed)
	case "X": // explicit source (hex): replays cases of the correspondence suites and gap variants
		src = unhx(strings.TrimSpace(p[1]))
	default:
		return "bad input kind", "", ""
	}
	prog, errs := parseDefault(src)
	if len(errs) > 0 {
		dist[p[0]+" rejected"]++
		return "", "", ""
	}
	dist["kind="+p[0]]++
	facts := factsOf(prog)
	want := vcanon(prog)
	for _, f := range []struct {
		name string
		on   bool
	}{{"comment", strings.Contains(src, "//")}, {"blank line", strings.Contains(src, "\n\n")}, {"multi-line backtick", hasMultilineRaw(prog)},
		{"asi-hazard start", facts.asiHazard}, {"brace-less if/else", facts.nosemiElse}, {"backtick trailing blank", facts.backtickTrail}} {
		if f.on {
			dist["with "+f.name]++
		}
	}
	var fs []found
	fail := func(c ccfg, format string, a ...any) {
		cl := facts.classFor(c)
		if cl != "" {
			// known finding: a generic detail, so that the many instances collapse into
			// one report entry and cannot crowd out new failures
			what := "formatted output does not parse"
			if strings.Contains(format, "parses to") {
				what = "formatted output parses to a different tree"
			} else if strings.Contains(format, "again") {
				what = "formatting again changes the output"
			}
			fs = append(fs, found{fmt.Sprintf("semi=%v: %s (instance of %s)", c.semi, what, cl), cl})
		} else {
			fs = append(fs, found{fmt.Sprintf("source %q; ", clip(src)) + fmt.Sprintf(format, a...), cl})
		}
		dist[fmt.Sprintf("fail semi=%v class=%s", c.semi || !c.pretty, cl)]++
	}
	compact := compiler.New().Compile(prog).Code
	pc, errs := parseDefault(compact)
	compactCanon := ""
	if len(errs) > 0 {
		fail(ccfg{}, "compact output %q does not parse: %s", clip(compact), errs[0].Message)
	} else {
		compactCanon = vcanon(pc)
		if compactCanon != want {
			fail(ccfg{}, "compact output %q re-parses to %s, source parsed to %s", clip(compact), clip(compactCanon), clip(want))
		}
	}
	if compactCanon == "" {
		compactCanon = want
	}
	indents := c06Indents()
	outs := map[string]string{}
	for _, semi := range []bool{true, false} {
		for _, in := range indents {
			c := ccfg{pretty: true, semi: semi}
			name := fmt.Sprintf("%s/semi=%v", in.name, semi)
			mk := func() *compiler.Compiler { return compiler.New().WithPrettyPrint(in.opt, compiler.WithSemi(semi)) }
			code := mk().Compile(prog).Code
			outs[name] = code
			p2, errs := parseDefault(code)
			if len(errs) > 0 {
				fail(c, "%s: formatted output %q does not parse: %s", name, clip(code), errs[0].Message)
				continue
			}
			if got := vcanon(p2); got != compactCanon {
				fail(c, "%s: formatted output %q parses to %s, compact output to %s", name, clip(code), clip(got), clip(compactCanon))
				continue
			}
			if again := mk().Compile(p2).Code; again != code {
				fail(c, "%s: formatting %q again gives %q", name, clip(code), clip(again))
			}
		}
	}
	// indentation options change leading whitespace only
	for _, semi := range []bool{true, false} {
		tab := outs[fmt.Sprintf("tab/semi=%v", semi)]
		for _, in := range indents[1:] {
			if d := sameButIndent(tab, outs[fmt.Sprintf("%s/semi=%v", in.name, semi)], in.unit); d != "" {
				fs = append(fs, found{fmt.Sprintf("source %q; indent %s vs tab (semi=%v): %s", clip(src), in.name, semi, d), ""})
				dist["fail indent"]++
			}
		}
	}
	// the semicolon option removes statement-terminating semicolons and nothing else
	for _, in := range indents {
		on, off := outs[in.name+"/semi=true"], outs[in.name+"/semi=false"]
		offs, ok := stmtSemiOffsets(on)
		if !ok {
			fs = append(fs, found{fmt.Sprintf("source %q; %s: semicolon-on output %q is not bracket-balanced", clip(src), in.name, clip(on)), ""})
			dist["fail semi-diff"]++
			continue
		}
		if got := deleteOffsets(on, offs); got != off {
			fs = append(fs, found{fmt.Sprintf("source %q; %s: semicolons-off output %q is not the semicolons-on output %q without its statement-terminating semicolons", clip(src), in.name, clip(off), clip(on)), ""})
			dist["fail semi-diff"]++
		}
		if in.name == "tab" {
			dist[fmt.Sprintf("stmt-semicolons<=%d", bucket(len(offs)))]++
		}
	}
	// how tight are the class predicates: predicate holds but nothing failed
	if len(fs) == 0 {
		if facts.asiHazard {
			dist["predicate nosemi-asi-hazard holds, no failure"]++
		}
		if facts.nosemiElse {
			dist["predicate nosemi-else holds, no failure"]++
		}
		if facts.backtickTrail {
			dist["predicate backtick-trailing-blank holds, no failure"]++
		}
	}
	detail, class = pickFailure(fs)
	if strings.Count(outs["tab/semi=true"], "\n") >= 1 {
		sig = src
	}
	return detail, sig, class
}

func hasMultilineRaw(p *ast.Program) bool {
	return strings.Contains(vcanon(p), "(raw ") && multilineRawIn(vcanon(p))
}

func multilineRawIn(canon string) bool {
	for _, f := range strings.Split(canon, "(raw ") {
		end := strings.IndexByte(f, ')')
		if end > 0 && strings.Contains(unhxSafe(f[:end]), "\n") {
			return true
		}
	}
	return false
}

func unhxSafe(s string) string {
	for _, c := range s {
		if !(c >= '0' && c <= '9' || c >= 'a' && c <= 'f') {
			return ""
		}
	}
	if len(s)%2 != 0 {
		return ""
	}
	return unhx(s)
}
