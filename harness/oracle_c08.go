package main

import (
	"fmt"
	"strconv"
	"strings"

	"github.com/xjslang/xjs/ast"
	"github.com/xjslang/xjs/sourcemap"
	"github.com/xjslang/xjs/token"
)

// C08: every segment of an emitted source map links the start of a token of the
// generated code to the start of the same token of the source; identifiers are
// covered by named segments; segments are ordered by generated position.
//
// input line:  "<kind> <seed> <ccfg>"   kind = G | Gc | R | Rc   (generated source, regenerated from the seed)
//              "X <ccfg> <hexsrc>"      explicit source
// G: genProgram; R: reference unparser with enriched literals; the suffix c turns every
// line break of the source into CR LF, the suffix d every line break except the one that
// ends a // comment (comment texts then carry no CR). ccfg as in the print suite (cm | pm:<indent-hex>:<semi>);
// a source map is always requested.

const c08KnownShift = "pretty-leading-trivia-shift"

func init() {
	oracles["C08"] = &oracle{
		rule:  "sources: genProgram (tight/spaced/wild layouts, comments, CRLF variants) and reference-unparser programs with enriched literals (both quote styles, escapes, multi-line backtick literals), parse corpus, hand-written two-character-operator programs; only sources accepted in default mode are evaluated (others trivial); x {compact, pretty with indent in 8 units x semicolons on/off}; all segments of the map are checked; non-trivial = map with >= 3 segments; distinct by (configuration, source text)",
		gen:   genC08,
		check: checkC08,
	}
}

var c08Hand = []string{
	"a == b != c <= d >= e && f || g",
	"a\n  == b\n  != c",
	"i++; --j; x += 1; y -= 2",
	"x\n+=\n1",
	"let s = `multi\nline`; t",
	"let s = `trail  \nsp`; t",
	"f(`a\n  b\n`, c)",
	"let a = 'q\"q' + \"it's\" + '\\x41' + \"\\u{1F600}\" + b",
	"let a = 'a\\\nb'; c",
	"if (a) { b } else { c }",
	"if (a) b; else if (c) d; else e",
	"function f(a, b) { return a.b.c[d](e, f) }",
	"x = {a: 1, 'b': [2, 3], c: function g(h) { return null }}",
	"for (let i = 0; i < n; i++) { s += i }",
	"while (!a && -b) { c-- }",
	"// head\nlet x = 1",
	"\nlet x = 1",
	"\n\n// a\nlet x = 1",
	"  let x = 1",
	"\n// c\nfoo(a)\n\n// d\nbar(b) // e\n// f",
	"{ // c\n  a // d\n  // e\n}",
	"a( // c\n b, // d\n c)",
	"[ // c\n 1, // d\n 2 // e\n]",
	"x = ( // c\n a + // d\n b // e\n)",
	"x = { // c\n a: 1 // e\n}",
	"a // c\n.b // d\n.c",
	"a\n  .b\n  .c()",
	"é = 'é✓' + é2; z",
	"let a = 1\r\n// c\r\nlet b = 2\r\n",
	"a // c\r\n+ b",
	"let s = `x\r\ny`; t",
	"x = `a\rb` + c",
	"true; false; null; 0x1F; 1.5e3; 0b11; 0o7",
	"a - -b; a + ++b; - -a; a < !--b",
	"(a)(b); ((a)); (a + b) * c; a * (b + c)",
	"a - (b - c); -(a + b); (a = b)++",
}

func genC08(r *rng, n int, tier string) []string {
	var out []string
	fixed := []string{"cm", "pm:2020:1", "pm:09:0", "pm:-:1"}
	for _, s := range c08Hand {
		for _, c := range fixed {
			out = append(out, "X "+c+" "+hx(s))
		}
	}
	for _, s := range parseCorpus {
		for _, c := range fixed[:3] {
			out = append(out, "X "+c+" "+hx(s))
		}
	}
	for i := 0; i < n; i++ {
		kind := pick(r, []string{"G", "G", "G", "R", "R", "R", "Gd", "Rd"})
		if r.chance(1, 25) {
			kind = pick(r, []string{"Gc", "Rc"})
		}
		cfg := "cm"
		if !r.chance(1, 3) {
			cfg = fmt.Sprintf("pm:%s:%d", hx(pick(r, indentChoices)), r.intn(2))
		}
		out = append(out, fmt.Sprintf("%s %d %s", kind, r.next()%(1<<40), cfg))
	}
	return out
}

// enrichLiterals replaces some string / backtick literals of a shape tree by
// richer ones (both quote styles, escapes, line continuations, multi-line literals).
func enrichLiterals(r *rng, n *shape) {
	if n == nil {
		return
	}
	pg := &progGen{r: r}
	switch n.k {
	case "str":
		if r.chance(1, 2) {
			n.s = pg.str()
		}
	case "raw":
		if r.chance(2, 3) {
			n.s = pg.raw()
		}
	}
	for _, k := range n.kids {
		enrichLiterals(r, k)
	}
}

// toCRLF turns the bare LFs of a source into CR LF; with keepCommentLF the line break
// that ends a // comment stays a bare LF (so that no comment text ends in CR).
func toCRLF(s string, keepCommentLF bool) string {
	var b strings.Builder
	const (
		code = iota
		comment
		quoted
		raw
	)
	state, delim := code, byte(0)
	for i := 0; i < len(s); i++ {
		c := s[i]
		isComment := state == comment
		switch state {
		case code:
			switch {
			case c == '/' && i+1 < len(s) && s[i+1] == '/':
				state = comment
			case c == '"' || c == '\'':
				state, delim = quoted, c
			case c == '`':
				state = raw
			}
		case comment:
			if c == '\n' {
				state = code
			}
		case quoted, raw:
			if c == '\\' && i+1 < len(s) && s[i+1] != '\n' {
				b.WriteByte(c)
				i++
				c = s[i]
			} else if (state == quoted && c == delim) || (state == raw && c == '`') {
				state = code
			}
		}
		if c == '\n' && (i == 0 || s[i-1] != '\r') && !(isComment && keepCommentLF) {
			b.WriteByte('\r')
		}
		b.WriteByte(c)
	}
	return b.String()
}

func c08Source(kind string, seed uint64) string {
	r := newRng(seed, "c08src")
	var src string
	switch kind[0] {
	case 'G':
		src = genProgram(r)
	case 'R':
		g := &shapeGen{r: r}
		n := 1 + r.intn(4)
		stmts := make([]*shape, n)
		for i := range stmts {
			stmts[i] = g.stmt(1 + r.intn(3))
			enrichLiterals(r, stmts[i])
		}
		red := 0
		if r.chance(1, 3) {
			red = 4 + r.intn(8)
		}
		src, _ = renderProgram(r, stmts, r.intn(3), r.intn(3), false, red, nil)
	default:
		die("bad C08 kind %q", kind)
	}
	switch {
	case strings.HasSuffix(kind, "c"):
		src = toCRLF(src, false)
	case strings.HasSuffix(kind, "d"):
		src = toCRLF(src, true)
	}
	return src
}

func c08Input(line string) (src, cfg string) {
	f := strings.Fields(line)
	if len(f) != 3 {
		die("bad C08 case %q", line)
	}
	if f[0] == "X" {
		return unhx(f[2]), f[1]
	}
	seed, _ := strconv.ParseUint(f[1], 10, 64)
	return c08Source(f[0], seed), f[2]
}

type tokIndex struct {
	toks []token.Token
	at   map[[2]int]int // start (line, column) -> index in toks
}

// indexTokens lexes a text with the real lexer; tokens up to (excluding) the end of input.
func indexTokens(text string) tokIndex {
	ix := tokIndex{at: map[[2]int]int{}}
	for _, t := range lexAll(text, len(text)+2) {
		if t.Type == token.EOF {
			break
		}
		ix.at[[2]int{t.Start.Line, t.Start.Column}] = len(ix.toks)
		ix.toks = append(ix.toks, t)
	}
	return ix
}

func (ix tokIndex) describe(l, c int) string {
	if i, ok := ix.at[[2]int{l, c}]; ok {
		return fmt.Sprintf("token %q (type %d)", ix.toks[i].Literal, int(ix.toks[i].Type))
	}
	// nearest token on that line
	best := ""
	for _, t := range ix.toks {
		if t.Start.Line == l {
			best += fmt.Sprintf(" %q@%d", t.Literal, t.Start.Column)
		}
	}
	if best == "" {
		return "no token (no token on that line)"
	}
	return "no token start (tokens on that line:" + best + ")"
}

type c08Violation struct {
	kind   string
	detail string
}

// rawTrimOnly: two backtick literals that differ only by blanks at the end of their lines
func rawTrimOnly(a, b string) bool {
	la, lb := strings.Split(a, "\n"), strings.Split(b, "\n")
	if len(la) != len(lb) {
		return false
	}
	for i := range la {
		if strings.TrimRight(la[i], " ") != strings.TrimRight(lb[i], " ") {
			return false
		}
	}
	return true
}

// c08Verify checks the decoded segments against the two token streams. It returns the
// first violation; a pair of linked backtick literals that differ only by per-line
// trailing blanks is remembered and returned only when nothing else is wrong.
func c08Verify(src, code string, segs []seg, names []string) (v *c08Violation, nNamed int) {
	sx := indexTokens(src)
	gx := indexTokens(code)
	var soft *c08Violation
	covered := map[int]bool{}
	for i, s := range segs {
		where := fmt.Sprintf("segment %d (generated %d:%d -> source %d:%d)", i, s.gl, s.gc, s.sl, s.sc)
		if s.src != 0 {
			return &c08Violation{"srcidx", fmt.Sprintf("%s has source index %d", where, s.src)}, nNamed
		}
		if i > 0 {
			p := segs[i-1]
			if s.gl == p.gl && s.gc == p.gc && (s.sl != p.sl || s.sc != p.sc) {
				return &c08Violation{"dup", fmt.Sprintf("%s: the previous segment has the same generated position but source %d:%d", where, p.sl, p.sc)}, nNamed
			}
			if s.gl < p.gl || (s.gl == p.gl && s.gc < p.gc) {
				return &c08Violation{"order", fmt.Sprintf("%s comes after segment at generated %d:%d", where, p.gl, p.gc)}, nNamed
			}
		}
		gi, ok := gx.at[[2]int{s.gl, s.gc}]
		if !ok {
			return &c08Violation{"genpos", fmt.Sprintf("%s: generated position is %s; source position is %s", where, gx.describe(s.gl, s.gc), sx.describe(s.sl, s.sc))}, nNamed
		}
		si, ok := sx.at[[2]int{s.sl, s.sc}]
		if !ok {
			return &c08Violation{"srcpos", fmt.Sprintf("%s: generated position is %s; source position is %s", where, gx.describe(s.gl, s.gc), sx.describe(s.sl, s.sc))}, nNamed
		}
		gt, st := gx.toks[gi], sx.toks[si]
		if gt.Type != st.Type || gt.Literal != st.Literal {
			if gt.Type == token.RAW_STRING && st.Type == token.RAW_STRING && rawTrimOnly(gt.Literal, st.Literal) {
				if soft == nil {
					soft = &c08Violation{"rawtrim", fmt.Sprintf("a segment links backtick literals that differ by blanks at line ends (trimmed in the pretty output): generated %q, source %q", gt.Literal, st.Literal)}
				}
			} else {
				return &c08Violation{"lexeme", fmt.Sprintf("%s links different lexemes: generated %q (type %d), source %q (type %d)", where, gt.Literal, int(gt.Type), st.Literal, int(st.Type))}, nNamed
			}
		}
		if s.hasName {
			nNamed++
			if s.ni < 0 || s.ni >= len(names) {
				return &c08Violation{"nameidx", fmt.Sprintf("%s: name index %d outside names (%d)", where, s.ni, len(names))}, nNamed
			}
			if names[s.ni] != gt.Literal {
				return &c08Violation{"name", fmt.Sprintf("%s carries name %q but the generated token is %q (type %d)", where, names[s.ni], gt.Literal, int(gt.Type))}, nNamed
			}
			covered[gi] = true
		}
	}
	for i, t := range gx.toks {
		if t.Type == token.IDENT && !covered[i] {
			return &c08Violation{"uncovered", fmt.Sprintf("identifier %q at generated %d:%d has no named segment", t.Literal, t.Start.Line, t.Start.Column)}, nNamed
		}
		if t.Type == token.ILLEGAL {
			return &c08Violation{"illegal", fmt.Sprintf("generated code has an illegal token %q at %d:%d", t.Literal, t.Start.Line, t.Start.Column)}, nNamed
		}
	}
	return soft, nNamed
}

// c08ShiftExplains decides whether a failure on a pretty-printed program whose first
// token carries leading trivia is exactly the known shift: the writer's output before
// the compiler trims it is reproduced through the public CodeWriter, the trimmed prefix
// is measured, and the segments moved by that prefix must then satisfy the property.
func c08ShiftExplains(prog *ast.Program, cfg ccfg, src, code string, segs []seg, names []string) bool {
	w := ast.CodeWriter{PrettyPrint: true, IndentString: cfg.indent, WriteSemicolons: cfg.semi, Mapper: sourcemap.New()}
	prog.WriteTo(&w)
	raw := w.String()
	rest := strings.TrimLeft(raw, " \t\n\r\v\f")
	prefix := raw[:len(raw)-len(rest)]
	if prefix == "" || !strings.HasPrefix(rest, strings.SplitN(code, "\n", 2)[0]) {
		return false
	}
	dl := strings.Count(prefix, "\n")
	dc := len(prefix) - (strings.LastIndexByte(prefix, '\n') + 1)
	adj := make([]seg, len(segs))
	for i, s := range segs {
		s.gl -= dl
		if s.gl == 0 {
			s.gc -= dc
		}
		if s.gl < 0 || s.gc < 0 {
			return false
		}
		adj[i] = s
	}
	v, _ := c08Verify(src, code, adj, names)
	return v == nil || v.kind == "rawtrim"
}

func c08Features(src string, toks []token.Token, dist map[string]int) {
	if strings.Contains(src, "\n") {
		dist["src-multiline"]++
	}
	if strings.Contains(src, "\r\n") {
		dist["src-crlf"]++
	}
	two, comments, mlit := false, false, false
	for _, t := range toks {
		switch t.Type {
		case token.EQ, token.NOT_EQ, token.LTE, token.GTE, token.AND, token.OR, token.INCREMENT, token.DECREMENT, token.PLUS_ASSIGN, token.MINUS_ASSIGN:
			two = true
		case token.RAW_STRING, token.STRING:
			if strings.Contains(t.Literal, "\n") {
				mlit = true
			}
		}
		for _, c := range t.LeadingComments {
			if c != "" {
				comments = true
			}
		}
	}
	if two {
		dist["src-two-char-operator"]++
	}
	if comments {
		dist["src-comments"]++
	}
	if mlit {
		dist["src-multiline-literal"]++
	}
}

func checkC08(line string, dist map[string]int) (detail, sig, class string) {
	src, cfgS := c08Input(line)
	cfg := parseCcfg(cfgS)
	cfg.withMap = true
	b := buildParser(pcase{src: src}, false)
	prog, err := b.p.ParseProgram()
	if err != nil {
		dist["rejected-source"]++
		return "", "", ""
	}
	if cfg.pretty {
		dist["cfg-pretty"]++
	} else {
		dist["cfg-compact"]++
	}
	res := cfg.compiler().Compile(prog)
	ctx := fmt.Sprintf("; cfg %s; source %q; code %q", cfgS, src, res.Code)
	if res.SourceMap == nil {
		return "no source map returned" + ctx, "nomap", ""
	}
	if res.SourceMap.Version != 3 {
		return fmt.Sprintf("map version %d", res.SourceMap.Version) + ctx, "version", ""
	}
	segs, ok := decodeMappings(res.SourceMap.Mappings)
	if !ok {
		return fmt.Sprintf("mappings %q do not decode", res.SourceMap.Mappings) + ctx, "decode", ""
	}
	stoks := indexTokens(src).toks
	c08Features(src, stoks, dist)
	v, named := c08Verify(src, res.Code, segs, res.SourceMap.Names)
	dist[fmt.Sprintf("segments<=%d", bucket(len(segs)))]++
	if named > 0 {
		dist["with-named-segments"]++
	}
	leading := len(stoks) > 0 && len(stoks[0].LeadingComments) > 0
	if leading {
		dist["first-token-has-leading-trivia"]++
	}
	if v != nil {
		if cfg.pretty && leading && v.kind != "rawtrim" && c08ShiftExplains(prog, cfg, src, res.Code, segs, res.SourceMap.Names) {
			class = c08KnownShift
		}
		if v.kind == "rawtrim" { // one record per literal pair
			// known finding KF3 seen through the map (pretty printing trims blanks inside
			// a multi-line backtick literal); positions are unaffected
			if cfg.pretty && strings.Contains(src, " \n") && strings.Contains(src, "`") {
				return v.detail, v.kind, "backtick-trailing-blank-pretty"
			}
			return v.detail, v.kind, ""
		}
		// known finding: a CR that is not part of a CR LF pair inside the generated text is a
		// line break for the source mapper but not for the lexer
		if class == "" && hasLoneCR(res.Code) {
			class = "lone-cr-in-generated-text"
		}
		return v.detail + ctx, v.kind, class
	}
	if len(segs) >= 3 {
		sig = cfgS + " " + src
	}
	return "", sig, ""
}

func hasLoneCR(s string) bool {
	for i := 0; i < len(s); i++ {
		if s[i] == '\r' && (i+1 >= len(s) || s[i+1] != '\n') {
			return true
		}
	}
	return false
}
