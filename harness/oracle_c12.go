package main

import (
	"fmt"
	"strconv"
	"strings"

	"github.com/xjslang/xjs/ast"
	"github.com/xjslang/xjs/token"
)

// C12: strict mode never silently accepts malformed programs. A valid base program
// (accepted by xjs in strict mode AND by node) is corrupted in every way of the
// quantifier; every corrupted text that node's parser rejects must be rejected by xjs
// too, with the first error not before the last intact token preceding the corruption.
//
// input lines (each one replays by itself):
//   r <seed>                 base = reference-unparser program c02Case(seed)
//   g <seed>                 base = genProgram(newRng(seed))
//   t <seed>                 base = terminating program of the C01 generator
//   p <hexsrc>               base given explicitly, all corruptions
//   x <kind> <pos> <hexsrc>  one corruption of the base: del <token index>,
//                            semi <token index of ';'>, nl <index of the token before the line break>,
//                            trunc <byte offset>
// The reference verdict "rejected" = node throws a SyntaxError both for the text as a
// function body (top-level return allowed, as in xjs) and as a plain script.

func init() {
	oracles["C12"] = &oracle{
		rule:  "valid base programs (reference unparser, genProgram, C01 generator; accepted by xjs strict mode and by node) x every single-token deletion x every ';' removal and every line-break-to-space fusion between adjacent tokens x every truncation offset inside a string / backtick string / bracket / block (all offsets up to 160 per program, sampled beyond); checked only where node rejects the corrupted text; non-trivial = at least one rejected corruption; distinct by input line",
		gen:   genC12,
		check: checkC12,
	}
}

func genC12(r *rng, n int, tier string) []string {
	out := []string{}
	for _, s := range []string{"y = 1 + x\nz = 5", "a.b\nc", "let s = \"abc\"\nlet t = `q\nr`\nf([1, {k: (2)}])", "if (a) { b }\nlet x = 1", "function f(a, b) { return a + b }\nf(1, 2)", "x++\ny--\n++z", "a = b.c\nd = 1", "x = [0,1.5]\nf(0,1e2,0,3.0)", "y = [1,2.5e1,0]"} {
		out = append(out, "p "+hx(s))
	}
	for i := 0; i < n; i++ {
		k := pick(r, []string{"r", "r", "g", "g", "t"})
		out = append(out, fmt.Sprintf("%s %d", k, r.next()%(1<<40)))
	}
	return out
}

type c12Span struct{ a, b int }

// token spans of src (byte offsets), EOF excluded; ok=false when they do not tile the source
func c12Tokens(src string) ([]token.Token, []c12Span, bool) {
	all := lexAll(src, len(src)+2)
	starts := lineStarts(src)
	var toks []token.Token
	var sp []c12Span
	prev := 0
	for _, t := range all {
		if t.Type == token.EOF {
			break
		}
		a, ok1 := offsetOf(src, starts, t.Start)
		e, ok2 := offsetOf(src, starts, t.End)
		if !ok1 || !ok2 {
			return nil, nil, false
		}
		b := e
		if isWordType(t.Type) {
			b = a + len(t.Literal)
		} else if b <= a || b < len(src) {
			b = e + 1
		}
		if b > len(src) {
			b = len(src)
		}
		if a < prev || b <= a || !isTriviaText(src[prev:a]) {
			return nil, nil, false
		}
		toks = append(toks, t)
		sp = append(sp, c12Span{a, b})
		prev = b
	}
	if !isTriviaText(src[prev:]) {
		return nil, nil, false
	}
	return toks, sp, true
}

type c12Corr struct {
	kind  string
	pos   int
	text  string
	bound *token.Position // start of the last intact token before the corruption point
	at    int             // byte offset of the corruption point in text
}

// the corrupted text around the corruption point
func (c c12Corr) window() string {
	lo, hi := c.at-40, c.at+40
	if lo < 0 {
		lo = 0
	}
	if hi > len(c.text) {
		hi = len(c.text)
	}
	return c.text[lo:c.at] + "<HERE>" + c.text[c.at:hi]
}

func c12Corrupt(src string, toks []token.Token, sp []c12Span, kind string, pos int) (c12Corr, bool) {
	c := c12Corr{kind: kind, pos: pos}
	boundAt := func(i int) *token.Position {
		if i < 0 || i >= len(toks) {
			return nil
		}
		p := toks[i].Start
		return &p
	}
	switch kind {
	case "del":
		if pos < 0 || pos >= len(toks) {
			return c, false
		}
		c.text = src[:sp[pos].a] + src[sp[pos].b:]
		c.at = sp[pos].a
		c.bound = boundAt(pos - 1)
	case "semi": // the ';' and the layout after it -> one space
		if pos < 0 || pos >= len(toks) || toks[pos].Type != token.SEMICOLON {
			return c, false
		}
		next := len(src)
		if pos+1 < len(toks) {
			next = sp[pos+1].a
		}
		c.text = src[:sp[pos].a] + " " + src[next:]
		c.at = sp[pos].a
		c.bound = boundAt(pos - 1)
	case "nl": // the layout (with its line break) between tokens pos and pos+1 -> one space
		if pos < 0 || pos+1 >= len(toks) || !strings.Contains(src[sp[pos].b:sp[pos+1].a], "\n") {
			return c, false
		}
		c.text = src[:sp[pos].b] + " " + src[sp[pos+1].a:]
		c.at = sp[pos].b
		c.bound = boundAt(pos)
	case "trunc":
		if pos <= 0 || pos >= len(src) {
			return c, false
		}
		c.text = src[:pos]
		c.at = pos
		last := -1
		for i := range sp {
			if sp[i].b <= pos {
				last = i
			}
		}
		c.bound = boundAt(last)
	default:
		return c, false
	}
	return c, true
}

// truncation offsets of the quantifier: inside a string / backtick string, or at a
// point where a bracket or block is open
func c12TruncOffsets(src string, toks []token.Token, sp []c12Span) []int {
	var out []int
	depth := 0
	ti := 0
	for k := 1; k < len(src); k++ {
		for ti < len(sp) && sp[ti].b <= k {
			switch toks[ti].Type {
			case token.LPAREN, token.LBRACKET, token.LBRACE:
				depth++
			case token.RPAREN, token.RBRACKET, token.RBRACE:
				depth--
			}
			ti++
		}
		inStr := ti < len(sp) && sp[ti].a < k && (toks[ti].Type == token.STRING || toks[ti].Type == token.RAW_STRING)
		if inStr || depth > 0 {
			out = append(out, k)
		}
	}
	return out
}

func c12AllCorruptions(src string, toks []token.Token, sp []c12Span) []c12Corr {
	var out []c12Corr
	add := func(kind string, pos int) {
		if c, ok := c12Corrupt(src, toks, sp, kind, pos); ok {
			out = append(out, c)
		}
	}
	for i := range toks {
		add("del", i)
	}
	for i := range toks {
		if toks[i].Type == token.SEMICOLON {
			add("semi", i)
		}
		add("nl", i)
	}
	offs := c12TruncOffsets(src, toks, sp)
	if len(offs) > 160 {
		h := uint64(len(src))
		for i := 0; i < len(src); i++ {
			h = h*1099511628211 ^ uint64(src[i])
		}
		r := newRng(h, "c12trunc")
		keep := map[int]bool{}
		for len(keep) < 160 {
			keep[offs[r.intn(len(offs))]] = true
		}
		var sel []int
		for _, k := range offs {
			if keep[k] {
				sel = append(sel, k)
			}
		}
		offs = sel
	}
	for _, k := range offs {
		add("trunc", k)
	}
	return out
}

func posBefore(a, b token.Position) bool {
	return a.Line < b.Line || (a.Line == b.Line && a.Column < b.Column)
}

// ---- class predicates (decided from the corrupted text alone) ----

func isAssignable(e ast.Expression) bool {
	for {
		g, ok := e.(*ast.GroupedExpression)
		if !ok {
			break
		}
		e = g.Expression
	}
	switch e.(type) {
	case *ast.Identifier, *ast.MemberExpression:
		return true
	}
	return false
}

// hasInvalidTarget: does the tree xjs builds for the text assign (= += -= ++ --) to
// something that is neither an identifier nor a member access?
func hasInvalidTarget(prog *ast.Program) bool {
	found := false
	walkProgram(prog, func(n ast.Node) {
		switch x := n.(type) {
		case *ast.AssignmentExpression:
			if !isNilNode(x.Left) && !isAssignable(x.Left) {
				found = true
			}
		case *ast.CompoundAssignmentExpression:
			if !isNilNode(x.Left) && !isAssignable(x.Left) {
				found = true
			}
		case *ast.UnaryExpression:
			if (x.Operator == "++" || x.Operator == "--") && !isNilNode(x.Right) && !isAssignable(x.Right) {
				found = true
			}
		case *ast.PostfixExpression:
			if (x.Operator == "++" || x.Operator == "--") && !isNilNode(x.Left) && !isAssignable(x.Left) {
				found = true
			}
		}
	})
	return found
}

// dotNonName: does the tree xjs builds contain a member access `obj.<something>` whose
// <something> is not a name (identifier, or the keyword literals true/false/null, which
// are legal property names)? e.g. a.1, a.(b), a."s", a.function(){}
func dotNonName(prog *ast.Program) bool {
	found := false
	walkProgram(prog, func(n ast.Node) {
		if m, ok := n.(*ast.MemberExpression); ok && !m.Computed && !isNilNode(m.Property) {
			switch m.Property.(type) {
			case *ast.Identifier, *ast.BooleanLiteral, *ast.NullLiteral:
			default:
				found = true
			}
		}
	})
	return found
}

// c12Hint names the shape of an unexplained acceptance, for triage only
var jsOnlyReserved = map[string]bool{"in": true, "do": true, "var": true, "new": true, "try": true, "this": true, "void": true, "with": true, "case": true, "enum": true, "typeof": true, "delete": true, "instanceof": true, "class": true, "const": true, "break": true, "catch": true, "throw": true, "super": true, "switch": true, "export": true, "import": true, "extends": true, "finally": true, "continue": true, "debugger": true, "default": true}

func c12Hint(text string, prog *ast.Program, class string) string {
	if class != "" || prog == nil {
		return ""
	}
	hint := ""
	toks := lexAll(text, len(text)+2)
	for i, t := range toks {
		if t.Type == token.EOF {
			break
		}
		if t.Type == token.IDENT && jsOnlyReserved[t.Literal] {
			hint = "[JavaScript reserved word " + t.Literal + " (unknown to xjs) taken as an identifier] "
		}
		if t.Type == token.RAW_STRING && t.AfterNewline && i > 0 {
			switch toks[i-1].Type {
			case token.IDENT, token.RPAREN, token.RBRACKET, token.STRING, token.RAW_STRING, token.INT, token.FLOAT, token.TRUE, token.FALSE, token.NULL:
				hint = "[line break before a backtick string: JavaScript continues the expression (tagged template), xjs starts a new statement] "
			}
		}
	}
	walkProgram(prog, func(n ast.Node) {
		var ps []*ast.Identifier
		switch x := n.(type) {
		case *ast.FunctionDeclaration:
			ps = x.Parameters
		case *ast.FunctionExpression:
			ps = x.Parameters
		}
		for _, p := range ps {
			if p != nil && p.Token.Type != token.IDENT {
				hint = "[function parameter that is not an identifier] "
			}
		}
	})
	walkProgram(prog, func(n ast.Node) {
		switch x := n.(type) {
		case *ast.CallExpression:
			if _, ok := x.Function.(*ast.PostfixExpression); ok {
				hint = "[x++ / x-- used as callee, object or index base] "
			}
		case *ast.MemberExpression:
			if _, ok := x.Object.(*ast.PostfixExpression); ok {
				hint = "[x++ / x-- used as callee, object or index base] "
			}
		case *ast.IfStatement:
			if isDecl(x.ThenBranch) || isDecl(x.ElseBranch) {
				hint = "[declaration as the body of if/while/for] "
			}
		case *ast.WhileStatement:
			if isDecl(x.Body) {
				hint = "[declaration as the body of if/while/for] "
			}
		case *ast.ForStatement:
			if isDecl(x.Body) {
				hint = "[declaration as the body of if/while/for] "
			}
		case *ast.FloatLiteral:
			if l := x.Token.Literal; len(l) > 1 && l[0] == '0' && l[1] >= '0' && l[1] <= '9' {
				hint = "[decimal literal with a leading zero and a fraction/exponent] "
			}
		}
	})
	return hint
}

func isDecl(s ast.Statement) bool {
	switch s.(type) {
	case *ast.LetStatement, *ast.FunctionDeclaration:
		return !isNilNode(s)
	}
	return false
}

// hintClass maps the triage hints onto the recorded known-finding classes (each a narrow
// shape of text that xjs accepts although it is not valid JavaScript)
var hintClass = map[string]string{
	"[x++ / x-- used as callee, object or index base] ":                                                                         "postfix-as-callee",
	"[declaration as the body of if/while/for] ":                                                                                "declaration-in-single-statement",
	"[decimal literal with a leading zero and a fraction/exponent] ":                                                            "leading-zero-float",
	"[line break before a backtick string: JavaScript continues the expression (tagged template), xjs starts a new statement] ": "newline-before-backtick",
}

func c12Class(text string, prog *ast.Program, nodeMsg string) string {
	if prog != nil && hasInvalidTarget(prog) {
		return "invalid-assignment-target"
	}
	if prog != nil && dotNonName(prog) {
		return "member-name-not-identifier"
	}
	h := c12Hint(text, prog, "")
	if c, ok := hintClass[h]; ok {
		return c
	}
	if strings.HasPrefix(h, "[JavaScript reserved word ") {
		return "reserved-word-identifier"
	}
	return ""
}

// ---- generic tree walk (used by the C01 and C12 class predicates) ----

func walkProgram(p *ast.Program, f func(ast.Node)) {
	for _, s := range p.Statements {
		walkNode(s, f)
	}
}

func walkNode(n ast.Node, f func(ast.Node)) {
	if isNilNode(n) {
		return
	}
	f(n)
	switch x := n.(type) {
	case *ast.LetStatement:
		walkNode(x.Value, f)
	case *ast.ReturnStatement:
		walkNode(x.ReturnValue, f)
	case *ast.ExpressionStatement:
		walkNode(x.Expression, f)
	case *ast.FunctionDeclaration:
		walkNode(x.Body, f)
	case *ast.BlockStatement:
		for _, s := range x.Statements {
			walkNode(s, f)
		}
	case *ast.IfStatement:
		walkNode(x.Condition, f)
		walkNode(x.ThenBranch, f)
		walkNode(x.ElseBranch, f)
	case *ast.WhileStatement:
		walkNode(x.Condition, f)
		walkNode(x.Body, f)
	case *ast.ForStatement:
		walkNode(x.Init, f)
		walkNode(x.Condition, f)
		walkNode(x.Update, f)
		walkNode(x.Body, f)
	case *ast.LetExpression:
		walkNode(x.Value, f)
	case *ast.BinaryExpression:
		walkNode(x.Left, f)
		walkNode(x.Right, f)
	case *ast.UnaryExpression:
		walkNode(x.Right, f)
	case *ast.PostfixExpression:
		walkNode(x.Left, f)
	case *ast.GroupedExpression:
		walkNode(x.Expression, f)
	case *ast.CallExpression:
		walkNode(x.Function, f)
		for _, a := range x.Arguments {
			walkNode(a, f)
		}
	case *ast.MemberExpression:
		walkNode(x.Object, f)
		walkNode(x.Property, f)
	case *ast.AssignmentExpression:
		walkNode(x.Left, f)
		walkNode(x.Value, f)
	case *ast.CompoundAssignmentExpression:
		walkNode(x.Left, f)
		walkNode(x.Value, f)
	case *ast.FunctionExpression:
		walkNode(x.Body, f)
	case *ast.ArrayLiteral:
		for _, e := range x.Elements {
			walkNode(e, f)
		}
	case *ast.ObjectLiteral:
		for _, p := range x.Properties {
			walkNode(p.Key, f)
			walkNode(p.Value, f)
		}
	}
}

// ---- the check ----

func c12BaseOf(line string) (src string, single *[2]string, ok bool) {
	f := strings.Fields(line)
	if len(f) < 2 {
		return "", nil, false
	}
	seed, _ := strconv.ParseUint(f[1], 10, 64)
	switch f[0] {
	case "r":
		_, txt := c02Case(seed)
		return txt, nil, true
	case "g":
		return genProgram(newRng(seed, "c12g")), nil, true
	case "t":
		txt, _ := c01Program(seed)
		return txt, nil, true
	case "p":
		return unhx(f[1]), nil, true
	case "x":
		if len(f) < 4 {
			return "", nil, false
		}
		return unhx(f[3]), &[2]string{f[1], f[2]}, true
	}
	return "", nil, false
}

func checkC12(line string, dist map[string]int) (detail, sig, class string) {
	src, single, ok := c12BaseOf(line)
	if !ok {
		return "", "", ""
	}
	kindOfBase := strings.Fields(line)[0]
	// the base program must be valid for both
	b := buildParser(pcase{src: src}, false)
	if _, err := b.p.ParseProgram(); err != nil {
		dist["base-skipped:xjs-rejects:"+kindOfBase]++
		return "", "", ""
	}
	toks, sp, tiled := c12Tokens(src)
	if !tiled {
		dist["base-skipped:token-spans-do-not-tile"]++
		return "", "", ""
	}
	var corrs []c12Corr
	if single != nil {
		pos, _ := strconv.Atoi(single[1])
		c, ok := c12Corrupt(src, toks, sp, single[0], pos)
		if !ok {
			return "", "", ""
		}
		corrs = []c12Corr{c}
	} else {
		corrs = c12AllCorruptions(src, toks, sp)
	}
	texts := make([]string, 0, len(corrs)+1)
	texts = append(texts, src)
	for _, c := range corrs {
		texts = append(texts, c.text)
	}
	verdicts := nodeSynAll(texts)
	if verdicts[0].W {
		dist["base-skipped:node-rejects:"+kindOfBase]++
		return "", "", ""
	}
	dist["base:"+kindOfBase]++
	dist[fmt.Sprintf("base-tokens<=%d", bucket(len(toks)))]++
	type fail struct {
		c      c12Corr
		detail string
		class  string
	}
	var fails []fail
	rejected := 0
	for i, c := range corrs {
		v := verdicts[i+1]
		if !(v.W && v.P) {
			dist[c.kind+":still-valid-js"]++
			continue
		}
		if strings.HasSuffix(v.Msg, "has already been declared") {
			// an early error of static semantics (duplicate declaration), not malformed
			// syntax: xjs has no scope analysis at all (it accepts `let a; let a`), which
			// is not what this property is about
			dist[c.kind+":outside(duplicate-declaration)"]++
			continue
		}
		rejected++
		dist[c.kind+":rejected-by-node"]++
		pb := buildParser(pcase{src: c.text}, false)
		prog, err := pb.p.ParseProgram()
		errs := pb.p.Errors()
		replay := fmt.Sprintf("x %s %d %s", c.kind, c.pos, hx(src))
		if err == nil || len(errs) == 0 {
			cl := c12Class(c.text, prog, v.Msg)
			fails = append(fails, fail{c, c12Hint(c.text, prog, cl) + fmt.Sprintf("%s at %d: node rejects (%s) but xjs strict mode reports no error for ...%q...; base %q; corrupted %q (replay: %s)", c.kind, c.pos, v.Msg, c.window(), src, c.text, replay), cl})
			continue
		}
		if c.bound != nil && posBefore(errs[0].Range.Start, *c.bound) {
			fails = append(fails, fail{c, fmt.Sprintf("%s at %d: first error %q at %d:%d lies before the last intact token (at %d:%d) preceding the corruption ...%q...; base %q; corrupted %q (replay: %s)", c.kind, c.pos, errs[0].Message, errs[0].Range.Start.Line, errs[0].Range.Start.Column, c.bound.Line, c.bound.Column, c.window(), src, c.text, replay), ""})
		}
	}
	if rejected > 0 {
		sig = fmt.Sprintf("rej%d/%d", rejected, len(corrs))
	}
	if len(fails) == 0 {
		return "", sig, ""
	}
	best := fails[0]
	for _, f := range fails {
		if (f.class == "") != (best.class == "") {
			if f.class == "" {
				best = f
			}
			continue
		}
		if len(f.c.text) < len(best.c.text) {
			best = f
		}
	}
	for _, f := range fails {
		c := f.class
		if c == "" {
			c = "unexplained"
		}
		dist["failing-corruptions:"+c]++
	}
	if best.class == "" {
		dist["failed-bases:unexplained"]++
	} else {
		dist["failed-bases:"+best.class]++
	}
	return capKnown(best.class, best.detail), sig, best.class
}
