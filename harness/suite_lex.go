package main

import (
	"fmt"
	"strings"

	"github.com/xjslang/xjs/lexer"
	"github.com/xjslang/xjs/token"
)

// lex: byte strings; observable = the first len+3 tokens with every field.
// case line: hex of the source ("-" for empty)

func init() {
	suites["lex"] = &suite{gen: genLex, run: runLex}
}

var lexFragments = []string{
	"a", "foo", "let", "function", "return", "if", "else", "while", "for", "true", "false", "null", "letx", "$", "_", "x1",
	"0", "1", "42", "3.14", "1e5", "1E+5", "2e-3", "1e", "1e+", "0x", "0xFF", "0XaB", "0b101", "0b2", "0o17", "0o8", "1.", ".5", "1..2", "007", "1.5.2",
	"1.e3", "1.E-2", "1.e", "1.x", "1..x", "1 .x", "1.5.x", "0x1.x", "1.toString()", "0.", "00.", "12.e+", "1.+2",
	"=", "==", "===", "!", "!=", "<", "<=", ">", ">=", "&", "&&", "|", "||", "+", "++", "+=", "-", "--", "-=", "*", "/", "%", ",", ";", ":", ".",
	"(", ")", "{", "}", "[", "]", " ", "  ", "\t", "\n", "\r", "\r\n", "\n\n",
	"//", "// c", "//c \n", "// trailing   \n", "/", "/*", "/* x */",
	"// déjà", "// Å\n", "// 谢谢你\nx", "// смех \n", "// zażółć gęślą", "// à\u00a0\n", "//\t", "// \t", "//\t\n", "// a\t \n", "//\v\f", "//\u00a0", "// b\u00a0\n", "//\u2028", "//\u3000\u0085", "// c\xa0", "// d\xc2", "// e\x80\xa8", "//\u1680 \r\n", "// f\u200b",
	`"`, `""`, `"a"`, `"a\"b"`, `'`, `''`, `'a'`, `'q"q'`, "`", "``", "`a`", "`a\\`b`", "`a\nb`", "`\\\\`",
	`"\x41"`, `"\x4"`, `"\x4G"`, `"\xZZ"`, `"\x22"`, `"\x5c"`, `"\x0a"`, `"\xe9"`, `"A"`, `"é"`, `"\u12"`, `"\u12G4"`, `"😀"`, `"\"`,
	`"\u{41}"`, `"\u{1F600}"`, `"\u{}"`, `"\u{110000}"`, `"\u{1234567}"`, `"\u{12`, `"\u{zz}"`, `"\u{22}"`, `"\u{D800}"`, `"\n\t\r\\\'\0\q"`, "\"a\\\nb\"", `"\`, `"\x`, `"\u`, `"\u{`,
	`"\u000a"`, `"\u000d"`, `"\u2028"`, `"\u2029"`, `"\u0022"`, `"\u005c"`, `"\u0000"`, `"\u00001"`, `"\ud800"`, `"\udfff"`, `"\ud83d\ude00"`, `"\u0041"`, `"\u00e9"`, `"\uFFFF"`, `'\u0027'`, `'\u000A'`,
	`"\u{a}"`, `"\u{2028}"`, `"\u{5c}"`, `"\u{0}"`, `"\u{DFFF}"`, `"\u{10FFFF}"`, `"\0"`, `"\01"`, `"\x00"`, `"\x1F"`,
	"\x00", "\x01", "\x7f", "\x80", "\xff", "é", "✓", "😀", "@", "#", "~", "^", "?",
}

// longLiteralUnits: escape units (and raw multi-byte characters) whose scanned form has several
// bytes; longLiterals places each of them at every offset around a power-of-two boundary of
// the literal, so that a scanner that accumulates the literal in fixed-size chunks is exercised
// at the chunk borders (seeded change C07-literal-buffer-boundary).
var longLiteralUnits = []string{`\xe9`, `\u00e9`, `\u20AC`, `\u{1F600}`, `\ud83d\ude00`, `\u{00005c}`, `\u2028`, "é", "€", "😀", "\\\n", `\n\t`}

func longLiterals(q string, boundaries []int) []string {
	var out []string
	for _, b := range boundaries {
		for _, u := range longLiteralUnits {
			for d := 0; d < 8; d++ {
				out = append(out, q+strings.Repeat("a", b-d)+u+"z"+q)
			}
		}
	}
	return out
}

func genLex(r *rng, n int, tier string) []string {
	var out []string
	for _, f := range lexFragments {
		out = append(out, hx(f))
	}
	for i, l := range longLiterals(`"`, []int{32, 64, 128, 256, 512}) {
		if i%2 == 1 {
			l = "'" + l[1:len(l)-1] + "'"
		}
		out = append(out, hx("x="+l+";"))
	}
	for i := 0; i < 40; i++ { // long random literals (100..900 bytes)
		var b strings.Builder
		q := pick(r, []string{`"`, "'", "`"})
		b.WriteString(q)
		for m := 100 + r.intn(800); b.Len() < m; {
			switch r.intn(4) {
			case 0:
				b.WriteString(pick(r, longLiteralUnits))
			case 1:
				b.WriteString(pick(r, []string{`\x41`, `\0`, `\\`, `\q`, " ", "\t"}))
			default:
				b.WriteString(strings.Repeat(pick(r, []string{"a", "b", "0", " "}), 1+r.intn(40)))
			}
		}
		b.WriteString(q)
		out = append(out, hx(b.String()))
	}
	for i := 0; i < n; i++ {
		var b strings.Builder
		switch r.intn(4) {
		case 0, 1: // fragment concatenations
			m := r.intn(12)
			for j := 0; j < m; j++ {
				b.WriteString(pick(r, lexFragments))
				if r.chance(1, 3) {
					b.WriteByte(' ')
				}
			}
		case 2: // programs
			b.WriteString(genProgram(r))
		case 3: // random bytes / mutated programs
			if r.chance(1, 2) {
				m := r.intn(20)
				for j := 0; j < m; j++ {
					b.WriteByte(byte(r.intn(256)))
				}
			} else {
				p := []byte(genProgram(r))
				for k := 0; k < 1+r.intn(3) && len(p) > 0; k++ {
					i := r.intn(len(p))
					switch r.intn(3) {
					case 0:
						p[i] = byte(r.intn(256))
					case 1:
						p = append(p[:i], p[i+1:]...)
					case 2:
						p = p[:i]
					}
				}
				b.Write(p)
			}
		}
		out = append(out, hx(b.String()))
	}
	return out
}

func fmtToken(t token.Token) string {
	cs := make([]string, len(t.LeadingComments))
	for i, c := range t.LeadingComments {
		cs[i] = hx(c)
	}
	nl := 0
	if t.AfterNewline {
		nl = 1
	}
	return fmt.Sprintf("%d:%s:%d:%d:%d:%d:%d:%s", int(t.Type), hx(t.Literal), t.Start.Line, t.Start.Column, t.End.Line, t.End.Column, nl, strings.Join(cs, ","))
}

func lexAll(src string, n int) []token.Token {
	l := lexer.NewBuilder().Build(src)
	out := make([]token.Token, 0, n)
	for i := 0; i < n; i++ {
		out = append(out, l.NextToken())
	}
	return out
}

func runLex(line string) string {
	src := unhx(line)
	toks := lexAll(src, len(src)+3)
	parts := make([]string, len(toks))
	for i, t := range toks {
		parts[i] = fmtToken(t)
	}
	return strings.Join(parts, " ")
}
