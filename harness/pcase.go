package main

import (
	"fmt"
	"reflect"
	"strconv"
	"strings"

	"github.com/xjslang/xjs/ast"
	"github.com/xjslang/xjs/lexer"
	"github.com/xjslang/xjs/parser"
	"github.com/xjslang/xjs/token"
)

// A parse case: parser configuration + source. Line format: "<cfg> <hexsrc>", cfg = "-" or
// ';'-separated items: T (tolerant) S (smart semicolons) si:<p|qN,...> ei:<p|qN|r,...>
// ti:<p|qN|g<hexlit>=<type>,...> pre:<types> inf:<type>=<prec>,... post:<types>

type pcase struct {
	tolerant, smart bool
	si, ei, ti      []string
	pre             []int
	inf             [][2]int
	post            []int
	src             string
}

func parsePcase(line string) pcase {
	f := strings.SplitN(line, " ", 2)
	if len(f) != 2 {
		die("bad parse case %q", line)
	}
	var c pcase
	c.src = unhx(f[1])
	if f[0] == "-" {
		return c
	}
	for _, it := range strings.Split(f[0], ";") {
		switch {
		case it == "T":
			c.tolerant = true
		case it == "S":
			c.smart = true
		case strings.HasPrefix(it, "si:"):
			c.si = splitList(it[3:])
		case strings.HasPrefix(it, "ei:"):
			c.ei = splitList(it[3:])
		case strings.HasPrefix(it, "ti:"):
			c.ti = splitList(it[3:])
		case strings.HasPrefix(it, "pre:"):
			c.pre = intList(it[4:])
		case strings.HasPrefix(it, "post:"):
			c.post = intList(it[5:])
		case strings.HasPrefix(it, "inf:"):
			for _, kv := range splitList(it[4:]) {
				p := strings.Split(kv, "=")
				a, _ := strconv.Atoi(p[0])
				b, _ := strconv.Atoi(p[1])
				c.inf = append(c.inf, [2]int{a, b})
			}
		case it == "":
		default:
			die("bad cfg item %q", it)
		}
	}
	return c
}

func splitList(s string) []string {
	if s == "" {
		return nil
	}
	return strings.Split(s, ",")
}

func intList(s string) []int {
	var out []int
	for _, x := range splitList(s) {
		v, _ := strconv.Atoi(x)
		out = append(out, v)
	}
	return out
}

type event struct {
	id, kind int
	tok      token.Token
	ctx      int
	inFn     bool
	line     int // token probes: lexer line/column at entry
	col      int
}

type built struct {
	p       *parser.Parser
	lb      *lexer.Builder
	pb      *parser.Builder
	events  *[]event
	regErrs []bool
}

// selective probes ("s<N>") query the parser only on some tokens, so that consecutive
// queries can happen under different context stacks of equal depth. The token set is a
// function of the id: bit 0 let, bit 1 return, bit 2 function of (N mod 7) + 1.
func selectiveProbeToken(id int, t token.Type) bool {
	m := id%7 + 1
	return (m&1 != 0 && t == token.LET) || (m&2 != 0 && t == token.RETURN) || (m&4 != 0 && t == token.FUNCTION)
}

// nestedSources: what the "b" interceptors parse with a SECOND parser built from the same builder
// in the middle of the observed parse (an include-style plugin). Parsers are isolated (C14) and
// the interceptor continues with next(), so the model treats "b" as a pass-through; everything
// the nested parser's own interceptors log is discarded.
var nestedSources = []string{"function g() { { let n = 1; } return n }", "{ { { n; } } }", "let f = function () { return function () { { n } } }", "n"}

// buildParser constructs the real parser for a case; interceptors log into events.
func buildParser(c pcase, viaInstall bool) built {
	events := &[]event{}
	nested, nestedCount := false, 0
	var pbOuter *parser.Builder
	runNested := func() {
		if nested || pbOuter == nil {
			return
		}
		nested = true
		n := len(*events)
		pbOuter.Build(nestedSources[nestedCount%len(nestedSources)]).ParseProgram()
		nestedCount++
		*events = (*events)[:n]
		nested = false
	}
	lb := lexer.NewBuilder()
	for _, ti := range c.ti {
		ti := ti
		switch {
		case ti == "p":
			lb.UseTokenInterceptor(func(l *lexer.Lexer, next func() token.Token) token.Token { return next() })
		case strings.HasPrefix(ti, "q"):
			id, _ := strconv.Atoi(ti[1:])
			lb.UseTokenInterceptor(func(l *lexer.Lexer, next func() token.Token) token.Token {
				*events = append(*events, event{id: id, kind: 2, line: l.Line, col: l.Column})
				return next()
			})
		case strings.HasPrefix(ti, "g"):
			kv := strings.Split(ti[1:], "=")
			lit := unhx(kv[0])
			ty, _ := strconv.Atoi(kv[1])
			lb.UseTokenInterceptor(func(l *lexer.Lexer, next func() token.Token) token.Token {
				t := next()
				if (t.Type == token.ILLEGAL || t.Type == token.IDENT) && t.Literal == lit {
					t.Type = token.Type(ty)
				}
				return t
			})
		case strings.HasPrefix(ti, "n"): // n<hexlit>=<hexname>: the type comes from RegisterTokenType(name)
			kv := strings.Split(ti[1:], "=")
			lit := unhx(kv[0])
			ty := lb.RegisterTokenType(unhx(kv[1]))
			lb.UseTokenInterceptor(func(l *lexer.Lexer, next func() token.Token) token.Token {
				t := next()
				if (t.Type == token.ILLEGAL || t.Type == token.IDENT) && t.Literal == lit {
					t.Type = ty
				}
				return t
			})
		default:
			die("bad token interceptor %q", ti)
		}
	}
	pb := parser.NewBuilder(lb)
	pbOuter = pb
	install := func(f func(*parser.Builder)) {
		if viaInstall {
			pb.Install(f)
		} else {
			f(pb)
		}
	}
	var regErrs []bool
	install(func(pb *parser.Builder) {
		pb.WithTolerantMode(c.tolerant).WithSmartSemicolon(c.smart)
		for _, si := range c.si {
			si := si
			switch {
			case si == "p":
				pb.UseStatementInterceptor(func(p *parser.Parser, next func() ast.Statement) ast.Statement { return next() })
			case si == "b": // nested build from the same builder, then pass through
				pb.UseStatementInterceptor(func(p *parser.Parser, next func() ast.Statement) ast.Statement {
					runNested()
					return next()
				})
			case strings.HasPrefix(si, "q"):
				id, _ := strconv.Atoi(si[1:])
				pb.UseStatementInterceptor(func(p *parser.Parser, next func() ast.Statement) ast.Statement {
					*events = append(*events, event{id: id, kind: 0, tok: p.CurrentToken, ctx: int(p.CurrentContext()), inFn: p.IsInFunction()})
					return next()
				})
			case strings.HasPrefix(si, "s"): // selective probe: asks only at let / return / function
				id, _ := strconv.Atoi(si[1:])
				pb.UseStatementInterceptor(func(p *parser.Parser, next func() ast.Statement) ast.Statement {
					if selectiveProbeToken(id, p.CurrentToken.Type) {
						*events = append(*events, event{id: id, kind: 0, tok: p.CurrentToken, ctx: int(p.CurrentContext()), inFn: p.IsInFunction()})
					}
					return next()
				})
			default:
				die("bad statement interceptor %q", si)
			}
		}
		for _, ei := range c.ei {
			ei := ei
			switch {
			case ei == "p":
				pb.UseExpressionInterceptor(func(p *parser.Parser, next func() ast.Expression) ast.Expression { return next() })
			case ei == "b":
				pb.UseExpressionInterceptor(func(p *parser.Parser, next func() ast.Expression) ast.Expression {
					runNested()
					return next()
				})
			case ei == "r":
				pb.UseExpressionInterceptor(func(p *parser.Parser, next func() ast.Expression) ast.Expression {
					left := p.ParsePrefixExpression()
					return p.ParseRemainingExpression(left)
				})
			case strings.HasPrefix(ei, "q"):
				id, _ := strconv.Atoi(ei[1:])
				pb.UseExpressionInterceptor(func(p *parser.Parser, next func() ast.Expression) ast.Expression {
					*events = append(*events, event{id: id, kind: 1, tok: p.CurrentToken, ctx: int(p.CurrentContext()), inFn: p.IsInFunction()})
					return next()
				})
			case strings.HasPrefix(ei, "s"):
				id, _ := strconv.Atoi(ei[1:])
				pb.UseExpressionInterceptor(func(p *parser.Parser, next func() ast.Expression) ast.Expression {
					if selectiveProbeToken(id, p.CurrentToken.Type) {
						*events = append(*events, event{id: id, kind: 1, tok: p.CurrentToken, ctx: int(p.CurrentContext()), inFn: p.IsInFunction()})
					}
					return next()
				})
			default:
				die("bad expression interceptor %q", ei)
			}
		}
		for _, ty := range c.pre {
			err := pb.RegisterPrefixOperator(token.Type(ty), func(tok token.Token, right func() ast.Expression) ast.Expression {
				return &ast.UnaryExpression{Token: tok, Operator: tok.Literal, Right: right()}
			})
			regErrs = append(regErrs, err != nil)
		}
		for _, kv := range c.inf {
			err := pb.RegisterInfixOperator(token.Type(kv[0]), kv[1], func(tok token.Token, left ast.Expression, right func() ast.Expression) ast.Expression {
				return &ast.BinaryExpression{Token: tok, Left: left, Operator: tok.Literal, Right: right()}
			})
			regErrs = append(regErrs, err != nil)
		}
		for _, ty := range c.post {
			err := pb.RegisterPostfixOperator(token.Type(ty), func(tok token.Token, left ast.Expression) ast.Expression {
				return &ast.PostfixExpression{Token: tok, Left: left, Operator: tok.Literal}
			})
			regErrs = append(regErrs, err != nil)
		}
	})
	return built{p: pb.Build(c.src), lb: lb, pb: pb, events: events, regErrs: regErrs}
}

// ---- canonical S-expressions ----

func tk(t token.Token) string { return "{" + fmtToken(t) + "}" }

func isNilNode(n any) bool {
	if n == nil {
		return true
	}
	v := reflect.ValueOf(n)
	return v.Kind() == reflect.Ptr && v.IsNil()
}

func sxIdent(i *ast.Identifier) string {
	if i == nil {
		return "noid"
	}
	return "(id " + tk(i.Token) + " " + hx(i.Value) + ")"
}

func sxIdents(l []*ast.Identifier) string {
	parts := make([]string, len(l))
	for i, x := range l {
		parts[i] = sxIdent(x)
	}
	return "[" + strings.Join(parts, " ") + "]"
}

func sxExprs(l []ast.Expression) string {
	parts := make([]string, len(l))
	for i, x := range l {
		parts[i] = sxExpr(x)
	}
	return "[" + strings.Join(parts, " ") + "]"
}

func b01(b bool) string {
	if b {
		return "1"
	}
	return "0"
}

func sxExpr(e ast.Expression) string {
	if isNilNode(e) {
		return "nil"
	}
	switch n := e.(type) {
	case *ast.Identifier:
		return sxIdent(n)
	case *ast.IntegerLiteral:
		return "(int " + tk(n.Token) + ")"
	case *ast.FloatLiteral:
		return "(float " + tk(n.Token) + ")"
	case *ast.StringLiteral:
		return "(str " + tk(n.Token) + " " + hx(n.Value) + ")"
	case *ast.MultiStringLiteral:
		return "(raw " + tk(n.Token) + " " + hx(n.Value) + ")"
	case *ast.BooleanLiteral:
		return "(bool " + tk(n.Token) + " " + b01(n.Value) + ")"
	case *ast.NullLiteral:
		return "(null " + tk(n.Token) + ")"
	case *ast.LetExpression:
		return "(lete " + tk(n.Token) + " " + sxIdent(n.Name) + " " + sxExpr(n.Value) + ")"
	case *ast.BinaryExpression:
		return "(bin " + tk(n.Token) + " " + sxExpr(n.Left) + " " + hx(n.Operator) + " " + sxExpr(n.Right) + ")"
	case *ast.UnaryExpression:
		return "(un " + tk(n.Token) + " " + hx(n.Operator) + " " + sxExpr(n.Right) + ")"
	case *ast.PostfixExpression:
		return "(post " + tk(n.Token) + " " + sxExpr(n.Left) + " " + hx(n.Operator) + ")"
	case *ast.GroupedExpression:
		return "(grp " + tk(n.Token) + " " + sxExpr(n.Expression) + " " + tk(n.RParen) + ")"
	case *ast.CallExpression:
		return "(call " + tk(n.Token) + " " + sxExpr(n.Function) + " " + sxExprs(n.Arguments) + ")"
	case *ast.MemberExpression:
		return "(mem " + tk(n.Token) + " " + sxExpr(n.Object) + " " + sxExpr(n.Property) + " " + b01(n.Computed) + ")"
	case *ast.AssignmentExpression:
		return "(asg " + tk(n.Token) + " " + sxExpr(n.Left) + " " + sxExpr(n.Value) + ")"
	case *ast.CompoundAssignmentExpression:
		return "(casg " + tk(n.Token) + " " + sxExpr(n.Left) + " " + hx(n.Operator) + " " + sxExpr(n.Value) + ")"
	case *ast.FunctionExpression:
		name := "none"
		if n.Name != nil {
			name = sxIdent(n.Name)
		}
		return "(fn " + tk(n.Token) + " " + name + " " + sxIdents(n.Parameters) + " " + sxBlock(n.Body) + ")"
	case *ast.ArrayLiteral:
		return "(arr " + tk(n.Token) + " " + sxExprs(n.Elements) + " " + tk(n.RBracket) + ")"
	case *ast.ObjectLiteral:
		parts := make([]string, len(n.Properties))
		for i, p := range n.Properties {
			parts[i] = "(" + sxExpr(p.Key) + " " + sxExpr(p.Value) + ")"
		}
		return "(obj " + tk(n.Token) + " [" + strings.Join(parts, " ") + "] " + tk(n.RBrace) + ")"
	}
	return fmt.Sprintf("(unknown %T)", e)
}

func sxBlock(b *ast.BlockStatement) string {
	if b == nil {
		return "snil"
	}
	return sxStmt(b)
}

func sxStmts(l []ast.Statement) string {
	parts := make([]string, len(l))
	for i, x := range l {
		parts[i] = sxStmt(x)
	}
	return "[" + strings.Join(parts, " ") + "]"
}

func sxStmt(s ast.Statement) string {
	if isNilNode(s) {
		return "snil"
	}
	switch n := s.(type) {
	case *ast.LetStatement:
		return "(let " + tk(n.Token) + " " + sxIdent(n.Name) + " " + sxExpr(n.Value) + ")"
	case *ast.ReturnStatement:
		return "(ret " + tk(n.Token) + " " + sxExpr(n.ReturnValue) + ")"
	case *ast.ExpressionStatement:
		return "(es " + sxExpr(n.Expression) + ")"
	case *ast.FunctionDeclaration:
		return "(fd " + tk(n.Token) + " " + sxIdent(n.Name) + " " + sxIdents(n.Parameters) + " " + sxBlock(n.Body) + ")"
	case *ast.BlockStatement:
		return "(blk " + tk(n.Token) + " " + sxStmts(n.Statements) + " " + tk(n.RBrace) + ")"
	case *ast.IfStatement:
		return "(if " + tk(n.Token) + " " + sxExpr(n.Condition) + " " + sxStmt(n.ThenBranch) + " " + sxStmt(n.ElseBranch) + ")"
	case *ast.WhileStatement:
		return "(while " + tk(n.Token) + " " + sxExpr(n.Condition) + " " + sxStmt(n.Body) + ")"
	case *ast.ForStatement:
		return "(for " + tk(n.Token) + " " + sxExpr(n.Init) + " " + sxExpr(n.Condition) + " " + sxExpr(n.Update) + " " + sxStmt(n.Body) + ")"
	}
	return fmt.Sprintf("(unknown %T)", s)
}

var typeByString = func() map[string]int {
	m := map[string]int{}
	for i := 0; i <= 45; i++ {
		m[token.Type(i).String()] = i
	}
	return m
}()

func errKind(e parser.ParserError) string {
	msg := e.Message
	kind, arg := 0, 0
	switch {
	case msg == "semicolon or newline expected":
		kind = 2
	case strings.HasSuffix(msg, " expected"):
		kind = 1
		name := strings.TrimSuffix(msg, " expected")
		if v, ok := typeByString[name]; ok {
			arg = v
		} else if strings.HasPrefix(name, "unknown(") {
			arg, _ = strconv.Atoi(strings.TrimSuffix(strings.TrimPrefix(name, "unknown("), ")"))
		} else {
			arg = -1
		}
	case strings.HasPrefix(msg, "unexpected "):
		kind = 3
	case strings.HasPrefix(msg, "unclosed block statement"):
		kind = 4
	case strings.HasPrefix(msg, "could not parse") && strings.HasSuffix(msg, "as integer"):
		kind = 5
	case strings.HasPrefix(msg, "could not parse") && strings.HasSuffix(msg, "as float"):
		kind = 6
	}
	return fmt.Sprintf("E%d:%d:%d:%d:%d:%d", kind, arg, e.Range.Start.Line, e.Range.Start.Column, e.Range.End.Line, e.Range.End.Column)
}

func fmtEvents(evs []event) string {
	parts := make([]string, len(evs))
	for i, e := range evs {
		if e.kind == 2 {
			parts[i] = fmt.Sprintf("t%d@%d:%d", e.id, e.line, e.col)
		} else {
			parts[i] = fmt.Sprintf("%d/%d/%s/%d/%s", e.id, e.kind, tk(e.tok), e.ctx, b01(e.inFn))
		}
	}
	return "[" + strings.Join(parts, " ") + "]"
}

// parseObservable runs the real parser and renders everything the model also computes.
func parseObservable(c pcase, viaInstall bool) (string, *ast.Program, error, built) {
	b := buildParser(c, viaInstall)
	// Build is a function of the builder's configuration: in two thirds of the cases the
	// observed parser is the 2nd or 3rd one built from the same builder, after the
	// earlier ones have parsed the same source
	for k := len(c.src) % 3; k > 0; k-- {
		b.p.ParseProgram()
		*b.events = (*b.events)[:0]
		b.p = b.pb.Build(c.src)
	}
	prog, err := b.p.ParseProgram()
	errs := b.p.Errors()
	es := make([]string, len(errs))
	for i, e := range errs {
		es[i] = errKind(e)
	}
	var pevs []event
	for _, e := range *b.events {
		if e.kind != 2 {
			pevs = append(pevs, e)
		}
	}
	out := fmt.Sprintf("tree=%s eof=%s errs=[%s] err=%s ctx=%d/%s log=%s",
		sxStmts(prog.Statements), tk(prog.EOF), strings.Join(es, " "), b01(err != nil),
		int(b.p.CurrentContext()), b01(b.p.IsInFunction()), fmtEvents(pevs))
	return out, prog, err, b
}
