package main

import (
	"fmt"
	"strings"

	"github.com/xjslang/xjs/compiler"
	"github.com/xjslang/xjs/token"
)

// C15: the pretty printer keeps statement-level comments; compact output has none.
// Input line: "<seed>". The program is built statement by statement (every statement
// carries a unique marker identifier zqN), and every statement boundary - before each
// statement and before the closing brace / the end of input of every statement list -
// is decorated with 0..3 comments (unique ids @N@) and blank-line runs.

func init() {
	oracles["C15"] = &oracle{
		rule:  "generated programs (let/return/expression/function/if-else/while/for/block statements, function expressions, brace-less if/else, statements beginning with ( [ - ++ or a backtick; nesting depth <= 3) decorated at every statement boundary (top level, blocks, function bodies, before closing braces, before end of input) with 0..3 comments - own line or trailing, printable ASCII/UTF-8 text with quotes, //, code-like text, trailing spaces, occasionally empty - and 0..2 blank lines; x 3 pretty configurations + compact; non-trivial = at least one comment; distinct by seed",
		gen:   genSeeds,
		check: checkC15,
	}
}

type c15comment struct {
	id       int // 0 = comment without id (empty / blank text)
	textA    string
	textB    string
	trailing bool
	pre      string // blanks between the previous token and a trailing comment, or the indentation of an own-line comment
	where    string
}

type c15item struct {
	c  *c15comment // nil = blank line
	ws string      // blanks on a blank line
}

type c15deco struct {
	first, last bool // start / end of input
	trail       *c15comment
	items       []c15item
	indent      string
	sameLine    bool
	endNL       bool
}

func (d *c15deco) hasBlank() bool {
	for _, it := range d.items {
		if it.c == nil {
			return true
		}
	}
	return false
}

type c15piece struct {
	code string
	deco *c15deco
}

type c15stmt struct {
	marker     string
	start, end int // piece indices [start, end)
	list, idx  int
	before     *c15deco
}

type c15gen struct {
	r        *rng
	pg       *progGen
	pieces   []c15piece
	stmts    []*c15stmt
	comments []*c15comment
	nMarker  int
	nID      int
	nList    int
	maxDepth int
	empties  bool // this case also uses comments without text ("//", "//   ")
}

var c15Texts = []string{
	"", " ", " note", " TODO: fix", " x = 1;", " let a = b", " if (a) { b }", " }", " {", " )", " ;", " \"quoted\"", " 'single", " `tick", " \"unclosed",
	" // nested", "//", "/", "/ slash", " a // b // c", " return", " function f() {", " é✓ unicode", " déjà", " Å", "谢谢你", " смех", " \\n \\\\", " */ /*", " <!-- -->", " a\\", " 100%", " #!~^?|&", " else",
}

func (g *c15gen) text() string {
	r := g.r
	var b strings.Builder
	for i := r.intn(3); i > 0; i-- {
		b.WriteString(pick(r, c15Texts))
	}
	if r.chance(1, 5) {
		for i := r.intn(12); i > 0; i-- {
			c := byte(0x20 + r.intn(0x5f))
			if c == '@' {
				c = '#'
			}
			b.WriteByte(c)
		}
	}
	return b.String()
}

func (g *c15gen) comment(trailing bool, where string) *c15comment {
	r := g.r
	c := &c15comment{trailing: trailing, where: where}
	if g.empties && r.chance(1, 5) {
		c.textA = pick(r, []string{"", " ", "   "})
		c.textB = c.textA
	} else {
		g.nID++
		c.id = g.nID
		tag := fmt.Sprintf("@%d@", c.id)
		mk := func() string {
			s := tag + g.text()
			if r.chance(1, 2) {
				s = g.text() + s
			}
			if r.chance(1, 4) {
				s += strings.Repeat(" ", 1+r.intn(3))
			}
			return s
		}
		c.textA, c.textB = mk(), mk()
	}
	if trailing {
		c.pre = pick(r, []string{" ", " ", "", "  ", "\t"})
	}
	g.comments = append(g.comments, c)
	return c
}

func (g *c15gen) srcIndent(depth int) string {
	if g.r.chance(1, 6) {
		return pick(g.r, []string{"", " ", "\t", "      ", " \t "})
	}
	return strings.Repeat("  ", depth)
}

// deco generates the decoration of one boundary. prevClosed: the text in front ends in
// ';', '{' or '}' of a self-terminated statement (so a same-line continuation is safe).
func (g *c15gen) deco(depth int, where string, first, last, prevClosed bool) *c15deco {
	r := g.r
	d := &c15deco{first: first, last: last, indent: g.srcIndent(depth), endNL: r.chance(2, 3)}
	n := 0
	switch r.intn(6) {
	case 0, 1:
		n = 0
	case 2, 3:
		n = 1
	case 4:
		n = 2
	case 5:
		n = 3
	}
	if n == 0 && !first && !last && prevClosed && r.chance(1, 8) {
		d.sameLine = true
		return d
	}
	if n > 0 && !first && r.chance(1, 3) {
		d.trail = g.comment(true, where)
		n--
	}
	blanks := func() {
		k := 0
		switch r.intn(5) {
		case 0:
			k = 1
		case 1:
			k = 2
		}
		for ; k > 0; k-- {
			d.items = append(d.items, c15item{ws: pick(r, []string{"", "", "  ", "\t"})})
		}
	}
	blanks()
	for ; n > 0; n-- {
		c := g.comment(false, where)
		c.pre = g.srcIndent(depth)
		d.items = append(d.items, c15item{c: c})
		blanks()
	}
	return d
}

// render: mode 0 = texts A, 1 = texts B, 2 = undecorated
func (d *c15deco) render(mode int) string {
	if mode == 2 {
		if d.first || d.last {
			return ""
		}
		return "\n"
	}
	if d.sameLine {
		return " "
	}
	txt := func(c *c15comment) string {
		if mode == 0 {
			return c.textA
		}
		return c.textB
	}
	var b strings.Builder
	if d.trail != nil {
		b.WriteString(d.trail.pre + "//" + txt(d.trail))
	}
	var lines []string
	for _, it := range d.items {
		if it.c == nil {
			lines = append(lines, it.ws)
		} else {
			lines = append(lines, it.c.pre+"//"+txt(it.c))
		}
	}
	if d.last {
		// end of input: the previous line ends only when something follows it
		if len(lines) > 0 {
			if !d.first {
				b.WriteString("\n")
			}
			b.WriteString(strings.Join(lines, "\n"))
		}
		if d.endNL {
			b.WriteString("\n")
		}
		return b.String()
	}
	if !d.first {
		b.WriteString("\n")
	}
	for _, l := range lines {
		b.WriteString(l + "\n")
	}
	b.WriteString(d.indent)
	return b.String()
}

func (g *c15gen) code(s string) { g.pieces = append(g.pieces, c15piece{code: s}) }

func (g *c15gen) marker() string {
	g.nMarker++
	return fmt.Sprintf("zq%d", g.nMarker)
}

func (g *c15gen) expr() string {
	g.pg.depth = 1 + g.r.intn(3)
	return g.pg.expr()
}

const (
	c15Expr = iota
	c15Let
	c15Ret
	c15Fd
	c15If
	c15While
	c15For
	c15Block
	c15FnExpr
	c15Braceless
	c15Hazard
)

func (g *c15gen) kind(depth int) int {
	r := g.r
	for {
		k := pick(r, []int{c15Expr, c15Expr, c15Expr, c15Let, c15Let, c15Ret, c15Fd, c15If, c15If, c15While, c15For, c15Block, c15FnExpr, c15Braceless, c15Hazard})
		nested := k == c15Fd || k == c15If || k == c15While || k == c15For || k == c15Block || k == c15FnExpr
		if nested && depth >= g.maxDepth {
			continue
		}
		return k
	}
}

func c15SelfClosed(k int) bool {
	return k == c15Fd || k == c15If || k == c15While || k == c15For || k == c15Block
}

// list emits the statements of one statement list with all its boundaries; closer is
// "}" or "" (end of input).
func (g *c15gen) list(depth int, where string, top bool) {
	r := g.r
	g.nList++
	listID := g.nList
	n := r.intn(4)
	if top {
		n = 1 + r.intn(4)
	}
	kinds := make([]int, n)
	for i := range kinds {
		kinds[i] = g.kind(depth)
	}
	prevClosed := !top // just after '{'
	for i, k := range kinds {
		d := g.deco(depth, where+":stmt", top && i == 0, false, prevClosed)
		g.pieces = append(g.pieces, c15piece{deco: d})
		st := &c15stmt{start: len(g.pieces), list: listID, idx: i, before: d}
		forceSemi := i+1 < n && kinds[i+1] == c15Hazard
		closed := g.stmt(k, depth, st, forceSemi)
		st.end = len(g.pieces)
		g.stmts = append(g.stmts, st)
		prevClosed = closed
	}
	w := where + ":brace"
	if top {
		w = where + ":eof"
	}
	cd := depth - 1
	if cd < 0 {
		cd = 0
	}
	d := g.deco(cd, w, false, top, prevClosed)
	if top && n == 0 {
		d.first = true
	}
	g.pieces = append(g.pieces, c15piece{deco: d})
}

func (g *c15gen) body(depth int, where string) {
	g.code("{")
	g.list(depth+1, where, false)
	g.code("}")
}

// stmt emits one statement; reports whether its text ends in ';' or a self-closing '}'
func (g *c15gen) stmt(k, depth int, st *c15stmt, forceSemi bool) bool {
	r := g.r
	m := g.marker()
	st.marker = m
	term := ""
	if forceSemi || r.chance(2, 3) {
		term = ";"
	}
	switch k {
	case c15Expr:
		switch r.intn(6) {
		case 0:
			g.code(m + term)
		case 1:
			g.code(m + " = " + g.expr() + term)
		case 2:
			g.code(m + "(" + g.expr() + ", " + g.expr() + ")" + term)
		case 3:
			g.code(m + pick(r, []string{"++", "--"}) + term)
		case 4:
			g.code(m + ".x += " + g.expr() + term)
		case 5:
			g.code(m + "[" + g.expr() + "] = " + g.expr() + term)
		}
	case c15Let:
		if r.chance(1, 4) {
			g.code("let " + m + term)
		} else {
			g.code("let " + m + " = " + g.expr() + term)
		}
	case c15Ret:
		if r.chance(1, 2) {
			g.code("return " + m + term)
		} else {
			g.code("return " + m + " + " + g.expr() + term)
		}
	case c15Fd:
		g.code("function " + m + "(" + pick(r, []string{"", "a", "a, b"}) + ") ")
		g.body(depth, "fn")
		return true
	case c15If:
		g.code("if (" + m + ") ")
		g.body(depth, "block")
		switch r.intn(4) {
		case 0:
			g.code(" else ")
			g.body(depth, "block")
		case 1:
			g.code(" else if (" + g.expr() + ") ")
			g.body(depth, "block")
			if r.chance(1, 2) {
				g.code(" else ")
				g.body(depth, "block")
			}
		}
		return true
	case c15While:
		g.code("while (" + m + " < " + g.expr() + ") ")
		g.body(depth, "block")
		return true
	case c15For:
		g.code("for (" + pick(r, []string{"let " + m + " = 0", m + " = 0", "let " + m}) + "; " + pick(r, []string{m + " < 3", ""}) + "; " + pick(r, []string{m + "++", ""}) + ") ")
		g.body(depth, "block")
		return true
	case c15Block:
		st.marker = ""
		g.body(depth, "block")
		return true
	case c15FnExpr:
		if r.chance(1, 2) {
			g.code(m + " = function(" + pick(r, []string{"", "p"}) + ") ")
			g.body(depth, "fn")
			g.code(term)
		} else {
			g.code(m + "(function " + pick(r, []string{"", "named"}) + "() ")
			g.body(depth, "fn")
			g.code(", " + g.expr() + ")" + term)
		}
	case c15Braceless:
		s := "if (" + m + ") " + g.marker() + " = " + g.expr() + ";"
		if r.chance(1, 2) {
			s += " else " + pick(r, []string{g.marker() + "()", "return " + g.marker()}) + ";"
		}
		g.code(s)
		return true
	case c15Hazard:
		switch r.intn(5) {
		case 0:
			g.code("(" + m + ")" + pick(r, []string{"", "()", ".x"}) + term)
		case 1:
			g.code("[" + m + ", 1]" + pick(r, []string{"", ".length"}) + term)
		case 2:
			g.code("-" + m + term)
		case 3:
			g.code(pick(r, []string{"++", "--"}) + m + term)
		case 4:
			g.code("`" + m + pick(r, []string{"", " x", "\nline2"}) + "`" + term)
		}
	}
	return term == ";"
}

func c15Case(seed uint64) *c15gen {
	r := newRng(seed, "c15case")
	g := &c15gen{r: r, pg: &progGen{r: r, layout: 1, semis: 0}, maxDepth: 1 + r.intn(3), empties: r.chance(1, 12)}
	g.list(0, "top", true)
	return g
}

type c15render struct {
	text     string
	pieceOff []int // byte offset of every piece (and of the end)
}

func (g *c15gen) render(mode int) c15render {
	var b strings.Builder
	out := c15render{}
	for _, p := range g.pieces {
		out.pieceOff = append(out.pieceOff, b.Len())
		if p.deco != nil {
			b.WriteString(p.deco.render(mode))
		} else {
			b.WriteString(p.code)
		}
	}
	out.pieceOff = append(out.pieceOff, b.Len())
	out.text = b.String()
	return out
}

// code tokens of a text: all tokens before EOF, with their byte offsets
type c15tok struct {
	ty  token.Type
	lit string
	off int
}

func c15Tokens(src string) ([]c15tok, bool) {
	toks := lexAll(src, len(src)+2)
	starts := lineStarts(src)
	var out []c15tok
	for _, t := range toks {
		if t.Type == token.EOF {
			return out, true
		}
		o, ok := offsetOf(src, starts, t.Start)
		if !ok {
			return nil, false
		}
		out = append(out, c15tok{t.Type, t.Literal, o})
	}
	return nil, false
}

func c15NoSemi(l []c15tok) []c15tok {
	var out []c15tok
	for _, t := range l {
		if t.ty != token.SEMICOLON {
			out = append(out, t)
		}
	}
	return out
}

// rank: number of tokens of l starting before byte offset off
func c15Rank(l []c15tok, off int) int {
	n := 0
	for n < len(l) && l[n].off < off {
		n++
	}
	return n
}

var c15Blank = func(s string) bool {
	// does s contain a line made of blanks only (between two line feeds)?
	lines := strings.Split(s, "\n")
	for i := 1; i+1 < len(lines); i++ {
		if strings.Trim(lines[i], " \t\r") == "" {
			return true
		}
	}
	return false
}

type c15cfg struct {
	name string
	mk   func() *compiler.Compiler
}

var c15Cfgs = []c15cfg{
	{"pretty(default)", func() *compiler.Compiler { return compiler.New().WithPrettyPrint() }},
	{"pretty(tabs,semi=false)", func() *compiler.Compiler {
		return compiler.New().WithPrettyPrint(compiler.WithTabs(), compiler.WithSemi(false))
	}},
	{"pretty(4 spaces)", func() *compiler.Compiler { return compiler.New().WithPrettyPrint(compiler.WithSpaces(4)) }},
}

func c15NextMarker(s string, from int) string {
	for i := from; i+2 < len(s); i++ {
		if s[i] == 'z' && s[i+1] == 'q' && s[i+2] >= '0' && s[i+2] <= '9' && (i == 0 || !isLetterByte(s[i-1])) {
			j := i + 2
			for j < len(s) && s[j] >= '0' && s[j] <= '9' {
				j++
			}
			return s[i:j]
		}
	}
	return "<none>"
}

func c15Trim(s string) string { return strings.TrimRight(s, " ") }

func checkC15(line string, dist map[string]int) (detail, sig, class string) {
	var seed uint64
	fmt.Sscan(line, &seed)
	g := c15Case(seed)
	A, B, P := g.render(0), g.render(1), g.render(2)
	src := A.text
	show := fmt.Sprintf("source %q; ", src)
	progA, errs := parseDefault(src)
	if len(errs) > 0 {
		dist["rejected"]++
		return show + "decorated source rejected: " + errs[0].Message, "rejected", ""
	}
	progB, errsB := parseDefault(B.text)
	progP, errsP := parseDefault(P.text)
	if len(errsB) > 0 || len(errsP) > 0 {
		dist["rejected"]++
		return fmt.Sprintf("%ssame program with other comment texts %q / without comments %q rejected", show, B.text, P.text), "rejected", ""
	}
	nTrail, nOwn, nEmpty := 0, 0, 0
	for _, c := range g.comments {
		dist["comment "+c.where+fmt.Sprintf(" trailing=%v", c.trailing)]++
		if c.id == 0 {
			nEmpty++
			dist["comment without text"]++
		}
		if c.trailing {
			nTrail++
		} else {
			nOwn++
		}
	}
	dist[fmt.Sprintf("comments<=%d", bucket(len(g.comments)))]++
	dist[fmt.Sprintf("statements<=%d", bucket(len(g.stmts)))]++
	dist[fmt.Sprintf("depth=%d", g.maxDepth)]++
	var fs []string
	fail := func(format string, a ...any) { fs = append(fs, show+fmt.Sprintf(format, a...)) }

	// compact output: no comment text, identical to the compact output of the undecorated program
	compactA := compiler.New().Compile(progA).Code
	compactP := compiler.New().Compile(progP).Code
	if compactA != compactP {
		fail("compact output %q differs from the compact output %q of the program without comments", compactA, compactP)
	}
	if strings.Contains(compactA, "@") || strings.Contains(compactA, "//") {
		fail("compact output %q contains comment text", compactA)
	}

	srcToks, ok := c15Tokens(src)
	if !ok {
		return show + "source does not lex to an end", "lex", ""
	}
	srcCode := c15NoSemi(srcToks)
	byList := map[[2]int]*c15stmt{}
	for _, st := range g.stmts {
		byList[[2]int{st.list, st.idx}] = st
	}
	blankPairs := 0
	emptyFail := ""
	for _, cfg := range c15Cfgs {
		outA := cfg.mk().Compile(progA).Code
		outB := cfg.mk().Compile(progB).Code
		outP := cfg.mk().Compile(progP).Code
		pf := func(format string, a ...any) {
			fail("%s output %q: %s", cfg.name, outA, fmt.Sprintf(format, a...))
			dist["fail "+cfg.name]++
		}
		outToks, ok := c15Tokens(outA)
		if !ok {
			pf("does not lex to an end")
			continue
		}
		// the statement of C15_comments_stay_in_place on the implementation's own trees:
		// re-parse the output; the trivia lists at all statement boundaries must be the
		// source's, up to norm_boundaries (configurations that write semicolons)
		if !strings.Contains(cfg.name, "semi=false") {
			if progR, errsR := parseDefault(outA); len(errsR) == 0 {
				a, b := normBoundaries(boundaryTrivia(progA)), normBoundaries(boundaryTrivia(progR))
				if len(a) != len(b) {
					pf("the re-parsed output has %d statement boundaries, the source %d", len(b), len(a))
				} else {
					for i := range a {
						if a[i] != b[i] {
							pf("trivia at statement boundary %d of %d: source %q, re-parsed output %q", i+1, len(a), strings.Split(a[i], "\x1f"), strings.Split(b[i], "\x1f"))
							break
						}
					}
				}
			}
		}
		outCode := c15NoSemi(outToks)
		same := len(outCode) == len(srcCode)
		for i := 0; same && i < len(outCode); i++ {
			same = outCode[i].ty == srcCode[i].ty
		}
		if !same {
			pf("code tokens (semicolons aside) differ from the source's")
			continue
		}
		// every comment exactly once, in order, verbatim, in front of the same token
		prevAt := -1
		expected := outA
		for _, c := range g.comments {
			if c.id == 0 {
				continue
			}
			tag := fmt.Sprintf("@%d@", c.id)
			want := "//" + c15Trim(c.textA)
			if n := strings.Count(outA, tag); n != 1 {
				pf("comment %q appears %d times", want, n)
				continue
			}
			at := strings.Index(outA, tag)
			if at < prevAt {
				pf("comment %q is out of source order", want)
			}
			prevAt = at
			ls := strings.LastIndexByte(outA[:at], '\n') + 1
			le := strings.IndexByte(outA[at:], '\n')
			if le < 0 {
				le = len(outA)
			} else {
				le += at
			}
			if !strings.HasSuffix(outA[ls:le], want) || strings.HasSuffix(strings.TrimSuffix(outA[ls:le], want), "/") {
				pf("comment %q is not verbatim at the end of its line %q", want, outA[ls:le])
				continue
			}
			srcAt := strings.Index(src, tag)
			if a, b := c15Rank(srcCode, srcAt), c15Rank(outCode, at); a != b {
				pf("comment %q precedes code token #%d in the source but #%d in the output", want, a, b)
			}
			if a, b := c15NextMarker(src, srcAt), c15NextMarker(outA, at); a != b {
				pf("comment %q is followed by statement %s in the source but %s in the output", want, a, b)
			}
			expected = strings.Replace(expected, want, "//"+c15Trim(c.textB), 1)
		}
		// comments without text: as many as in the source
		if nEmpty > 0 {
			got := 0
			for _, l := range strings.Split(outA, "\n") {
				if i := strings.Index(l, "@"); i >= 0 {
					// cut the comment carrying an id
					for _, c := range g.comments {
						if c.id != 0 && strings.HasSuffix(l, "//"+c15Trim(c.textA)) {
							l = strings.TrimSuffix(l, "//"+c15Trim(c.textA))
							break
						}
					}
				}
				if strings.Contains(l, "//") {
					got++
				}
			}
			if got > nEmpty {
				// more text-less comment lines than the source has: not the recorded finding
				pf("%d lines hold a comment without an id, the source has %d comments without text", got, nEmpty)
			} else if got != nEmpty {
				// generic detail (the source only when it is short), so that the instances
				// collapse into few report entries and cannot crowd out other failures
				ex := ""
				if len(src) <= 40 {
					ex = fmt.Sprintf("%s%s output %q: ", show, cfg.name, outA)
				}
				emptyFail = fmt.Sprintf("%scomments without text (\"//\" followed by blanks only) are replaced by blank lines: %d in the source, %d in the output", ex, nEmpty, got)
				dist["fail comment without text "+cfg.name]++
			}
		}
		// blank-line separation between siblings
		for _, st := range g.stmts {
			if st.idx == 0 || !st.before.hasBlank() || st.before.sameLine {
				continue
			}
			prev := byList[[2]int{st.list, st.idx - 1}]
			first := c15Rank(srcCode, A.pieceOff[st.start])
			last := c15Rank(srcCode, A.pieceOff[prev.end]) - 1
			if last < 0 || first >= len(outCode) || last >= first {
				pf("internal: cannot locate statements %s / %s", prev.marker, st.marker)
				continue
			}
			blankPairs++
			if !c15Blank(outA[outCode[last].off:outCode[first].off]) {
				pf("blank line between statements %s and %s is lost", prev.marker, st.marker)
			}
		}
		// comment content never alters the code around it
		if expected != outB {
			pf("with other comment texts the output is %q, expected only the comment texts to change", outB)
		}
		plainToks, ok := c15Tokens(outP)
		same = ok && len(plainToks) == len(outToks)
		for i := 0; same && i < len(outToks); i++ {
			same = outToks[i].ty == plainToks[i].ty && outToks[i].lit == plainToks[i].lit
		}
		if !same {
			pf("code tokens differ from those of the same program without comments %q", outP)
		}
	}
	dist[fmt.Sprintf("blank-separated sibling pairs<=%d", bucket(blankPairs/len(c15Cfgs)))]++
	if len(fs) > 0 {
		detail = fs[0]
	} else if emptyFail != "" {
		// known finding: only when the sole failure is about comments without text and
		// the source really contains one
		detail = emptyFail
		if nEmpty > 0 {
			class = "empty-comment-dropped"
		}
	}
	if len(g.comments) > 0 {
		sig = fmt.Sprintf("own=%d trail=%d empty=%d", nOwn, nTrail, nEmpty)
	}
	return detail, sig, class
}
