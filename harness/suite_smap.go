package main

import (
	"fmt"
	"strconv"
	"strings"

	"github.com/xjslang/xjs/sourcemap"
)

// smap: histories over the public SourceMapper API.
// case line: ops separated by blanks:
//   M:<sl>:<sc>  N:<sl>:<sc>:<hexname>  C:<n>  S:<hexstr>  L

func init() {
	suites["smap"] = &suite{gen: genSmap, run: runSmap}
	oracles["C09"] = &oracle{
		rule:  "random histories over {AddMapping, AddNamedMapping, AdvanceColumn, AdvanceString, AdvanceLine} with negative, decreasing and large arguments, CR/LF mixes; plus single-segment VLQ sweeps; non-trivial = history with >=1 mapping; distinct by (history, number of lines/names)",
		gen:   genSmap,
		check: checkC09,
	}
}

func smapNumber(r *rng) int {
	switch r.intn(10) {
	case 0:
		return -r.intn(50)
	case 1:
		return r.intn(1 << 20)
	case 2:
		return int(r.next() % (1 << 31))
	case 3:
		return -int(r.next() % (1 << 31))
	case 4:
		return int(r.next() % (1 << 58))
	default:
		return r.intn(120)
	}
}

var smapNames = []string{"a", "b", "foo", "bar", "x1", "$", "_t", "", "a b", "é", "name,with;sep"}

func smapString(r *rng) string {
	var b strings.Builder
	n := r.intn(12)
	for i := 0; i < n; i++ {
		switch r.intn(8) {
		case 0:
			b.WriteByte('\n')
		case 1:
			b.WriteByte('\r')
		case 2:
			b.WriteString("\r\n")
		case 3:
			b.WriteByte(byte(r.intn(256)))
		default:
			b.WriteByte(byte('a' + r.intn(26)))
		}
	}
	return b.String()
}

func genSmap(r *rng, n int, tier string) []string {
	var out []string
	// VLQ sweep through a single segment: every integer in a window, both signs
	w := 1 << 10
	if tier == "thorough" {
		w = 1 << 20
	}
	for i := -w; i <= w; i++ {
		out = append(out, fmt.Sprintf("M:%d:0", i))
	}
	for k := 0; k < 62; k++ { // powers of two and neighbours up to 2^61
		for _, d := range []int{-1, 0, 1} {
			v := (1 << uint(k)) + d
			if v < 1<<61 {
				out = append(out, fmt.Sprintf("M:0:%d", v), fmt.Sprintf("M:0:%d", -v))
			}
		}
	}
	for i := 0; i < n; i++ {
		var ops []string
		m := r.intn(30)
		for j := 0; j < m; j++ {
			switch r.intn(11) {
			case 9: // the same operation again, with nothing in between
				if len(ops) > 0 {
					ops = append(ops, ops[len(ops)-1])
				}
			case 10: // an earlier operation again; advances that do not move
				if len(ops) > 0 && r.chance(1, 2) {
					ops = append(ops, ops[r.intn(len(ops))])
				} else {
					ops = append(ops, pick(r, []string{"C:0", "S:"}))
				}
			case 0, 1, 2:
				ops = append(ops, fmt.Sprintf("M:%d:%d", smapNumber(r), smapNumber(r)))
			case 3, 4:
				name := pick(r, smapNames)
				if r.chance(1, 6) {
					name = smapString(r)
				}
				ops = append(ops, fmt.Sprintf("N:%d:%d:%s", smapNumber(r), smapNumber(r), hx(name)))
			case 5:
				c := r.intn(40)
				if r.chance(1, 5) {
					c = -r.intn(10)
				}
				ops = append(ops, fmt.Sprintf("C:%d", c))
			case 6, 7:
				ops = append(ops, "S:"+hx(smapString(r)))
			case 8:
				ops = append(ops, "L")
			}
		}
		out = append(out, strings.Join(ops, " "))
	}
	return out
}

func applySmapOps(line string, m *sourcemap.SourceMapper) {
	for _, op := range fields(line) {
		p := strings.Split(op, ":")
		switch p[0] {
		case "M":
			a, _ := strconv.Atoi(p[1])
			b, _ := strconv.Atoi(p[2])
			m.AddMapping(a, b)
		case "N":
			a, _ := strconv.Atoi(p[1])
			b, _ := strconv.Atoi(p[2])
			m.AddNamedMapping(a, b, unhx(p[3]))
		case "C":
			a, _ := strconv.Atoi(p[1])
			m.AdvanceColumn(a)
		case "S":
			m.AdvanceString(unhx(p[1]))
		case "L":
			m.AdvanceLine()
		default:
			die("bad smap op %q", op)
		}
	}
}

func runSmap(line string) string {
	m := sourcemap.New()
	applySmapOps(line, m)
	sm := m.SourceMap()
	names := make([]string, len(sm.Names))
	for i, n := range sm.Names {
		names[i] = hx(n)
	}
	return fmt.Sprintf("v=%d names=[%s] mappings=%s", sm.Version, strings.Join(names, ","), sm.Mappings)
}

// ---- independent Source Map v3 decoder (search oracle for C09 / C08) ----

type seg struct {
	gl, gc, src, sl, sc int
	hasName             bool
	ni                  int
}

const b64 = "ABCDEFGHIJKLMNOPQRSTUVWXYZabcdefghijklmnopqrstuvwxyz0123456789+/"

func decodeVLQ(s string, i int) (val, next int, ok bool) {
	shift := uint(0)
	acc := 0
	for {
		if i >= len(s) {
			return 0, i, false
		}
		d := strings.IndexByte(b64, s[i])
		if d < 0 {
			return 0, i, false
		}
		i++
		acc += (d & 31) << shift
		shift += 5
		if d&32 == 0 {
			break
		}
	}
	if acc&1 == 1 {
		return -(acc >> 1), i, true
	}
	return acc >> 1, i, true
}

func decodeMappings(s string) ([]seg, bool) {
	var out []seg
	psrc, psl, psc, pni := 0, 0, 0, 0
	if s == "" {
		return out, true
	}
	for gl, group := range strings.Split(s, ";") {
		pgc := 0
		if group == "" {
			continue
		}
		for _, sg := range strings.Split(group, ",") {
			var f []int
			i := 0
			for i < len(sg) {
				v, n, ok := decodeVLQ(sg, i)
				if !ok {
					return nil, false
				}
				f = append(f, v)
				i = n
			}
			if len(f) != 4 && len(f) != 5 {
				return nil, false
			}
			pgc += f[0]
			psrc += f[1]
			psl += f[2]
			psc += f[3]
			x := seg{gl: gl, gc: pgc, src: psrc, sl: psl, sc: psc}
			if len(f) == 5 {
				pni += f[4]
				x.hasName = true
				x.ni = pni
			}
			out = append(out, x)
		}
	}
	return out, true
}

// checkC09 replays a history on the real mapper while tracking, independently,
// the absolute mappings the property says must come out.
func checkC09(line string, dist map[string]int) (detail, sig, class string) {
	m := sourcemap.New()
	gl, gc := 0, 0
	var want []seg
	var names []string
	idx := map[string]int{}
	for _, op := range fields(line) {
		p := strings.Split(op, ":")
		dist["op-"+p[0]]++
		switch p[0] {
		case "M":
			a, _ := strconv.Atoi(p[1])
			b, _ := strconv.Atoi(p[2])
			m.AddMapping(a, b)
			want = append(want, seg{gl: gl, gc: gc, sl: a, sc: b})
		case "N":
			a, _ := strconv.Atoi(p[1])
			b, _ := strconv.Atoi(p[2])
			nm := unhx(p[3])
			m.AddNamedMapping(a, b, nm)
			i, ok := idx[nm]
			if !ok {
				i = len(names)
				names = append(names, nm)
				idx[nm] = i
			}
			want = append(want, seg{gl: gl, gc: gc, sl: a, sc: b, hasName: true, ni: i})
		case "C":
			a, _ := strconv.Atoi(p[1])
			m.AdvanceColumn(a)
			gc += a
		case "S":
			s := unhx(p[1])
			m.AdvanceString(s)
			for i := 0; i < len(s); i++ {
				switch {
				case s[i] == '\r' && i+1 < len(s) && s[i+1] == '\n':
					i++
					gl++
					gc = 0
				case s[i] == '\r' || s[i] == '\n':
					gl++
					gc = 0
				default:
					gc++
				}
			}
		case "L":
			m.AdvanceLine()
			gl++
			gc = 0
		}
	}
	sm := m.SourceMap()
	if sm.Version != 3 {
		return fmt.Sprintf("version %d", sm.Version), "v", ""
	}
	got, ok := decodeMappings(sm.Mappings)
	if !ok {
		return fmt.Sprintf("mappings %q do not decode", sm.Mappings), "dec", ""
	}
	if len(got) != len(want) {
		return fmt.Sprintf("decoded %d segments, recorded %d (%q)", len(got), len(want), sm.Mappings), "len", ""
	}
	for i := range got {
		if got[i] != want[i] {
			return fmt.Sprintf("segment %d decodes to %+v, recorded %+v", i, got[i], want[i]), "seg", ""
		}
	}
	if len(sm.Names) != len(names) {
		return fmt.Sprintf("names %q, expected %q", sm.Names, names), "names", ""
	}
	for i := range names {
		if sm.Names[i] != names[i] {
			return fmt.Sprintf("names %q, expected %q", sm.Names, names), "names", ""
		}
	}
	if len(want) > 0 {
		sig = fmt.Sprintf("m%d-l%d-n%d", len(want), gl, len(names))
	}
	return "", sig, ""
}
