"""Per-property configuration of ./check (which theorems, suites, oracle, budgets)."""

# model .vo files the extracted driver depends on (built before extraction)
MODEL_VO = ["Base.vo", "GoOps.vo", "Gen/Tables.vo", "Gen/Preds.vo", "Token.vo", "VLQ.vo", "SourceMap.vo", "Lexer.vo", "Tree.vo", "Writer.vo", "PrinterLib.vo", "Gen/Printer.vo", "Compile.vo", "Parser.vo", "Registry.vo"]

TRUSTED_BASE = [
    "Coq 8.16.1 kernel (coqc, full .vo build; coqchk re-check in the thorough tier); vm_compute used for finite sweeps; native_compute not used",
    "axioms: none (Print Assumptions under every property theorem must print 'Closed under the global context'; the check fails otherwise)",
    "translator /verif/translator (xjs2v, go/parser+go/ast): regenerates coq/Gen/*.v from /repo on every run; trusted to render the small Go fragment it accepts and to refuse everything else",
    "extraction: Require Import ExtrOcamlBasic only (Extract Inductive bool/option/unit/list/prod/sumbool/sumor as shipped in that file); no Extract Constant of ours; N, Z, positive, nat stay inductive; OCaml 4.13.1 + /verif/driver",
    "correspondence harness /verif/harness (Go, linked against /repo's working tree) and the line comparer in ./check",
    "modelled, not verified: Go's evaluation of the hand-modelled functions, tied by differential testing only",
]

PROPS = {
    "C09": dict(
        suites=[dict(suite="smap", n_quick=3000, n_thorough=100000,
                     what="SourceMapper histories: Version, Names, Mappings")],
        oracle_n_quick=2000, oracle_n_thorough=100000,
        explanation="C09 full: VLQ round trip for |n|<2^62 with arbitrary continuation (prefix-free), alphabet, "
                    "mappings string of every operation history decodes (independent decoder) to the recorded absolute mappings, "
                    "position advance counts CR LF / CR / LF once each, names deduplicated in first-seen order with stable indices.",
        assumptions=[
            "Go int arithmetic does not wrap: |delta| < 2^62 (vlq_guard); outside it encodeVLQ itself does not terminate",
            "Names are compared as byte strings; JSON serialisation of SourceMap is outside the property",
        ],
        trusted_extra=["specification side: VLQ.decode_vlq, SourceMap.decode_mappings, SourceMap.breaks/tail_len (written from the Source Map v3 text, share no code with the encoder)"],
    ),
    "C10": dict(
        suites=[dict(suite="lex", n_quick=4000, n_thorough=200000,
                     what="byte strings: every field of the first len+3 tokens")],
        oracle_n_quick=4000, oracle_n_thorough=200000,
        explanation="C10 full: tokenization of every byte string terminates with the first EOF token (fuel never exhausted); "
                    "gaps+lexemes tile the source, gaps are whitespace and // comments only, non-EOF tokens consume >= 1 byte; "
                    "start = position of first byte, end on or just after the last byte, inside the source; identifier/keyword/number "
                    "literals are their source slice and keyword classification is the keyword table; after-newline flag = gap contains LF; "
                    "EOF is a fixed point reported at the end of the source.",
        assumptions=[
            "positions are (count of LF, bytes since last LF); a bare CR is whitespace, not a line terminator",
            "the model reads a list of bytes; Go string indexing and strings.Builder are trusted to behave like list operations",
        ],
        trusted_extra=["specification side: LexSpec.v (consumed, spans, is_trivia, token_positions_ok), Base.pos_of_offset"],
    ),
}
