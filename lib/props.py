"""Per-property configuration of ./check (which theorems, suites, oracle, budgets)."""

# model .vo files the extracted driver depends on (built before extraction)
MODEL_VO = ["Base.vo", "GoOps.vo", "Gen/Tables.vo", "Gen/Preds.vo", "Token.vo", "VLQ.vo", "SourceMap.vo", "Lexer.vo", "Tree.vo", "Writer.vo", "PrinterLib.vo", "Gen/Printer.vo", "Compile.vo", "Parser.vo", "Registry.vo", "Grammar.vo", "GrammarLax.vo", "PrintSpec.vo", "CommentSpec.vo", "RelexSpec.vo", "TokenSpec.vo", "SegSpec.vo", "NestSpec.vo", "GrammarModes.vo"]

# projections: properties that do not speak about positions compare tokens and errors without them
POS_FREE = [(r"(\{\d+:[0-9a-f-]*):-?\d+:-?\d+:-?\d+:-?\d+:", r"\1:"),     # tokens inside trees / token streams
            (r"(^| )(\d+:[0-9a-f-]*):-?\d+:-?\d+:-?\d+:-?\d+:", r"\1\2:"),  # lex suite tokens
            (r"(E\d+:-?\d+):-?\d+:-?\d+:-?\d+:-?\d+", r"\1")]              # parser errors
CODE_ONLY = [(r" v=\d+ names=.*$", ""), (r" nomap$", "")]
WRITER_NOMAP = [(r" names=\[.*$", ""), (r" nomap$", "")]                 # writer suite: buffer and indent level only

TRUSTED_BASE = [
    "Coq 8.16.1 kernel (coqc, full .vo build; coqchk re-check in the thorough tier); vm_compute used for finite sweeps; native_compute not used",
    "axioms: none (Print Assumptions under every property theorem must print 'Closed under the global context'; the check fails otherwise)",
    "translator /verif/translator (xjs2v, go/parser+go/ast): regenerates coq/Gen/*.v from /repo on every run; trusted to render the small Go fragment it accepts and to refuse everything else",
    "extraction: Require Import ExtrOcamlBasic only (Extract Inductive bool/option/unit/list/prod/sumbool/sumor as shipped in that file); no Extract Constant of ours; N, Z, positive, nat stay inductive; OCaml 4.13.1 + /verif/driver",
    "correspondence harness /verif/harness (Go, linked against /repo's working tree) and the line comparer in ./check",
    "modelled, not verified: Go's evaluation of the hand-modelled functions, tied by differential testing only",
]

PROPS = {
    "C09": dict(
        design_ref="DESIGN.md 5.9",
        level_text="Coq theorems over an executable model of the VLQ encoder and SourceMapper (all integers with |n|<2^62, all operation histories), against an independent Source Map v3 decoder written as specification; model tied to the code by a regenerated alphabet table and a differential correspondence suite over the public API.",
        level_note="Trusted: Coq kernel, translator xjs2v (base64 alphabet), extraction (ExtrOcamlBasic only), Go harness + OCaml driver correspondence, the decoder specification. Modelled not verified: Go evaluation of the mapper (differentially tested).",
        technique="Coq proof (induction over histories, finite sweeps by vm_compute) + model/implementation correspondence",
        suites=[dict(suite="smap", n_quick=3000, n_thorough=100000,
                     what="SourceMapper histories: Version, Names, Mappings")],
        oracle_n_quick=2000, oracle_n_thorough=100000,
        explanation="C09 full: VLQ round trip for |n|<2^62 with arbitrary continuation (prefix-free), alphabet, "
                    "mappings string of every operation history decodes (independent decoder) to the recorded absolute mappings, "
                    "position advance counts CR LF / CR / LF once each, names deduplicated in first-seen order with stable indices.",
        assumptions=[
            "Go int arithmetic does not wrap: |delta| < 2^62 (vlq_guard); outside it encodeVLQ itself does not terminate",
            "Names are compared as byte strings; JSON serialisation of SourceMap is outside the property",
        ],
        trusted_extra=["specification side: VLQ.decode_vlq, SourceMap.decode_mappings, SourceMap.breaks/tail_len (written from the Source Map v3 text, share no code with the encoder)"],
    ),
    "C10": dict(
        design_ref="DESIGN.md 5.10",
        level_text="Coq theorems over an executable model of the lexer for all byte strings: termination, tiling by trivia gaps and lexemes, exact start/end positions, literal slices and keyword classification, after-newline flag, EOF fixed point. The model uses the byte predicates and keyword table regenerated from the source on every run and is tied to the scanning loops by a differential correspondence suite over every token field.",
        level_note="Trusted: Coq kernel, translator xjs2v (predicates, keyword table), extraction, harness/driver correspondence, LexSpec.v. Modelled not verified: the hand-written scanner model (differentially tested on fragments, programs, random and mutated bytes).",
        technique="Coq proof (induction over the input with a cursor/position invariant) + model/implementation correspondence",
        suites=[dict(suite="lex", n_quick=4000, n_thorough=200000,
                     what="byte strings: every field of the first len+3 tokens")],
        oracle_n_quick=4000, oracle_n_thorough=200000,
        explanation="C10 full: tokenization of every byte string terminates with the first EOF token (fuel never exhausted); "
                    "gaps+lexemes tile the source, gaps are whitespace and // comments only, non-EOF tokens consume >= 1 byte; "
                    "start = position of first byte, end on or just after the last byte, inside the source; identifier/keyword/number "
                    "literals are their source slice and keyword classification is the keyword table; after-newline flag = gap contains LF; "
                    "EOF is a fixed point reported at the end of the source.",
        assumptions=[
            "positions are (count of LF, bytes since last LF); a bare CR is whitespace, not a line terminator",
            "the model reads a list of bytes; Go string indexing and strings.Builder are trusted to behave like list operations",
        ],
        trusted_extra=["specification side: LexSpec.v (consumed, spans, is_trivia, token_positions_ok), Base.pos_of_offset"],
    ),
    "C13": dict(
        design_ref="DESIGN.md 5.13",
        level_text="Coq theorems over the executable parser model: for all inputs, a strict run without errors implies an identical tolerant run; tolerant mode never reports separator/unclosed errors; smart mode is identical to default mode unless a '(' or '[' follows a line break. MODE GRAMMARS (C13_modes_complete, GrammarModesProofs.v): COMPLETENESS of the parser in all four mode combinations w.r.t. GrammarModes.v, the grammar of C02 with exactly these differences - smart: a '(' or '[' that starts a line does not continue an expression (no call / index across the line break) and a statement may end in front of it exactly as if a semicolon preceded it; tolerant: a statement may end without separator in front of any token that cannot continue it (two statements on one line) and a block may be left open at the end of the input - every program of the mode grammar is parsed to exactly its tree, every complete statement kept, without error; with both modes off the mode grammar is the grammar of C02; the tolerant grammar contains the strict one.",
        level_note="Trusted: Coq kernel, translator xjs2v (token/precedence/handler tables, ASI list), extraction, harness/driver correspondence. Modelled not verified: the hand-written parser control flow (differentially tested on programs, token-level mutations and fragment soups x 4 modes). GrammarModes.v is the specification of what the two modes accept.",
        technique="Coq proof (simulation of two parser runs by induction on fuel) + model/implementation correspondence",
        suites=[dict(suite="parse", n_quick=3000, n_thorough=100000,
                     what="sources x {strict,tolerant} x {smart on,off}: tree, EOF token, errors, error flag, final context",
                     projection=POS_FREE)],
        oracle_n_quick=1500, oracle_n_thorough=50000,
        explanation="C13: C13_tolerant_conservative, C13_tolerant_no_separator_errors, C13_smart_neutral, C13_modes_complete, C13_modes_off, C13_tolerant_contains_strict.",
        open_statements=[],
        assumptions=["token lists come from the lexer model (C10); the parser never feeds back into the lexer"],
    ),
    "C11": dict(
        design_ref="DESIGN.md 5.11",
        level_text="Coq theorems over the executable parser model, for ALL token lists ending in EOF, all modes, interceptors and registered operators (none on EOF): the linear fuel is never exhausted (termination), error value iff error list non-empty, statement lists never hold nil, every error range is the range of a token of the input (or of the repeated EOF), and an error-free result compiles in every configuration without dereferencing nil (over the printer regenerated from ast.go). Tied to the code by regenerated tables/printer and the parse and print correspondence suites (Go panics recovered and compared).",
        level_note="Trusted: Coq kernel, translator xjs2v (tables, WriteTo bodies), extraction, harness/driver correspondence. Modelled not verified: parser control flow and CodeWriter (differentially tested incl. typed-nil and panic behaviour); strconv.ParseInt/ParseFloat acceptance (go_int_ok/go_float_ok, exercised by number-shape cases); the lexing half of totality is C10.",
        technique="Coq proof (termination measure + invariants by induction on fuel) + model/implementation correspondence",
        suites=[dict(suite="parse", n_quick=3000, n_thorough=100000, what="sources x 4 modes: tree, EOF token, errors, error flag, final context"),
                dict(suite="print", n_quick=1500, n_thorough=50000, what="trees x compiler configurations: code, map, panic",
                     projection=CODE_ONLY)],
        oracle_n_quick=1500, oracle_n_thorough=50000,
        explanation="C11: parse_total, parse_error_iff, parse_lists_ok, parse_error_ranges, parse_clean_compiles.",
        assumptions=["no plugin registers an operator on the end-of-input token (ops_sane): such a plugin makes the real parser loop forever",
                     "input tokens come from the lexer (C10_total: every byte string tokenizes to a list ending in EOF)"],
    ),
    "C14": dict(
        design_ref="DESIGN.md 5.14",
        level_text="Partial by nature: a pure Coq model has no schedules. Proved: a write-set analysis regenerated from the source on every run shows no function assigns, aliases or mutates a package-level variable, no WriteTo/Precedence method assigns through its receiver, and Compile/Build/ToString/constructors never assign through the compiler, builder, tree or options they receive (theorems = the generated lists are empty); requesting a source map never changes code or panic behaviour (all trees, all configurations); the debug string of a statement is its compact compilation. Concurrency (16 goroutines, race detector) and shared-object interleavings are explored by the iso oracle/suite, not proved.",
        level_note="Trusted: Coq kernel, translator xjs2v and in particular its syntactic effects analysis (sees assignments, ++/--, delete/clear/copy/maps.Copy destinations, the in-place functions of slices/sort/maps, writes through CodeWriter parameters and through local aliases, plain aliasing of package-level variables; not reflection/unsafe), extraction, harness/driver. The Go memory model argument 'no shared mutable state => no data race' is outside Coq.",
        technique="Coq proof over the writer model + generated write-set lemmas + correspondence; goroutine exploration as search",
        suites=[dict(suite="writer", n_quick=3000, n_thorough=100000, what="random histories of the exported CodeWriter methods: buffer, indent level, mappings"),
                dict(suite="print", n_quick=1500, n_thorough=50000, what="trees x compiler configurations: code, map, panic",
                     projection=CODE_ONLY)],
        oracle_n_quick=60, oracle_n_thorough=2000, oracle_n_search=150,
        explanation="C14: C14_no_global_writes, C14_printing_is_pure, C14_map_flag_neutral, C14_debug_string; schedules explored only.",
        open_statements=["data-race freedom under goroutine interleavings (explored with -race, cannot be exhibited by a Gallina model)"],
        assumptions=["effects analysis is syntactic (named in the trusted base)"],
    ),
    "C08": dict(
        design_ref="DESIGN.md 5.8",
        level_text="Coq theorems over the writer/mapper model and the printer regenerated from ast.go: for every CR-free writer history the mapper stands at the line/column of the end of the buffer; a mapping is recorded where the next text starts (after pending whitespace); segments are sorted by generated position; and SEGMENT LEVEL, for every program of the grammar lexed from a CR-free source: every recorded segment (C09: exactly what the mappings string decodes to) points from a generated position where the code spells the text of a token to the source position where that very token starts, a named segment carries the identifier's spelling (C08_segments_link_lexemes: every configuration whose post-processing leaves the buffer as written - always so for compact output, C08_segments_link_lexemes_compact); every identifier occurrence of the source is covered by a named segment in every configuration (C08_identifiers_covered). Pretty output whose post-processing trims something (leading trivia KF10, blanks inside literals KF3) and lone CR in generated text (KF17) are the recorded findings reported by the oracle.",
        level_note="Trusted: Coq kernel, translator xjs2v (WriteTo bodies), extraction, harness/driver correspondence (print and smap suites compare Code, Mappings and Names). Modelled not verified: CodeWriter and compiler.Compile post-processing.",
        technique="Coq proof (invariant over writer operation histories) + model/implementation correspondence",
        suites=[dict(suite="writer", n_quick=3000, n_thorough=100000, what="random histories of the exported CodeWriter methods: buffer, indent level, mappings"),
                dict(suite="print", n_quick=1500, n_thorough=50000, what="trees x compiler configurations: code, mappings, names, panic"),
                dict(suite="smap", n_quick=1000, n_thorough=50000, what="SourceMapper histories")],
        oracle_n_quick=1500, oracle_n_thorough=50000,
        explanation="C08: C08_writer_position, C08_mapping_at_token_start, C08_sorted, C08_segments_link_lexemes, C08_segments_link_lexemes_compact, C08_identifiers_covered.",
        open_statements=["segment linking for pretty output when cleanEmptyLines changes the buffer: false on the unchanged tree (KF10, KF3); explored by the oracle"],
        assumptions=["segment clause: source free of CR (lone CR: KF17); configurations whose post-processing leaves the buffer as written (always compact; pretty unless KF10 / KF3 apply)", "line/column = (LF count, bytes since last LF); a CR inside written text is outside the theorem (the mapper counts CR as a line break, the lexer does not)"],
    ),
    "C06": dict(
        design_ref="DESIGN.md 5.6",
        level_text="Coq theorems over the printer regenerated from ast.go and the writer, lexer and parser models. For all trees: the semicolon option is read only by the statement-terminator operation (output without semicolons = output with them of the same operations minus the terminators); indentation options made of blanks change only leading whitespace of lines (through cleanEmptyLines). ROUND TRIP (C06_pretty_round_trip, PrettyProofs.v): for every program of the grammar lexed from a source text and every pretty configuration that writes semicolons (any blank indent unit, with or without source map) the formatted output lexes and parses back, without error, to the tree it was printed from - the same tree as the compact output (C01_compact_round_trip) - provided no line of a multi-line literal ends with a blank (KF3). With semicolons off the clause is false (KF1, KF2: reported by the oracle). IDEMPOTENCE (C06_idempotent, TriviaProofs.v): under the same hypotheses, formatting the formatted output reproduces it byte for byte (a first attempt found the defect x;//<TAB>, repaired by fix 8063bcf). REFUTED CLAUSES as theorems with kernel-evaluated witnesses (RefutedPretty.v): with semicolons off the round trip is false (C06_round_trip_without_semicolons_refuted: a;(b), C06_else_without_semicolons_refuted: if(a)b;else c) and the hypothesis literals_trim_safe is necessary (C06_trim_inside_literal_refuted).",
        level_note="Trusted: Coq kernel, translator xjs2v (WriteTo bodies), extraction, harness/driver correspondence (print suite over all option combinations). Modelled not verified: CodeWriter and cleanEmptyLines (strings.TrimSpace modelled on ASCII white space: exact on every reachable output since the lexer drops trailing Unicode white space of comments); the lexer, parser models for the round trip (differentially tested).",
        technique="Coq proof (simulation of two writer runs; structural invariant of the generated printer) + model/implementation correspondence",
        suites=[dict(suite="writer", n_quick=3000, n_thorough=100000, what="random histories of the exported CodeWriter methods: buffer, indent level, mappings", projection=WRITER_NOMAP),
                dict(suite="print", n_quick=2000, n_thorough=50000, what="trees x compiler configurations: code",
                     projection=CODE_ONLY)],
        oracle_n_quick=600, oracle_n_thorough=20000, oracle_n_search=3000,
        explanation="C06: C06_semi_only, C06_indent_only, C06_pretty_round_trip, C06_idempotent.",
        open_statements=["with semicolons off same-tree and idempotence are false on the unchanged tree (KF1, KF2): reported by the oracle"],
        assumptions=["round trip and idempotence: pretty configurations that write semicolons; every string literal of the source is stable under print + re-scan (strings_stable: holds for valid JavaScript literals, C07_valid_strings_stable); no line of a multi-line literal ends in a blank (literals_trim_safe: otherwise KF3)"],
    ),
    "C16": dict(
        design_ref="DESIGN.md 5.16",
        level_text="Coq theorems over the executable parser model. For all inputs (valid or malformed), modes, interceptors and operators: every statement and expression parse step leaves the context stack exactly as it found it, and after ParseProgram the stack is [Global]. NESTING (C16_reflects_nesting, NestProofs.v), for every program of the grammar and any lists of pass-through, probe and re-entrant interceptors: at EVERY interceptor invocation the answers equal the syntactic nesting that NestSpec.v assigns to the current token - IsInFunction = the token is inside a function body (declaration or expression, at any depth), CurrentContext = Global outside every brace block and Block inside one; tokens of a lexed source are pairwise distinct, so the nesting of a token is unique. The property's wording expects Function for a token directly inside a function body; the code answers Block there: recorded finding KF8, reported by the oracle (probes asking everywhere or selectively against the reference unparser's nesting record). REFUTED CLAUSE as a theorem with a kernel-evaluated witness: at `let` in function f(){let x=1} IsInFunction = true and CurrentContext = Block, not Function (C16_function_body_is_block_refuted, KF8).",
        level_note="Trusted: Coq kernel, translator xjs2v (context constants, tables), extraction, harness/driver correspondence (icept suite compares the probes' CurrentContext/IsInFunction log and the final context). Modelled not verified: parser control flow incl. the deferred pops.",
        technique="Coq proof (balance invariant by induction on fuel) + model/implementation correspondence",
        suites=[dict(suite="icept", n_quick=3000, n_thorough=100000, what="sources x interceptor lists: tree, errors, final context, probe log (token, CurrentContext, IsInFunction)",
                     projection=POS_FREE)],
        oracle_n_quick=1500, oracle_n_thorough=50000,
        explanation="C16: C16_balanced_stmt, C16_balanced_expr, C16_final_top, C16_reflects_nesting, C16_lexed_tokens_distinct.",
        open_statements=["CurrentContext = Function for tokens directly inside a function body: false on the unchanged tree (KF8); proved instead: it is Block there"],
        assumptions=["nesting clause: programs of the grammar; tokens pairwise distinct (holds for every lexer output: C16_lexed_tokens_distinct)"],
    ),
    "C04": dict(
        design_ref="DESIGN.md 5.4",
        level_text="Coq theorems over the executable parser model for all token lists and configurations: any list of pass-through, probing and re-entrant (prefix + remaining) statement/expression interceptors yields the same tree, errors, error flag, final context and token window as no interceptors; non-rewriting token interceptors leave tokens unchanged; one statement step runs the probes in installation order on the first token of the construct and then the base parser; every expression step restores the binding-power register; the token chain is entered with the lexer on the lexeme's first byte.",
        level_note="Trusted: Coq kernel, translator xjs2v, extraction, harness/driver correspondence (icept suite installs real closures of the three modelled kinds in random interleavings). The theorems quantify over the modelled interceptor shapes (pass-through, probe, re-entrant), not over arbitrary Go closures.",
        technique="Coq proof (simulation of interceptor chains by induction on fuel) + model/implementation correspondence",
        suites=[dict(suite="icept", n_quick=3000, n_thorough=100000, what="sources x interceptor lists (0..4 per kind): tree, errors, final context, probe log",
                     projection=POS_FREE),
                dict(suite="lex", n_quick=1500, n_thorough=50000, what="token stream",
                     projection=POS_FREE)],
        oracle_n_quick=1500, oracle_n_thorough=50000,
        explanation="C04: C04_transparent, C04_tokens_transparent, C04_order_stmt, C04_cep_restored, C04_token_position.",
    ),
    "C07": dict(
        design_ref="DESIGN.md 5.7",
        level_text="Coq theorems against a specification of ECMAScript string values (StringValue.v: SV over UTF-8 source bytes to UTF-16 code units, strict UTF-8 decoding): every valid string literal body in either quote style scans to a literal that denotes the same value between double quotes; the UTF-8 encoder regenerated from lexer/helpers.go is correct on every Unicode scalar value; backtick bodies are reproduced byte for byte by scan + print; string and number literal nodes are printed from their scanned literal verbatim. Pretty-mode trimming inside backtick literals is the recorded finding KF3.",
        level_note="Trusted: Coq kernel, translator xjs2v (isHexDigit, hexDigitValue, encodeUTF8, mustStayEscaped, WriteTo bodies), extraction, harness/driver correspondence (lex suite with the escape corpus; print suite), the SV specification. Modelled not verified: readString/readRawString control flow. Values are compared by a JavaScript engine only in the search oracle.",
        technique="Coq proof (induction over literal bodies against an ECMAScript string-value specification) + model/implementation correspondence",
        suites=[dict(suite="lex", n_quick=4000, n_thorough=200000, what="byte strings incl. every escape shape: all token fields",
                     projection=POS_FREE),
                dict(suite="print", n_quick=1000, n_thorough=50000, what="trees x configurations: code",
                     projection=CODE_ONLY)],
        oracle_n_quick=300, oracle_n_thorough=20000,
        explanation="C07: C07_string, C07_string_printed, C07_backtick, C07_utf8, C07_number_printed, C07_valid_strings_stable.",
        assumptions=["legacy octal escapes and other escapes that are syntax errors in strict mode are outside the subset (SV = None)",
                     "source text is well-formed UTF-8"],
    ),
    "C03": dict(
        design_ref="DESIGN.md 4 (C03)",
        level_text="Coq theorems over the printer regenerated from ast.go, the writer, lexer and parser models and the grammar specification: the printer's precedence of every node kind is its ECMAScript level (member 12 vs LeftHandSide 11 is never separated by a printer test); for EVERY assembled expression tree with arbitrary operands (callee/object positions call-level-or-tighter, simple assignment targets) the parentheses the printer writes make it a tree of the grammar; it is the same tree up to grouping nodes, prints to the same compact text, and parenthesisation is idempotent; and TEXT LEVEL: printing such a tree compactly (parentheses, fusion-avoiding blanks, re-quoted strings), lexing the text and parsing the tokens yields without error the parenthesised tree - the same tree up to grouping nodes, positions and comments - for all trees whose stored literals are lexer-producible (C03_print_parse_compact), and the same through EVERY pretty configuration (any blank indent, semicolons on or off, map on or off: C03_print_parse_pretty; comment-free tokens, no line of a multi-line literal ending in a blank). Statement-level assembled trees are explored by the oracle with every parent/child operator pair to depth 3 (KF4 dangling else on assembled trees is reported there). REFUTED CLAUSE as a theorem with a kernel-evaluated witness: the assembled if with an else-less if as then-branch re-parses with the else on the inner if (C03_assembled_dangling_else_refuted, KF4).",
        level_note="Trusted: Coq kernel, translator xjs2v (WriteTo bodies, both precedence tables), extraction, harness/driver correspondence (print suite with assembled trees), Grammar.v. Modelled not verified: CodeWriter. Recorded findings on assembled trees: KF4 (dangling else); semicolons-off hazards KF1/KF2; KF3.",
        technique="Coq proof (tree induction against the grammar's level discipline) + model/implementation correspondence",
        suites=[dict(suite="print", n_quick=2000, n_thorough=50000, what="parser-produced and assembled trees x configurations: code, panic",
                     projection=CODE_ONLY),
                dict(suite="parse", n_quick=1500, n_thorough=50000, what="re-parse side: trees, errors",
                     projection=POS_FREE)],
        oracle_n_quick=300, oracle_n_thorough=20000,
        explanation="C03: C03_precedences_agree, C03_parenthesised_is_wf, C03_same_tree, C03_same_text, C03_groupify_idempotent, C03_print_parse_compact, C03_print_parse_pretty.",
        open_statements=["statement-level ASSEMBLED trees (dangling else on an assembled if/else: KF4) are explored by the oracle; parsed programs are covered by C01_compact_round_trip / C06_pretty_round_trip"],
    ),
    "C15": dict(
        design_ref="DESIGN.md 4 (C15)",
        level_text="Coq theorems over the printer regenerated from ast.go and the writer, lexer and parser models: compact output (code and source map) is independent of all comments; erasing the trivia of a tree changes exactly the WriteLeadingComments arguments and nothing else in the operation list; a trivia list is written verbatim, once, at the current indentation, leaving a pending line break + indentation; comment text never influences what else is written. POSITION (C15_comments_stay_in_place, TriviaProofs.v): for every program of the grammar lexed from a source text and every pretty configuration that writes semicolons, lexing and parsing the formatted output gives a tree whose trivia lists at ALL statement boundaries - in front of every statement of every statement list at any depth, in front of every closing brace of a block, in front of the end of input - are those of the source item by item (comment texts verbatim, blank lines, in order), up to CommentSpec.norm_boundaries (a statement that shared a line with its predecessor starts a line of its own; blank lines at the very start and end of the input are trimmed): every comment is still in front of the same statement / brace / end, exactly once, in source order, blank-line separation kept. A comment without text is stored like a blank line by the lexer (KF5, reported by the oracle). REFUTED CLAUSE as a theorem with a kernel-evaluated witness: a comment without text is dropped (C15_comment_without_text_refuted, KF5).",
        level_note="Trusted: Coq kernel, translator xjs2v (WriteTo bodies), extraction, harness/driver correspondence (lex suite for trivia collection, print and writer suites for replay). Recorded finding KF5 (a comment without text is stored like a blank line).",
        technique="Coq proof (tree induction over the generated printer; writer characterisation) + model/implementation correspondence",
        suites=[dict(suite="writer", n_quick=3000, n_thorough=100000, what="CodeWriter histories incl. WriteLeadingComments", projection=WRITER_NOMAP),
                dict(suite="print", n_quick=1500, n_thorough=50000, what="trees x configurations: code",
                     projection=CODE_ONLY),
                dict(suite="lex", n_quick=2000, n_thorough=100000, what="trivia attached to tokens",
                     projection=POS_FREE)],
        oracle_n_quick=600, oracle_n_thorough=20000,
        explanation="C15: C15_compact_none, C15_only_comment_ops_differ, C15_comments_verbatim, C15_content_inert, C15_comments_stay_in_place.",
        open_statements=["with semicolons off the formatted output may not parse (KF1, KF2): the position clause is then explored by the oracle"],
        assumptions=["position clause: pretty configurations that write semicolons; strings_stable; literals_trim_safe (as for C06)"],
    ),
    "C01": dict(
        design_ref="DESIGN.md 4 (C01), 4.1",
        level_text="Coq theorems, for every program of the subset grammar (Grammar.v) lexed from a source text and EVERY output configuration (compact; pretty with any blank indent unit, with or without semicolons; with or without source map): lexing spells every keyword/operator/punctuation token canonically; the parser returns exactly the ECMAScript tree of the token sequence without error (C02); compiling it never panics; the code, with layout bytes (blank, tab, line breaks, ';') removed, is byte for byte the source's token texts in source order - no token is dropped, added, reordered or respelled except the quotes of string literals, whose value is preserved (C07) (C01_source_to_code); and ROUND TRIP (C01_compact_round_trip): the compact output lexes and parses back, without error, to the tree it was printed from - the emitted JavaScript text is a spelling of the same tree. Executing source and output is not expressible in the model (no JavaScript semantics can be installed); it is explored by the oracle with node 20 on generated terminating programs in every configuration.",
        level_note="Partial by construction: the theorems stop at the token sequence and the re-parsed tree of the output; that equal token sequences with JavaScript's own semicolon insertion behave equally is the semantics of JavaScript, not modelled. Pretty configurations are covered for comment-free trees (comments are C15). Trusted: Coq kernel, translator xjs2v (tables, predicates, WriteTo bodies), extraction, harness/driver correspondence (lex, parse, print, writer suites), Grammar.v and TokenSpec.v as specification. Recorded findings KF1, KF2 (semicolons off), KF3 (pretty trims inside backtick literals), KF16, KF19 (escaped 'use strict' becomes a directive) and KF20 (lone CR / U+2028 / U+2029 inside a comment) are reported by the oracle.",
        technique="Coq proof (induction over the grammar's matchers against the generated printer; writer invariant over operation lists) + model/implementation correspondence",
        suites=[dict(suite="lex", n_quick=3000, n_thorough=100000, what="byte strings: all token fields", projection=POS_FREE),
                dict(suite="parse", n_quick=2000, n_thorough=50000, what="sources x modes: tree, errors", projection=POS_FREE),
                dict(suite="print", n_quick=2000, n_thorough=50000, what="trees x compiler configurations: code", projection=CODE_ONLY),
                dict(suite="writer", n_quick=2000, n_thorough=50000, what="random histories of the exported CodeWriter methods: buffer, indent level", projection=WRITER_NOMAP)],
        oracle_n_quick=120, oracle_n_thorough=4000, oracle_n_search=600,
        explanation="C01: C01_tokens_preserved, C01_lexer_canonical, C01_code_tokens, C01_source_to_code, C01_compact_round_trip.",
        open_statements=["C01_behaviour (same printed values and completion in a JavaScript engine): not expressible without a JavaScript semantics; explored by the oracle with node 20"],
        assumptions=["layout bytes inside string literals are compared modulo layout by the token theorem; their exact bytes are C07_string_printed / C07_backtick",
                     "round trip: strings_stable - every string-literal token re-scans to itself between double quotes; fails only for literals that are not valid JavaScript (an incomplete \\x / \\u escape directly followed by text that completes it after decoding, e.g. \"\\x\\x41\")"],
    ),
    "C02": dict(
        design_ref="DESIGN.md 4 (C02)",
        level_text="Coq theorem: COMPLETENESS of the Pratt parser model w.r.t. an executable token-level specification of the subset as ECMA-262 parses it (Grammar.v: expression levels, left-associative binary operators, right-associative assignment with simple targets, restricted productions after return and before postfix ++/--, automatic semicolon insertion, else bound to the nearest if): for EVERY (tree, token list) pair of the grammar the default parser returns exactly that tree - every stored token included - with no error; the grammar is unambiguous. LAYOUT INDEPENDENCE (C02_layout_independent), for EVERY input valid or malformed, every mode, interceptor list and registered operator: two token lists that agree on type, literal and after-newline flag of every token - the same lexemes in any two layouts with line breaks between the same tokens, with any comments and blank lines - give trees of the same shape, the same error kinds in the same order and the same error flag. The specification is validated against node 20 on generated programs (every program the reference unparser renders is accepted by node and is in the grammar) and rejects every known case where xjs accepts invalid JavaScript.",
        level_note="Trusted: Coq kernel, translator xjs2v (binding powers, handler tables, ASI switch), extraction, harness/driver correspondence (parse suite), Grammar.v as the meaning of 'as JavaScript parses it'. Modelled not verified: parser control flow (differentially tested); strconv acceptance. The lexical half (text to tokens) is C10; redundant parentheses are grouping nodes of the grammar.",
        technique="Coq proof (Pratt completeness in continuation form by induction on tree size, statements and ASI included) + model/implementation correspondence",
        suites=[dict(suite="parse", n_quick=3000, n_thorough=100000, what="sources x 4 modes: tree, errors, flag",
                     projection=POS_FREE),
                dict(suite="lex", n_quick=2000, n_thorough=100000, what="token cores", projection=POS_FREE)],
        oracle_n_quick=2500, oracle_n_thorough=200000,
        explanation="C02: C02_parse_complete, C02_unambiguous, C02_layout_independent.",
        assumptions=["numbers Go's strconv rejects (08, 1e400, integers >= 2^63) are outside the grammar (go_int_ok / go_float_ok side conditions)"],
    ),
    "C05": dict(
        design_ref="DESIGN.md 4 (C05)",
        level_text="Coq theorems: token-type ids are stable per name, injective and >= 1000 > every built-in type, for every registration history; a registration for a token that already has the role (built-in or registered) is refused leaving the builder unchanged; the role sets are exactly the built-in handlers plus what was registered (seeds regenerated from NewBuilder and checked against the handler tables of newWithOptions); a fresh registration changes only its role; an infix operator registered at the level of a built-in binary operator b parses EXACTLY like b (simulation: parse with the operator = parse of the renamed tokens, up to renaming, errors included), for the 12 built-in binary operators without a prefix role and every configuration that does not touch b; a registered prefix operator parses exactly like '!'; a registered postfix operator is a CALL-level suffix. EVERY LEVEL (ClimbSpec.v, ClimbProofs.v): for every configuration a builder can produce (no operator on the end-of-input token), both modes, any interceptors, and every operator tree over identifiers and integer literals that mixes the 13 built-in binary operators with infix operators registered at ANY levels above LOWEST and is grouped like left-associative operators of those levels (left operand of level >= k, right operand of level > k), the parser returns exactly that tree and reports no error; the well-grouped tree of a token list is unique; the same (ClimbSpec2.v) for trees that also contain prefix operators (built-in ! and -, registered: level 9), registered postfix operators (call-level suffix, level 11) and parenthesised subtrees; and (ClimbSpec3.v, C05_groups_by_level_y) for trees that also contain the built-in neighbours that are not binary operators: member access (12), index access (12), calls with any number of arguments (11), built-in ++ / -- (10, not after a line break), assignment and compound assignment (2, right-associative), in both modes (smart mode: no line break before an opening ( or [). REFUTED CLAUSE as a theorem with a kernel-evaluated witness: an infix operator registered at level 1 never binds (C05_level_one_never_binds_refuted, KF18).",
        level_note="Trusted: Coq kernel, translator xjs2v (tables, builder seeds), extraction, harness/driver correspondence (reg suite: registered operators on dynamic tokens incl. refused duplicates). Operator callbacks are the node-constructor shapes the property names. Recorded finding KF18 (level 1 never binds).",
        technique="Coq proof (simulation between two parser runs by induction on fuel; completeness of the Pratt loop for operator trees of arbitrary levels by induction on the tree; registry invariants over histories) + model/implementation correspondence",
        suites=[dict(suite="reg", n_quick=3000, n_thorough=100000, what="expressions over registered operators: tree, errors, registration error flags",
                     projection=POS_FREE),
                dict(suite="parse", n_quick=1500, n_thorough=50000, what="sources x 4 modes", projection=POS_FREE)],
        oracle_n_quick=1500, oracle_n_thorough=50000,
        explanation="C05: C05_token_ids, C05_duplicate_refused, C05_role_sets, C05_register_effect, C05_infix_like_builtin, C05_prefix_like_builtin, C05_postfix_call_level, C05_groups_by_level, C05_grouping_unique, C05_cfg_ok_reachable, C05_groups_by_level_reachable, C05_groups_by_level_x, C05_grouping_unique_x, C05_cfg_ok_x_reachable, C05_groups_by_level_y, C05_cfg_ok_y_reachable, C05_grouping_unique_y.",
        open_statements=["operands other than identifiers / integer literals / the listed constructs (strings, floats, array / object / function literals) next to an operator registered at a level without a built-in binary operator: oracle only", "level 1 never binds (KF18)"],
    ),
    "C12": dict(
        design_ref="DESIGN.md 4 (C12)",
        level_text="Coq theorems over the executable parser model: SOUNDNESS - whatever strict mode accepts without reporting an error (from any source text, or any token list without an interior end-of-input token) is a program of the relaxed grammar GrammarLax.v = the ECMAScript grammar of the subset (Grammar.v, validated against node 20) plus five explicit relaxations, each a recorded finding (KF6 assignment targets, KF7 member names, object keys, KF12 declarations as single statements, KF11 postfix expressions as callees; function parameters are identifiers since the repair of KF15); the relaxed grammar contains the strict one; CAUSALITY - if a token list agrees with an accepted one on its first k tokens, every error reported for it is located no earlier than token k-1 (any mode / interceptors / operators). With C10 (unterminated literals are ILLEGAL tokens) a corrupted text outside the relaxed grammar is never accepted silently. The oracle compares with node 20 over every single-token deletion, separator removal and truncation of generated programs and reports the recorded findings. REFUTED CLAUSES as theorems with kernel-evaluated witnesses (RefutedStrict.v): w.r.t. Grammar.v itself soundness is false - a+b=c, 1++ (KF6), a.'x' (KF7), a++(b) (KF11), if(a)let x=1 (KF12) are accepted without error although no tree of the grammar has these token lists (by C02_parse_complete).",
        level_note="Trusted: Coq kernel, translator xjs2v, extraction, harness/driver correspondence (parse suite with token-level mutations). node 20 only in the search oracle. 'Valid JavaScript' in theorems means Grammar.v / GrammarLax.v, not an external parser.",
        technique="Coq proof (lockstep simulation of two parser runs with different fuels) + model/implementation correspondence; reference-engine oracle as search",
        suites=[dict(suite="parse", n_quick=3000, n_thorough=100000, what="sources incl. token-level mutations x 4 modes: tree, errors with ranges, flag"),
                dict(suite="lex", n_quick=2000, n_thorough=100000, what="unterminated literals etc.: all token fields")],
        oracle_n_quick=150, oracle_n_thorough=5000, oracle_n_search=600,
        explanation="C12: C12_error_not_early, C12_sound, C12_sound_lexed, C12_lax_contains_strict.",
        open_statements=["soundness w.r.t. the strict grammar is false on the unchanged tree exactly by the recorded findings KF6, KF7, KF11, KF12, KF14, KF16; lexical relaxations (KF14 reserved words) are outside the token-level grammar"],
    ),
}

NOT_CLAIMED = {}


# ---------------------------------------------------------------------------
# Bridge: turn a case line of a correspondence suite (on which model and
# implementation disagree) into input lines of the property's direct oracle, so
# that the search for a failing input starts from the disagreeing cases.

def _split_case(suite, line):
    """returns dict(pcfg, hexsrc, ccfg, sexpr)"""
    f = line.split(" ")
    d = dict(pcfg="-", hexsrc=None, ccfg=None, sexpr=None)
    if suite in ("parse", "icept", "reg") and len(f) >= 2:
        d["pcfg"], d["hexsrc"] = f[0], f[1]
    elif suite == "lex" and f:
        d["hexsrc"] = f[0]
    elif suite == "print" and len(f) >= 3:
        d["ccfg"] = f[0]
        if f[1] == "S" and len(f) >= 4:
            d["pcfg"], d["hexsrc"] = f[2], f[3]
        elif f[1] == "T":
            d["sexpr"] = " ".join(f[2:])
    return d


def _modes(pcfg):
    items = [] if pcfg == "-" else pcfg.split(";")
    m = ";".join(x for x in items if x in ("T", "S"))
    return m or "-"


def _c04_seq(pcfg):
    seq = []
    for it in ([] if pcfg == "-" else pcfg.split(";")):
        for pre, kind in (("si:", "s"), ("ei:", "e"), ("ti:", "t")):
            if it.startswith(pre):
                for x in it[len(pre):].split(","):
                    if x and not x.startswith("g") and not x.startswith("n"):
                        seq.append(kind + ("q" + x[1:] if x.startswith("s") else x))
    return ",".join(seq[:8]) or "-"


def bridge(prop, suite, line):
    d = _split_case(suite, line)
    h, out = d["hexsrc"], []
    all_modes = ["-", "T", "S", "T;S"]
    if prop == "C10" and suite == "lex":
        out.append(line)
    elif prop == "C09" and suite == "smap":
        out.append(line)
    elif h is not None:
        if prop == "C13":
            out.append("src " + h)
        elif prop == "C11":
            out += ["%s %s" % (m, h) for m in all_modes]
        elif prop == "C16":
            out.append("m %s %s" % (d["pcfg"], h))
        elif prop == "C04":
            out.append("%s %s %s" % (_modes(d["pcfg"]), _c04_seq(d["pcfg"]), h))
            out.append("%s sp,ep,er,tp %s" % (_modes(d["pcfg"]), h))
        elif prop == "C03":
            out.append("SX " + h)
        elif prop == "C06":
            out.append("X " + h)
        elif prop == "C01":
            out.append("s " + h)
        elif prop == "C12":
            out.append("p " + h)
        elif prop == "C08":
            out += ["X cm " + h, "X pm:2020:1 " + h, "X pm:09:0 " + h]
    # assembled trees of the print suite are arbitrary (nil children, let expressions
    # anywhere): they exercise the printer correspondence but are outside C03's
    # quantifier, so they are not replayed by its oracle (its own generator builds the
    # assembled trees of the property's domain)
    return out
