open Model
open Util
open Pcase

let parse_ccfg (s : string) : wcfg =
  match split_on ':' s with
  | ["c"] -> cfg_compact false
  | ["cm"] -> cfg_compact true
  | ["p"; ind; semi] -> cfg_pretty (str_of_string (unhx ind)) (semi = "1") false
  | ["pm"; ind; semi] -> cfg_pretty (str_of_string (unhx ind)) (semi = "1") true
  | _ -> failwith ("bad ccfg " ^ s)

let compile_observable (cfg : wcfg) (p : program) : string =
  let r = compile cfg p in
  if r.r_panic then "PANIC"
  else
    let m = match r.r_map with
      | None -> "nomap"
      | Some sm ->
          Printf.sprintf "v=%d names=[%s] mappings=%s" (int_of_z sm.smv_version)
            (String.concat "," (List.map (fun n -> hx (string_of_str n)) sm.smv_names))
            (string_of_str sm.smv_mappings) in
    (* debug.ToString(program): the printer run through a zero-valued CodeWriter; reported
       for the compact configuration without map (it must equal the compact code) *)
    let dbg = if (not cfg.w_pretty) && (not cfg.w_map)
              then " dbg=" ^ hx (string_of_str (run_wops (cfg_compact false) (write_program p)).w_buf) else "" in
    "code=" ^ hx (string_of_str r.r_code) ^ dbg ^ " " ^ m

let split3 (line : string) =
  let i = String.index line ' ' in
  let j = String.index_from line (i + 1) ' ' in
  (String.sub line 0 i, String.sub line (i + 1) (j - i - 1), drop (j + 1) line)

let run (line : string) : string =
  let (c, kind, rest) = split3 line in
  let cfg = parse_ccfg c in
  let prog =
    if kind = "S" then (run_parse (parse_pcase rest)).result.pr_program
    else Sexpr.read_program rest in
  compile_observable cfg prog
