open Model
open Util

let fmt_token (t : token) : string =
  Printf.sprintf "%d:%s:%d:%d:%d:%d:%d:%s" (int_of_z t.t_type) (hx (string_of_str t.t_lit))
    (int_of_z t.t_start.pline) (int_of_z t.t_start.pcol) (int_of_z t.t_end.pline) (int_of_z t.t_end.pcol)
    (if t.t_nl then 1 else 0)
    (String.concat "," (List.map (fun c -> hx (string_of_str c)) t.t_comments))

let run (line : string) : string =
  let src = unhx line in
  let toks = next_tokens (nat_of_int (String.length src + 3)) (lx_init (str_of_string src)) in
  String.concat " " (List.map fmt_token toks)
