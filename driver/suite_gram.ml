(* gram: is the parse result of a source accepted by the grammar specification
   (Grammar.m_program / wf_program)?  Used to measure that the specification is not
   vacuous: valid subset programs must be in it. *)
open Model
open Pcase

let run (line : string) : string =
  let c = parse_pcase line in
  let toks = lex_tokens c in
  match parse_tokens cfg_default toks with
  | None -> "outoffuel"
  | Some r ->
      let p = r.pr_program in
      Printf.sprintf "errs=%d m=%s wf=%s mL=%s wfL=%s" (min 1 (List.length r.pr_errors)) (b01 (m_program p toks)) (b01 (wf_program p))
        (b01 (m_programL p toks)) (b01 (wf_programL p))
