(* gram: is the parse result of a source accepted by the grammar specification
   (Grammar.m_program / wf_program)?  Used to measure that the specification is not
   vacuous: valid subset programs must be in it. *)
open Model
open Pcase

let run (line : string) : string =
  let c = parse_pcase line in
  let toks = lex_tokens c in
  match parse_tokens cfg_default toks with
  | None -> "outoffuel"
  | Some r ->
      let p = r.pr_program in
      if Sys.getenv_opt "TPDEBUG" <> None && r.pr_errors = [] && not (token_preserving p toks) then
        Printf.eprintf "OUT %s\nSRC %s\n" (Util.string_of_str (wops_text (write_program p))) (Util.string_of_str (toks_text toks));
      let pe = tmap_program erase_comments p in
      let tab = [Util.n_of_int 9] in
      let ct = code_tokens (cfg_compact false) p toks && code_tokens (cfg_pretty tab false false) pe toks
               && code_tokens (cfg_pretty [] true true) pe toks in
      let pieces cfg q = (compile cfg q).r_panic ||
        nolayout (compile cfg q).r_code = nolayout (wops_bytes cfg (write_program q)) in
      let pc = pieces (cfg_compact true) p && pieces (cfg_pretty tab false false) p && pieces (cfg_pretty [] true true) p in
      let sl = b01 (segments_link (cfg_compact true) p toks) ^ b01 (segments_link (cfg_pretty tab true true) p toks)
               ^ b01 (segments_link (cfg_pretty [] false true) p toks) in
      let ic = b01 (idents_covered (cfg_compact true) p toks) ^ b01 (idents_covered (cfg_pretty tab true true) p toks) in
      Printf.sprintf "errs=%d m=%s wf=%s mL=%s wfL=%s tp=%s ct=%s pc=%s sl=%s ic=%s lt=%s un=%s rt=%s ne=%s rp=%s ts=%s id=%s bt=%s" (min 1 (List.length r.pr_errors)) (b01 (m_program p toks)) (b01 (wf_program p))
        (b01 (m_programL p toks)) (b01 (wf_programL p)) (b01 (token_preserving p toks)) (b01 ct) (b01 pc) sl ic (b01 (match toks with t :: _ -> t.t_comments <> [] | [] -> false))
        (let un cfg = (compile cfg p).r_code = (run_wops cfg (write_program p)).w_buf in b01 (un (cfg_pretty tab true true)) ^ b01 (un (cfg_pretty [] false true)))
        (match reparse_compact p with
         | None -> "N"
         | Some r2 -> b01 (r2.pr_errors = [] && shape_program r2.pr_program = shape_program p))
        (let z = Util.z_of_int in
         match parse_tokens (cfg_with [SI_Probe (z 1)] [EI_Probe (z 2); EI_Reentrant; EI_Probe (z 3)]) toks with
         | None -> "N"
         | Some r3 -> b01 (nesting_reflected r3.pr_program r3.pr_final.ps_log) ^ "/" ^ string_of_int (List.length r3.pr_final.ps_log))
        (let rp cfg = match tokenize (compile cfg p).r_code with
           | None -> "N"
           | Some ts -> (match parse_tokens cfg_default ts with
              | None -> "N"
              | Some r2 -> b01 (r2.pr_errors = [] && shape_program r2.pr_program = shape_program p)) in
         rp (cfg_pretty tab true false) ^ rp (cfg_pretty [] true true) ^ rp (cfg_pretty tab false false))
        (b01 (literals_trim_safe toks))
        (let idem cfg = match tokenize (compile cfg p).r_code with
           | None -> "N"
           | Some ts -> (match parse_tokens cfg_default ts with
              | None -> "N"
              | Some r2 -> b01 ((compile cfg r2.pr_program).r_code = (compile cfg p).r_code)) in
         idem (cfg_pretty tab true false) ^ idem (cfg_pretty [] true false) ^ idem (cfg_compact false))
        (let bt cfg = match reparse cfg p with
           | None -> "N"
           | Some r2 ->
               let show l = String.concat " | " (List.map (fun cs -> "[" ^ String.concat ";" (List.map (fun c -> "'" ^ Util.string_of_str c ^ "'") cs) ^ "]") l) in
               if Sys.getenv_opt "BTDEBUG" <> None && norm_boundaries (boundary_trivia r2.pr_program) <> norm_boundaries (boundary_trivia p) then
                 Printf.eprintf "SRC %s\nOUT %s\nCODE %s\n" (show (boundary_trivia p)) (show (boundary_trivia r2.pr_program)) (Util.string_of_str (compile cfg p).r_code);
               b01 (norm_boundaries (boundary_trivia r2.pr_program) = norm_boundaries (boundary_trivia p)) in
         bt (cfg_pretty tab true false) ^ bt (cfg_pretty [] false false))
