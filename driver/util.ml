(* conversions between OCaml values and the extracted Coq datatypes *)
open Model

let rec pos_of_int n =
  if n = 1 then XH
  else if n land 1 = 0 then XO (pos_of_int (n lsr 1))
  else XI (pos_of_int (n lsr 1))

let n_of_int i = if i = 0 then N0 else Npos (pos_of_int i)
let z_of_int i = if i = 0 then Z0 else if i > 0 then Zpos (pos_of_int i) else Zneg (pos_of_int (- i))

let rec int_of_pos = function
  | XH -> 1
  | XO p -> 2 * int_of_pos p
  | XI p -> 2 * int_of_pos p + 1

let int_of_n = function N0 -> 0 | Npos p -> int_of_pos p
let int_of_z = function Z0 -> 0 | Zpos p -> int_of_pos p | Zneg p -> - (int_of_pos p)

let rec nat_of_int i = if i <= 0 then O else S (nat_of_int (i - 1))
let rec int_of_nat = function O -> 0 | S n -> 1 + int_of_nat n

(* byte strings *)
let str_of_string (s : string) : n list =
  List.init (String.length s) (fun i -> n_of_int (Char.code s.[i]))

let string_of_str (l : n list) : string =
  let b = Buffer.create 16 in
  List.iter (fun c -> Buffer.add_char b (Char.chr ((int_of_n c) land 255))) l;
  Buffer.contents b

let hexdigit c =
  match c with
  | '0' .. '9' -> Char.code c - 48
  | 'a' .. 'f' -> Char.code c - 87
  | 'A' .. 'F' -> Char.code c - 55
  | _ -> failwith "bad hex"

let unhx (s : string) : string =
  if s = "-" then ""
  else begin
    let n = String.length s / 2 in
    String.init n (fun i -> Char.chr (16 * hexdigit s.[2 * i] + hexdigit s.[2 * i + 1]))
  end

let hx (s : string) : string =
  if s = "" then "-"
  else begin
    let b = Buffer.create (2 * String.length s) in
    String.iter (fun c -> Buffer.add_string b (Printf.sprintf "%02x" (Char.code c))) s;
    Buffer.contents b
  end

let split_on c s = String.split_on_char c s

let fields (line : string) : string list =
  List.filter (fun x -> x <> "") (split_on ' ' line)

let read_lines path =
  let ic = open_in_bin path in
  let rec go acc = match input_line ic with
    | l -> go (l :: acc)
    | exception End_of_file -> close_in ic; List.rev acc in
  go []
