open Pcase

let run (line : string) : string =
  let c = parse_pcase line in
  let p = run_parse c in
  parse_observable p ^ " reg=[" ^ String.concat "," (List.map b01 p.regs) ^ "]"
