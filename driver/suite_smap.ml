open Model
open Util

let parse_op (op : string) : mop =
  match split_on ':' op with
  | ["M"; a; b] -> MAddMapping (z_of_int (int_of_string a), z_of_int (int_of_string b))
  | ["N"; a; b; h] -> MAddNamed (z_of_int (int_of_string a), z_of_int (int_of_string b), str_of_string (unhx h))
  | ["C"; a] -> MAdvanceColumn (z_of_int (int_of_string a))
  | ["S"; h] -> MAdvanceString (str_of_string (unhx h))
  | ["L"] -> MAdvanceLine
  | _ -> failwith ("bad smap op " ^ op)

let run (line : string) : string =
  let ops = List.map parse_op (fields line) in
  let sm = mapper_source_map (run_mapper ops) in
  Printf.sprintf "v=%d names=[%s] mappings=%s" (int_of_z sm.smv_version)
    (String.concat "," (List.map (fun n -> hx (string_of_str n)) sm.smv_names))
    (string_of_str sm.smv_mappings)
