(* parse cases: configuration + source, and canonical S-expressions (mirrors harness/pcase.go) *)
open Model
open Util

type pcase = {
  tolerant : bool; smart : bool;
  si : string list; ei : string list; ti : string list;
  pre : int list; inf : (int * int) list; post : int list;
  src : string }

let split_list s = if s = "" then [] else split_on ',' s
let has_prefix p s = String.length s >= String.length p && String.sub s 0 (String.length p) = p
let drop n s = String.sub s n (String.length s - n)

let parse_pcase (line : string) : pcase =
  let i = String.index line ' ' in
  let cfg = String.sub line 0 i and hexsrc = drop (i + 1) line in
  let c = ref { tolerant = false; smart = false; si = []; ei = []; ti = []; pre = []; inf = []; post = []; src = unhx hexsrc } in
  if cfg <> "-" then
    List.iter (fun it ->
      if it = "T" then c := { !c with tolerant = true }
      else if it = "S" then c := { !c with smart = true }
      else if has_prefix "si:" it then c := { !c with si = split_list (drop 3 it) }
      else if has_prefix "ei:" it then c := { !c with ei = split_list (drop 3 it) }
      else if has_prefix "ti:" it then c := { !c with ti = split_list (drop 3 it) }
      else if has_prefix "pre:" it then c := { !c with pre = List.map int_of_string (split_list (drop 4 it)) }
      else if has_prefix "post:" it then c := { !c with post = List.map int_of_string (split_list (drop 5 it)) }
      else if has_prefix "inf:" it then
        c := { !c with inf = List.map (fun kv -> match split_on '=' kv with
                                                | [a; b] -> (int_of_string a, int_of_string b)
                                                | _ -> failwith "inf") (split_list (drop 4 it)) }
      else if it = "" then ()
      else failwith ("bad cfg item " ^ it)) (split_on ';' cfg);
  !c

let tok_ic_of (s : string) : tok_ic =
  if s = "p" then TI_Pass
  else if s.[0] = 'q' then TI_Probe (z_of_int (int_of_string (drop 1 s)))
  else if s.[0] = 'g' then
    (match split_on '=' (drop 1 s) with
     | [h; ty] -> TI_Retag (str_of_string (unhx h), z_of_int (int_of_string ty))
     | _ -> failwith "ti")
  else failwith "ti"

(* "s<N>" is a selective probe: the implementation asks only at let / return / function
   tokens; the model's probe answers are a function of the state alone, so its log is the
   full log with the other entries of that probe removed (selective_ids, fmt_events) *)
(* "b" = an interceptor that runs a second parser built from the same builder and passes through: parsers are isolated, so the model sees a pass-through *)
let stmt_ic_of s = if s = "p" || s = "b" then SI_Pass else SI_Probe (z_of_int (int_of_string (drop 1 s)))
let expr_ic_of s = if s = "p" || s = "b" then EI_Pass else if s = "r" then EI_Reentrant else EI_Probe (z_of_int (int_of_string (drop 1 s)))
let selective_ids (c : pcase) : int list =
  List.filter_map (fun s -> if s <> "" && s.[0] = 's' then Some (int_of_string (drop 1 s)) else None) (c.si @ c.ei)
let selective_token (id : int) (t : token) : bool =
  let ty = int_of_z t.t_type and m = id mod 7 + 1 in
  (m land 1 <> 0 && ty = int_of_z t_LET) || (m land 2 <> 0 && ty = int_of_z t_RETURN) || (m land 4 <> 0 && ty = int_of_z t_FUNCTION)

(* builder operations in the order the harness issues them *)
let builder_ops (c : pcase) : bop list =
  [BTolerant c.tolerant; BSmart c.smart]
  @ List.map (fun s -> BUseStmt (stmt_ic_of s)) c.si
  @ List.map (fun s -> BUseExpr (expr_ic_of s)) c.ei
  @ List.map (fun t -> BRegPrefix (z_of_int t)) c.pre
  @ List.map (fun (t, p) -> BRegInfix (z_of_int t, z_of_int p)) c.inf
  @ List.map (fun t -> BRegPostfix (z_of_int t)) c.post

(* token interceptors in installation order; "n<hexlit>=<hexname>" takes its type from
   the lexer builder's RegisterTokenType *)
let tok_ics_of (tis : string list) : tok_ic list =
  let lb = ref lbuilder_new in
  List.map (fun s ->
    if s <> "" && s.[0] = 'n' then
      (match split_on '=' (drop 1 s) with
       | [h; nm] ->
           let (id, lb') = register_token_type !lb (str_of_string (unhx nm)) in
           lb := lb'; TI_Retag (str_of_string (unhx h), id)
       | _ -> failwith "ti")
    else tok_ic_of s) tis

let lex_tokens (c : pcase) : token list =
  let tics = tok_ics_of c.ti in
  match tokenize (str_of_string c.src) with
  | Some ts -> List.map (apply_tok_ics tics) ts
  | None -> failwith "tokenize: out of fuel"

(* ---- S-expressions ---- *)
let tk t = "{" ^ Suite_lex.fmt_token t ^ "}"
let hxs (s : n list) = hx (string_of_str s)
let b01 b = if b then "1" else "0"
let sx_ident (i : ident) = "(id " ^ tk i.id_tok ^ " " ^ hxs i.id_value ^ ")"
let sx_idents l = "[" ^ String.concat " " (List.map sx_ident l) ^ "]"

let rec sx_expr (e : expr) : string =
  match e with
  | ENil -> "nil"
  | EIdent i -> sx_ident i
  | EInt t -> "(int " ^ tk t ^ ")"
  | EFloat t -> "(float " ^ tk t ^ ")"
  | EString (t, v) -> "(str " ^ tk t ^ " " ^ hxs v ^ ")"
  | ERaw (t, v) -> "(raw " ^ tk t ^ " " ^ hxs v ^ ")"
  | EBool (t, b) -> "(bool " ^ tk t ^ " " ^ b01 b ^ ")"
  | ENull t -> "(null " ^ tk t ^ ")"
  | ELet (t, n, v) -> "(lete " ^ tk t ^ " " ^ sx_ident n ^ " " ^ sx_expr v ^ ")"
  | EBinary (t, l, op, r) -> "(bin " ^ tk t ^ " " ^ sx_expr l ^ " " ^ hxs op ^ " " ^ sx_expr r ^ ")"
  | EUnary (t, op, r) -> "(un " ^ tk t ^ " " ^ hxs op ^ " " ^ sx_expr r ^ ")"
  | EPostfix (t, l, op) -> "(post " ^ tk t ^ " " ^ sx_expr l ^ " " ^ hxs op ^ ")"
  | EGroup (t, e, rp) -> "(grp " ^ tk t ^ " " ^ sx_expr e ^ " " ^ tk rp ^ ")"
  | ECall (t, f, args) -> "(call " ^ tk t ^ " " ^ sx_expr f ^ " " ^ sx_exprs args ^ ")"
  | EMember (t, o, p, c) -> "(mem " ^ tk t ^ " " ^ sx_expr o ^ " " ^ sx_expr p ^ " " ^ b01 c ^ ")"
  | EAssign (t, l, v) -> "(asg " ^ tk t ^ " " ^ sx_expr l ^ " " ^ sx_expr v ^ ")"
  | ECompound (t, l, op, v) -> "(casg " ^ tk t ^ " " ^ sx_expr l ^ " " ^ hxs op ^ " " ^ sx_expr v ^ ")"
  | EFunc (t, name, params, body) ->
      "(fn " ^ tk t ^ " " ^ (match name with Some i -> sx_ident i | None -> "none") ^ " " ^ sx_idents params ^ " " ^ sx_stmt body ^ ")"
  | EArray (t, es, rb) -> "(arr " ^ tk t ^ " " ^ sx_exprs es ^ " " ^ tk rb ^ ")"
  | EObject (t, ps, rb) ->
      "(obj " ^ tk t ^ " [" ^ String.concat " " (List.map (fun (k, v) -> "(" ^ sx_expr k ^ " " ^ sx_expr v ^ ")") ps) ^ "] " ^ tk rb ^ ")"
and sx_exprs l = "[" ^ String.concat " " (List.map sx_expr l) ^ "]"
and sx_stmt (s : stmt) : string =
  match s with
  | SNil -> "snil"
  | SLet (t, n, v) -> "(let " ^ tk t ^ " " ^ sx_ident n ^ " " ^ sx_expr v ^ ")"
  | SReturn (t, v) -> "(ret " ^ tk t ^ " " ^ sx_expr v ^ ")"
  | SExpr e -> "(es " ^ sx_expr e ^ ")"
  | SFunc (t, n, ps, b) -> "(fd " ^ tk t ^ " " ^ sx_ident n ^ " " ^ sx_idents ps ^ " " ^ sx_stmt b ^ ")"
  | SBlock (t, ss, rb) -> "(blk " ^ tk t ^ " " ^ sx_stmts ss ^ " " ^ tk rb ^ ")"
  | SIf (t, c, a, b) -> "(if " ^ tk t ^ " " ^ sx_expr c ^ " " ^ sx_stmt a ^ " " ^ sx_stmt b ^ ")"
  | SWhile (t, c, b) -> "(while " ^ tk t ^ " " ^ sx_expr c ^ " " ^ sx_stmt b ^ ")"
  | SFor (t, i, c, u, b) -> "(for " ^ tk t ^ " " ^ sx_expr i ^ " " ^ sx_expr c ^ " " ^ sx_expr u ^ " " ^ sx_stmt b ^ ")"
and sx_stmts l = "[" ^ String.concat " " (List.map sx_stmt l) ^ "]"

let fmt_err (e : perror) =
  Printf.sprintf "E%d:%d:%d:%d:%d:%d" (int_of_z e.e_kind) (int_of_z e.e_arg)
    (int_of_z e.e_start.pline) (int_of_z e.e_start.pcol) (int_of_z e.e_end.pline) (int_of_z e.e_end.pcol)

let fmt_events ?(selective = []) (evs : pevent list) =
  let evs = List.filter (fun e -> not (List.mem (int_of_z e.ev_id) selective && int_of_z e.ev_kind <> 2) || selective_token (int_of_z e.ev_id) e.ev_tok) evs in
  "[" ^ String.concat " " (List.map (fun e ->
    Printf.sprintf "%d/%d/%s/%d/%s" (int_of_z e.ev_id) (int_of_z e.ev_kind) (tk e.ev_tok) (int_of_z e.ev_ctx) (b01 e.ev_infn)) evs) ^ "]"

type parsed = { regs : bool list; cfg : pcfg; result : parse_result; sel : int list }

let run_parse (c : pcase) : parsed =
  let (regs_all, b) = pb_run pbuilder_new (builder_ops c) in
  let cfg = pb_build b in
  let toks = lex_tokens c in
  match parse_tokens cfg toks with
  | None -> failwith "parse: out of fuel"
  | Some r ->
      (* only the registration calls report errors in the harness output *)
      let nskip = 2 + List.length c.si + List.length c.ei in
      let rec dropn n l = if n = 0 then l else match l with [] -> [] | _ :: t -> dropn (n - 1) t in
      { regs = dropn nskip regs_all; cfg; result = r; sel = selective_ids c }

let parse_observable (p : parsed) : string =
  let r = p.result in
  Printf.sprintf "tree=%s eof=%s errs=[%s] err=%s ctx=%d/%s log=%s"
    (sx_stmts r.pr_program.p_stmts) (tk r.pr_program.p_eof)
    (String.concat " " (List.map fmt_err r.pr_errors)) (b01 r.pr_err_returned)
    (int_of_z (current_context r.pr_final)) (b01 (is_in_function r.pr_final))
    (fmt_events ~selective:p.sel r.pr_final.ps_log)
