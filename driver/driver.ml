(* driver <suite> <cases> <out>: run the extracted Coq model on each case line *)
let suites : (string * (string -> string)) list = [
  ("smap", Suite_smap.run);
  ("lex", Suite_lex.run);
  ("parse", Suite_parse.run);
  ("icept", Suite_parse.run);
  ("reg", Suite_parse.run);
  ("print", Suite_print.run);
  ("gram", Suite_gram.run);
  ("modes", Suite_modes.run);
  ("writer", Suite_writer.run);
  ("relex", Suite_relex.run);
]

let () =
  if Array.length Sys.argv <> 4 then (prerr_endline "usage: driver <suite> <cases> <out>"; exit 2);
  let f = try List.assoc Sys.argv.(1) suites with Not_found -> (prerr_endline "unknown suite"; exit 2) in
  let cases = Util.read_lines Sys.argv.(2) in
  let oc = open_out_bin Sys.argv.(3) in
  List.iter (fun c ->
    let r = try f c with Stack_overflow -> "STACKOVERFLOW" | Failure m -> "FAIL:" ^ m in
    output_string oc r; output_char oc '\n') cases;
  close_out oc
