(* modes: is the error-free parse result of a source under its parser modes accepted by the
   mode grammar (GrammarModes.m_programM / wf_program)?  A test of the specification. *)
open Model
open Pcase

let run (line : string) : string =
  let c = parse_pcase line in
  let toks = lex_tokens c in
  let cfg = { cfg_default with c_tolerant = c.tolerant; c_smart = c.smart } in
  match parse_tokens cfg toks with
  | None -> "outoffuel"
  | Some r ->
      let p = r.pr_program in
      Printf.sprintf "T=%s S=%s errs=%d mM=%s wf=%s m=%s" (b01 c.tolerant) (b01 c.smart) (min 1 (List.length r.pr_errors))
        (b01 (m_programM c.smart c.tolerant p toks)) (b01 (wf_program p)) (b01 (m_program p toks))
