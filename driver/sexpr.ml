(* reader for the canonical S-expressions (mirrors harness/sexpr.go) *)
open Model
open Util

let tokenize (s : string) : string array =
  let out = ref [] in
  let n = String.length s in
  let i = ref 0 in
  while !i < n do
    let c = s.[!i] in
    if c = ' ' then incr i
    else if c = '(' || c = ')' || c = '[' || c = ']' then (out := String.make 1 c :: !out; incr i)
    else if c = '{' then begin
      let j = String.index_from s !i '}' in
      out := String.sub s !i (j - !i + 1) :: !out; i := j + 1
    end else begin
      let j = ref !i in
      while !j < n && not (String.contains " ()[]" s.[!j]) do incr j done;
      out := String.sub s !i (!j - !i) :: !out; i := !j
    end
  done;
  Array.of_list (List.rev !out)

type reader = { toks : string array; mutable pos : int }
let peek r = if r.pos < Array.length r.toks then r.toks.(r.pos) else ""
let next r = let t = peek r in r.pos <- r.pos + 1; t
let expect r s = if next r <> s then failwith ("sexpr: expected " ^ s)

let parse_tok (s : string) : token =
  let s = String.sub s 1 (String.length s - 2) in
  match split_on ':' s with
  | [ty; lit; sl; sc; el; ec; nl; cs] ->
      { t_type = z_of_int (int_of_string ty); t_lit = str_of_string (unhx lit);
        t_start = { pline = z_of_int (int_of_string sl); pcol = z_of_int (int_of_string sc) };
        t_end = { pline = z_of_int (int_of_string el); pcol = z_of_int (int_of_string ec) };
        t_nl = (nl = "1");
        t_comments = if cs = "" then [] else List.map (fun c -> str_of_string (unhx c)) (split_on ',' cs) }
  | _ -> failwith ("bad token " ^ s)

let tok r = parse_tok (next r)
let hstr r = str_of_string (unhx (next r))

let zero_ident : ident = { id_tok = zero_token; id_value = [] }

let ident r : ident =
  if peek r = "noid" then (ignore (next r); failwith "nil identifier is not representable in the model")
  else begin
    expect r "("; expect r "id";
    let t = tok r in let v = hstr r in expect r ")"; { id_tok = t; id_value = v }
  end

let rec list_of r (f : reader -> 'a) : 'a list =
  expect r "[";
  let rec go acc = if peek r = "]" then (ignore (next r); List.rev acc) else go (f r :: acc) in
  go []

let rec expr r : expr =
  if peek r = "nil" then (ignore (next r); ENil)
  else begin
    expect r "(";
    let k = next r in
    let e = match k with
      | "id" -> let t = tok r in let v = hstr r in EIdent { id_tok = t; id_value = v }
      | "int" -> EInt (tok r)
      | "float" -> EFloat (tok r)
      | "str" -> let t = tok r in EString (t, hstr r)
      | "raw" -> let t = tok r in ERaw (t, hstr r)
      | "bool" -> let t = tok r in EBool (t, next r = "1")
      | "null" -> ENull (tok r)
      | "lete" -> let t = tok r in let n = ident r in ELet (t, n, expr r)
      | "bin" -> let t = tok r in let l = expr r in let op = hstr r in EBinary (t, l, op, expr r)
      | "un" -> let t = tok r in let op = hstr r in EUnary (t, op, expr r)
      | "post" -> let t = tok r in let l = expr r in EPostfix (t, l, hstr r)
      | "grp" -> let t = tok r in let e = expr r in EGroup (t, e, tok r)
      | "call" -> let t = tok r in let f = expr r in ECall (t, f, list_of r expr)
      | "mem" -> let t = tok r in let o = expr r in let p = expr r in EMember (t, o, p, next r = "1")
      | "asg" -> let t = tok r in let l = expr r in EAssign (t, l, expr r)
      | "casg" -> let t = tok r in let l = expr r in let op = hstr r in ECompound (t, l, op, expr r)
      | "fn" ->
          let t = tok r in
          let name = if peek r = "none" then (ignore (next r); None) else Some (ident r) in
          let ps = list_of r ident in
          EFunc (t, name, ps, stmt r)
      | "arr" -> let t = tok r in let es = list_of r expr in EArray (t, es, tok r)
      | "obj" ->
          let t = tok r in
          let ps = list_of r (fun r -> expect r "("; let k = expr r in let v = expr r in expect r ")"; (k, v)) in
          EObject (t, ps, tok r)
      | _ -> failwith ("sexpr: unknown expression kind " ^ k) in
    expect r ")"; e
  end
and stmt r : stmt =
  if peek r = "snil" then (ignore (next r); SNil)
  else begin
    expect r "(";
    let k = next r in
    let s = match k with
      | "let" -> let t = tok r in let n = ident r in SLet (t, n, expr r)
      | "ret" -> let t = tok r in SReturn (t, expr r)
      | "es" -> SExpr (expr r)
      | "fd" -> let t = tok r in let n = ident r in let ps = list_of r ident in SFunc (t, n, ps, stmt r)
      | "blk" -> let t = tok r in let ss = list_of r stmt in SBlock (t, ss, tok r)
      | "if" -> let t = tok r in let c = expr r in let a = stmt r in SIf (t, c, a, stmt r)
      | "while" -> let t = tok r in let c = expr r in SWhile (t, c, stmt r)
      | "for" -> let t = tok r in let i = expr r in let c = expr r in let u = expr r in SFor (t, i, c, u, stmt r)
      | _ -> failwith ("sexpr: unknown statement kind " ^ k) in
    expect r ")"; s
  end

let read_program (s : string) : program =
  let r = { toks = tokenize s; pos = 0 } in
  let ss = list_of r stmt in
  let eof = if peek r <> "" then tok r else { zero_token with t_type = z_of_int 1 } in
  { p_stmts = ss; p_eof = eof }
