(* relex: evaluates the statement of C03_print_parse_compact on the expression
   statements of a parsed source (a test of the statement, not a proof) *)
open Model
open Pcase

let run (line : string) : string =
  let c = parse_pcase line in
  let toks = lex_tokens c in
  match parse_tokens cfg_default toks with
  | None -> "outoffuel"
  | Some r ->
      let n = ref 0 and prem = ref 0 and ok = ref 0 and okp = ref 0 and bad = ref [] in
      List.iter (fun s -> match s with
        | SExpr e ->
            incr n;
            if printable e && lexical e && not (first_type e = Util.z_of_int 32) then begin
              incr prem;
              let good = match reparse_compact (expr_program e) with
                | None -> false
                | Some r2 ->
                    r2.pr_errors = [] &&
                    shape_program r2.pr_program = shape_program (expr_program (groupify e)) &&
                    List.map strip_groups_stmt (shape_program r2.pr_program).p_stmts
                    = List.map strip_groups_stmt (shape_program (expr_program e)).p_stmts in
              (* pretty: the same statement for comment-free trees whose literals are trim safe *)
              let e0 = tmap_expr erase_comments e in
              let tab = [Util.n_of_int 9] in
              let goodp cfg = match reparse cfg (expr_program e0) with
                | None -> false
                | Some r2 ->
                    r2.pr_errors = [] &&
                    shape_program r2.pr_program = shape_program (expr_program (groupify e0)) in
              if goodp (cfg_pretty tab false false) && goodp (cfg_pretty [] true true) then incr okp;
              if good then incr ok else bad := Pcase.sx_expr e :: !bad
            end
        | _ -> ()) r.pr_program.p_stmts;
      Printf.sprintf "stmts=%d premises=%d ok=%d okp=%d %s" !n !prem !ok !okp (String.concat " | " !bad)
