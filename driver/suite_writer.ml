open Model
open Util

let parse_op (op : string) : wop =
  let rest = String.sub op 1 (String.length op - 1) in
  match op.[0] with
  | 's' -> WString (str_of_string (unhx rest))
  | 'r' -> WRune (n_of_int (int_of_string rest))
  | ';' -> WSemi
  | '_' -> WSpace
  | 'n' -> WNewline
  | 'i' -> WIndent
  | '+' -> WIncIndent
  | '-' -> WDecIndent
  | 'c' -> WComments (if rest = "" then [] else List.map (fun h -> str_of_string (unhx h)) (split_on ',' rest))
  | 'm' -> (match split_on ':' rest with
            | [l; c] -> WMapping { pline = z_of_int (int_of_string l); pcol = z_of_int (int_of_string c) }
            | _ -> failwith "m")
  | 'N' -> (match split_on ':' rest with
            | [l; c; h] -> WNamedMapping (z_of_int (int_of_string l), z_of_int (int_of_string c), str_of_string (unhx h))
            | _ -> failwith "N")
  | _ -> failwith ("bad writer op " ^ op)

let run (line : string) : string =
  match fields line with
  | c :: ops ->
      let cfg = Suite_print.parse_ccfg c in
      let st = run_wops cfg (List.map parse_op ops) in
      let m = if cfg.w_map then
          let sm = mapper_source_map st.w_mapper in
          Printf.sprintf "names=[%s] mappings=%s"
            (String.concat "," (List.map (fun n -> hx (string_of_str n)) sm.smv_names))
            (string_of_str sm.smv_mappings)
        else "nomap" in
      Printf.sprintf "buf=%s level=%d %s" (hx (string_of_str st.w_buf)) (int_of_z st.w_level) m
  | [] -> failwith "empty writer case"
