package main

import (
	"fmt"
	"go/ast"
	"go/token"
	"sort"
	"strings"
)

// A syntactic write-set analysis (coq/Gen/Effects.v): which functions assign
// package-level variables or let them escape, and which tree-printing / building
// methods assign through their receiver or arguments. It is deliberately simple
// and named in the trusted base: it sees assignments, ++/--, delete, clear, the in-place
// functions of slices/sort/maps (inPlaceMutators),
// maps.Copy destinations and plain aliasing, not writes through reflection or unsafe.

func rootIdent(x ast.Expr) *ast.Ident {
	for {
		switch t := x.(type) {
		case *ast.Ident:
			return t
		case *ast.SelectorExpr:
			x = t.X
		case *ast.IndexExpr:
			x = t.X
		case *ast.StarExpr:
			x = t.X
		case *ast.ParenExpr:
			x = t.X
		case *ast.SliceExpr:
			x = t.X
		default:
			return nil
		}
	}
}

type effects struct {
	globalWrites  []string
	globalAliases []string
	recvWrites    []string
	argWrites     []string
}

func pkgVars(p *pkgInfo) map[string]bool {
	vars := map[string]bool{}
	for _, f := range p.sortedFiles() {
		for _, d := range f.Decls {
			gd, ok := d.(*ast.GenDecl)
			if !ok || gd.Tok != token.VAR {
				continue
			}
			for _, s := range gd.Specs {
				for _, n := range s.(*ast.ValueSpec).Names {
					vars[n.Name] = true
				}
			}
		}
	}
	return vars
}

func localNames(fd *ast.FuncDecl) map[string]bool {
	loc := map[string]bool{}
	add := func(fl *ast.FieldList) {
		if fl == nil {
			return
		}
		for _, f := range fl.List {
			for _, n := range f.Names {
				loc[n.Name] = true
			}
		}
	}
	add(fd.Recv)
	add(fd.Type.Params)
	add(fd.Type.Results)
	ast.Inspect(fd, func(n ast.Node) bool {
		switch t := n.(type) {
		case *ast.AssignStmt:
			if t.Tok == token.DEFINE {
				for _, l := range t.Lhs {
					if id, ok := l.(*ast.Ident); ok {
						loc[id.Name] = true
					}
				}
			}
		case *ast.RangeStmt:
			if t.Tok == token.DEFINE {
				for _, l := range []ast.Expr{t.Key, t.Value} {
					if id, ok := l.(*ast.Ident); ok {
						loc[id.Name] = true
					}
				}
			}
		case *ast.ValueSpec:
			for _, id := range t.Names {
				loc[id.Name] = true
			}
		case *ast.FuncLit:
			add(t.Type.Params)
		}
		return true
	})
	return loc
}

// the tree / builder arguments that must come out of a call unchanged
var frozenArgs = map[string][]string{
	"compiler.Compiler.Compile": {"c", "program"},
	"parser.Builder.Build":      {"pb"},
	"lexer.Builder.Build":       {"lb"},
	"debug.ToString":            {"node"},
	"parser.newWithOptions":     {"opts"},
	"lexer.newWithOptions":      {"interceptors"},
}

func analyse(pkgName string, p *pkgInfo, e *effects) {
	vars := pkgVars(p)
	otherPkgVars := map[string]bool{"token.Keywords": true}
	for _, f := range p.sortedFiles() {
		for _, d := range f.Decls {
			fd, ok := d.(*ast.FuncDecl)
			if !ok || fd.Body == nil {
				continue
			}
			recvType, recvName := "", ""
			if fd.Recv != nil && len(fd.Recv.List) == 1 {
				recvType = strings.TrimPrefix(exprString(fd.Recv.List[0].Type), "*")
				if len(fd.Recv.List[0].Names) == 1 {
					recvName = fd.Recv.List[0].Names[0].Name
				}
			}
			fname := pkgName + "." + fd.Name.Name
			if recvType != "" {
				fname = pkgName + "." + recvType + "." + fd.Name.Name
			}
			loc := localNames(fd)
			isGlobal := func(x ast.Expr) (string, bool) {
				if sel, ok := x.(*ast.SelectorExpr); ok {
					if id, ok := sel.X.(*ast.Ident); ok && otherPkgVars[id.Name+"."+sel.Sel.Name] && !loc[id.Name] {
						return id.Name + "." + sel.Sel.Name, true
					}
				}
				id := rootIdent(x)
				if id == nil {
					return "", false
				}
				if vars[id.Name] && !loc[id.Name] {
					return pkgName + "." + id.Name, true
				}
				// token.Keywords[...] = ...
				if sel := selChain(stripIndex(x)); len(sel) >= 2 && otherPkgVars[sel[0]+"."+sel[1]] && !loc[sel[0]] {
					return sel[0] + "." + sel[1], true
				}
				return "", false
			}
			nodeMethod := pkgName == "ast" && (fd.Name.Name == "WriteTo" || fd.Name.Name == "Precedence") && recvType != "CodeWriter"
			frozen := frozenArgs[fname]
			if pkgName == "ast" && recvType == "CodeWriter" && fd.Type.Params != nil {
				// the printer hands slices of the tree (comment lists, ...) to the code
				// writer: every parameter of a CodeWriter method must come out unchanged
				for _, f := range fd.Type.Params.List {
					for _, n := range f.Names {
						frozen = append(frozen, n.Name)
					}
				}
			}
			// local names bound to (a part of) a frozen argument or of the receiver of a node
			// method are aliases of it: writes through them count (x := arg[1:]; x[i] = ...)
			recvAliases := map[string]bool{}
			aliasRoot := func(x ast.Expr) ast.Expr {
				if u, ok := x.(*ast.UnaryExpr); ok && u.Op == token.AND {
					x = u.X
				}
				switch x.(type) {
				case *ast.Ident, *ast.SelectorExpr, *ast.IndexExpr, *ast.SliceExpr, *ast.StarExpr, *ast.ParenExpr:
					return x
				}
				return nil
			}
			for pass := 0; pass < 3; pass++ {
				ast.Inspect(fd.Body, func(n ast.Node) bool {
					bind := func(lhs, rhs ast.Expr) {
						l, ok := lhs.(*ast.Ident)
						if !ok || l.Name == "_" {
							return
						}
						r := aliasRoot(rhs)
						if r == nil {
							return
						}
						id := rootIdent(r)
						if id == nil {
							return
						}
						if contains(frozen, id.Name) && !contains(frozen, l.Name) {
							frozen = append(frozen, l.Name)
						}
						if nodeMethod && (id.Name == recvName || recvAliases[id.Name]) {
							recvAliases[l.Name] = true
						}
					}
					switch t := n.(type) {
					case *ast.AssignStmt:
						if len(t.Lhs) == len(t.Rhs) {
							for i := range t.Lhs {
								bind(t.Lhs[i], t.Rhs[i])
							}
						}
					case *ast.RangeStmt:
						if t.Value != nil {
							bind(t.Value, t.X)
						}
					}
					return true
				})
			}
			noteWrite := func(lhs ast.Expr) {
				if _, isId := lhs.(*ast.Ident); isId && loc[lhs.(*ast.Ident).Name] {
					// assignment to a local variable itself (not through it)
					if !(len(frozen) > 0 && contains(frozen, lhs.(*ast.Ident).Name)) {
						return
					}
				}
				if g, ok := isGlobal(lhs); ok {
					e.globalWrites = append(e.globalWrites, fname+" writes "+g)
				}
				id := rootIdent(lhs)
				if id == nil {
					return
				}
				if _, plain := lhs.(*ast.Ident); plain {
					return // rebinding a local name does not mutate what it pointed to
				}
				if nodeMethod && (id.Name == recvName || recvAliases[id.Name]) {
					e.recvWrites = append(e.recvWrites, fname+" assigns "+exprString(stripIndex(lhs)))
				}
				if contains(frozen, id.Name) {
					e.argWrites = append(e.argWrites, fname+" assigns "+exprString(stripIndex(lhs)))
				}
			}
			ast.Inspect(fd.Body, func(n ast.Node) bool {
				switch t := n.(type) {
				case *ast.AssignStmt:
					if t.Tok != token.DEFINE {
						for _, l := range t.Lhs {
							noteWrite(l)
						}
					}
					// aliasing: a package-level variable used as a plain value
					for _, r := range t.Rhs {
						if id, ok := r.(*ast.Ident); ok && vars[id.Name] && !loc[id.Name] {
							e.globalAliases = append(e.globalAliases, fname+" aliases "+pkgName+"."+id.Name)
						}
						if u, ok := r.(*ast.UnaryExpr); ok && u.Op == token.AND {
							if id := rootIdent(u.X); id != nil && vars[id.Name] && !loc[id.Name] {
								e.globalAliases = append(e.globalAliases, fname+" takes the address of "+pkgName+"."+id.Name)
							}
						}
					}
				case *ast.IncDecStmt:
					noteWrite(t.X)
				case *ast.CallExpr:
					fn := exprString(t.Fun)
					if (fn == "delete" || fn == "clear" || fn == "maps.Copy" || fn == "copy" || inPlaceMutators[fn]) && len(t.Args) > 0 {
						noteWriteThrough := t.Args[0]
						if g, ok := isGlobal(noteWriteThrough); ok {
							e.globalWrites = append(e.globalWrites, fname+" mutates "+g+" with "+fn)
						}
						if id := rootIdent(noteWriteThrough); id != nil {
							if nodeMethod && (id.Name == recvName || recvAliases[id.Name]) {
								e.recvWrites = append(e.recvWrites, fname+" mutates "+exprString(noteWriteThrough)+" with "+fn)
							}
							if contains(frozen, id.Name) {
								if _, plain := noteWriteThrough.(*ast.Ident); !plain || fn != "copy" {
									e.argWrites = append(e.argWrites, fname+" mutates "+exprString(noteWriteThrough)+" with "+fn)
								}
							}
						}
					}
					// a package-level variable handed to another function (other than as
					// the source of maps.Copy / len / range) escapes
					for i, a := range t.Args {
						if id, ok := a.(*ast.Ident); ok && vars[id.Name] && !loc[id.Name] {
							if (fn == "maps.Copy" && i == 1) || fn == "len" {
								continue
							}
							e.globalAliases = append(e.globalAliases, fname+" passes "+pkgName+"."+id.Name+" to "+fn)
						}
					}
				case *ast.ReturnStmt:
					for _, r := range t.Results {
						if id, ok := r.(*ast.Ident); ok && vars[id.Name] && !loc[id.Name] {
							e.globalAliases = append(e.globalAliases, fname+" returns "+pkgName+"."+id.Name)
						}
					}
				case *ast.KeyValueExpr:
					if id, ok := t.Value.(*ast.Ident); ok && vars[id.Name] && !loc[id.Name] {
						e.globalAliases = append(e.globalAliases, fname+" stores "+pkgName+"."+id.Name+" in a composite literal")
					}
				}
				return true
			})
		}
	}
}

// library functions that rewrite the backing array of their first argument in place
var inPlaceMutators = map[string]bool{
	"slices.Reverse": true, "slices.Sort": true, "slices.SortFunc": true, "slices.SortStableFunc": true,
	"slices.Compact": true, "slices.CompactFunc": true, "slices.Delete": true, "slices.DeleteFunc": true,
	"slices.Insert": true, "slices.Replace": true,
	"sort.Slice": true, "sort.SliceStable": true, "sort.Sort": true, "sort.Stable": true,
	"sort.Strings": true, "sort.Ints": true, "sort.Float64s": true,
	"maps.DeleteFunc": true, "maps.Insert": true,
}

func stripIndex(x ast.Expr) ast.Expr {
	for {
		switch t := x.(type) {
		case *ast.IndexExpr:
			x = t.X
		case *ast.ParenExpr:
			x = t.X
		default:
			return x
		}
	}
}

func contains(l []string, s string) bool {
	for _, x := range l {
		if x == s {
			return true
		}
	}
	return false
}

func coqStringList(name string, l []string) string {
	sort.Strings(l)
	var b strings.Builder
	fmt.Fprintf(&b, "Definition %s : list string := [", name)
	for i, s := range l {
		if i > 0 {
			b.WriteString("; ")
		}
		fmt.Fprintf(&b, "\"%s\"", strings.ReplaceAll(s, "\"", "\"\""))
	}
	b.WriteString("]%string.\n")
	return b.String()
}

func genEffects(pkgs []*pkgInfo) string {
	var e effects
	names := []string{"token", "lexer", "parser", "ast", "sourcemap", "compiler", "debug"}
	for i, p := range pkgs {
		analyse(names[i], p, &e)
	}
	var b strings.Builder
	b.WriteString("(* GENERATED by /verif/translator (xjs2v) from /repo -- do not edit.\n   Syntactic write sets; see translator/effects.go for what is and is not detected. *)\n")
	b.WriteString("Require Import List String.\nImport ListNotations.\n\n")
	b.WriteString("(* functions that assign, delete from, clear or maps.Copy into a package-level variable *)\n")
	b.WriteString(coqStringList("global_var_writes", e.globalWrites))
	b.WriteString("\n(* places where a package-level variable is used as a plain value (could be mutated through the alias) *)\n")
	b.WriteString(coqStringList("global_var_aliases", e.globalAliases))
	b.WriteString("\n(* WriteTo / Precedence methods of tree nodes that assign through their receiver *)\n")
	b.WriteString(coqStringList("node_method_receiver_writes", e.recvWrites))
	b.WriteString("\n(* Compile / Build / ToString / newWithOptions assigning through the compiler, builder, tree or option arguments *)\n")
	b.WriteString(coqStringList("frozen_argument_writes", e.argWrites))
	return b.String()
}
