module xjs2v

go 1.23.0
