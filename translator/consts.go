package main

import (
	"fmt"
	"go/ast"
	"go/token"
	"strconv"
	"strings"
)

// constEnv holds the integer / string constants of every package, evaluated
// with Go's iota rules. Names are qualified "pkg.Name".
type constEnv struct {
	ints   map[string]int64
	strs   map[string]string
	order  map[string][]string // per package, declaration order of int constants
	typeOf map[string]string   // declared type name of a constant ("" if untyped)
	curPkg string
}

func newConstEnv() *constEnv {
	return &constEnv{ints: map[string]int64{}, strs: map[string]string{}, order: map[string][]string{}, typeOf: map[string]string{}}
}

func (e *constEnv) addPkg(name string, p *pkgInfo) {
	for _, f := range p.sortedFiles() {
		for _, d := range f.Decls {
			gd, ok := d.(*ast.GenDecl)
			if !ok || gd.Tok != token.CONST {
				continue
			}
			var lastValues []ast.Expr
			var lastType string
			for i, s := range gd.Specs {
				vs := s.(*ast.ValueSpec)
				values := vs.Values
				typ := ""
				if vs.Type != nil {
					typ = exprString(vs.Type)
				}
				if len(values) == 0 {
					values = lastValues
					if vs.Type == nil {
						typ = lastType
					}
				} else {
					lastValues = values
					lastType = typ
				}
				for j, id := range vs.Names {
					if j >= len(values) {
						die("%s: const %s without value", p.pos(vs), id.Name)
					}
					if id.Name == "_" {
						continue
					}
					q := name + "." + id.Name
					v := values[j]
					if bl, ok := v.(*ast.BasicLit); ok && bl.Kind == token.STRING {
						s, err := strconv.Unquote(bl.Value)
						if err != nil {
							die("%s: %v", p.pos(v), err)
						}
						e.strs[q] = s
						continue
					}
					n, err := e.evalInt(name, v, int64(i))
					if err != nil {
						die("%s: const %s: %v", p.pos(v), id.Name, err)
					}
					e.ints[q] = n
					e.typeOf[q] = typ
					e.order[name] = append(e.order[name], id.Name)
				}
			}
		}
	}
}

func exprString(x ast.Expr) string {
	switch t := x.(type) {
	case *ast.Ident:
		return t.Name
	case *ast.SelectorExpr:
		return exprString(t.X) + "." + t.Sel.Name
	case *ast.StarExpr:
		return "*" + exprString(t.X)
	case *ast.ArrayType:
		return "[]" + exprString(t.Elt)
	case *ast.BasicLit:
		return t.Value
	case *ast.ParenExpr:
		return "(" + exprString(t.X) + ")"
	case *ast.UnaryExpr:
		return t.Op.String() + exprString(t.X)
	case *ast.BinaryExpr:
		return exprString(t.X) + " " + t.Op.String() + " " + exprString(t.Y)
	case *ast.IndexExpr:
		return exprString(t.X) + "[" + exprString(t.Index) + "]"
	case *ast.CallExpr:
		args := make([]string, len(t.Args))
		for i, a := range t.Args {
			args[i] = exprString(a)
		}
		return exprString(t.Fun) + "(" + strings.Join(args, ", ") + ")"
	}
	return fmt.Sprintf("%T", x)
}

func (e *constEnv) evalInt(pkg string, x ast.Expr, iota int64) (int64, error) {
	switch t := x.(type) {
	case *ast.BasicLit:
		switch t.Kind {
		case token.INT:
			n, err := strconv.ParseInt(t.Value, 0, 64)
			return n, err
		case token.CHAR:
			s, err := strconv.Unquote(t.Value)
			if err != nil {
				return 0, err
			}
			r := []rune(s)
			if len(r) != 1 {
				return 0, fmt.Errorf("bad char literal %s", t.Value)
			}
			return int64(r[0]), nil
		}
	case *ast.Ident:
		if t.Name == "iota" {
			return iota, nil
		}
		if v, ok := e.ints[pkg+"."+t.Name]; ok {
			return v, nil
		}
	case *ast.SelectorExpr:
		if id, ok := t.X.(*ast.Ident); ok {
			if v, ok := e.ints[id.Name+"."+t.Sel.Name]; ok {
				return v, nil
			}
		}
	case *ast.ParenExpr:
		return e.evalInt(pkg, t.X, iota)
	case *ast.BinaryExpr:
		a, err := e.evalInt(pkg, t.X, iota)
		if err != nil {
			return 0, err
		}
		b, err := e.evalInt(pkg, t.Y, iota)
		if err != nil {
			return 0, err
		}
		switch t.Op {
		case token.ADD:
			return a + b, nil
		case token.SUB:
			return a - b, nil
		case token.MUL:
			return a * b, nil
		case token.SHL:
			return a << uint(b), nil
		}
	}
	return 0, fmt.Errorf("unsupported constant expression %s", exprString(x))
}

// constName resolves an expression to a qualified constant name.
func (e *constEnv) constName(pkg string, x ast.Expr) (string, bool) {
	switch t := x.(type) {
	case *ast.Ident:
		q := pkg + "." + t.Name
		if _, ok := e.ints[q]; ok {
			return q, true
		}
	case *ast.SelectorExpr:
		if id, ok := t.X.(*ast.Ident); ok {
			q := id.Name + "." + t.Sel.Name
			if _, ok := e.ints[q]; ok {
				return q, true
			}
		}
	}
	return "", false
}

// coqConst is the Gallina identifier of a Go constant.
func coqConst(q string) string {
	parts := strings.SplitN(q, ".", 2)
	switch parts[0] {
	case "token":
		return "T_" + parts[1]
	case "parser":
		return "P_" + parts[1]
	case "ast":
		return "A_" + parts[1]
	}
	return parts[0] + "_" + parts[1]
}

func coqStr(s string) string {
	var b strings.Builder
	b.WriteString("[")
	for i := 0; i < len(s); i++ {
		if i > 0 {
			b.WriteString("; ")
		}
		fmt.Fprintf(&b, "%d", s[i])
	}
	b.WriteString("]%N")
	return b.String()
}
