package main

import (
	"go/ast"
	"reflect"
)

// Inlining of unexported helper functions of package ast that take the code writer as
// their first parameter (an "extract function" refactoring of a WriteTo body): the call
// is replaced by the helper's body with the parameters substituted by the arguments.

// while set, cloneSubst replaces every index expression x[i] by the identifier `by`
type indexPattern struct {
	x, i string
	by   *ast.Ident
}

var indexRepl *indexPattern

// cloneSubst returns a deep copy of an AST fragment in which every identifier named in
// env is replaced by (a copy of) the expression it is bound to.
func cloneSubst(v reflect.Value, env map[string]ast.Expr) reflect.Value {
	switch v.Kind() {
	case reflect.Interface:
		if v.IsNil() {
			return v
		}
		if ie, ok := v.Interface().(*ast.IndexExpr); ok && indexRepl != nil &&
			exprString(ie.X) == indexRepl.x && exprString(ie.Index) == indexRepl.i {
			out := reflect.New(v.Type()).Elem()
			out.Set(reflect.ValueOf(indexRepl.by))
			return out
		}
		if id, ok := v.Interface().(*ast.Ident); ok {
			if e, bound := env[id.Name]; bound {
				out := reflect.New(v.Type()).Elem()
				out.Set(cloneSubst(reflect.ValueOf(e), nil))
				return out
			}
		}
		out := reflect.New(v.Type()).Elem()
		out.Set(cloneSubst(v.Elem(), env))
		return out
	case reflect.Ptr:
		if v.IsNil() {
			return v
		}
		switch v.Interface().(type) {
		case *ast.Object, *ast.Scope:
			return reflect.Zero(v.Type()) // resolver links are not needed (and are cyclic)
		}
		out := reflect.New(v.Type().Elem())
		out.Elem().Set(cloneSubst(v.Elem(), env))
		return out
	case reflect.Struct:
		out := reflect.New(v.Type()).Elem()
		for i := 0; i < v.NumField(); i++ {
			if out.Field(i).CanSet() {
				out.Field(i).Set(cloneSubst(v.Field(i), env))
			}
		}
		return out
	case reflect.Slice:
		if v.IsNil() {
			return v
		}
		out := reflect.MakeSlice(v.Type(), v.Len(), v.Len())
		for i := 0; i < v.Len(); i++ {
			out.Index(i).Set(cloneSubst(v.Index(i), env))
		}
		return out
	}
	return v
}

// inlineHelper recognises `helper(cw, args...)` for a top-level function of the package
// whose first parameter is the code writer, and returns its body with the other
// parameters replaced by the arguments (nil if the call is not of that form).
func (c *prCtx) inlineHelper(call *ast.CallExpr) []ast.Stmt {
	id, ok := call.Fun.(*ast.Ident)
	if !ok || len(call.Args) == 0 || exprString(call.Args[0]) != "cw" {
		return nil
	}
	fd := findFunc(c.p, "", id.Name)
	if fd == nil || fd.Body == nil || fd.Type.Results != nil {
		return nil
	}
	var params []string
	for _, f := range fd.Type.Params.List {
		for _, n := range f.Names {
			params = append(params, n.Name)
		}
	}
	if len(params) != len(call.Args) || params[0] != "cw" {
		return nil
	}
	c.inlineDepth++
	if c.inlineDepth > 8 {
		c.fail(call, "helper calls nested too deeply (recursion?)")
	}
	env := map[string]ast.Expr{}
	for i := 1; i < len(params); i++ {
		env[params[i]] = call.Args[i]
	}
	body := cloneSubst(reflect.ValueOf(fd.Body), env).Interface().(*ast.BlockStmt)
	return body.List
}
