// xjs2v regenerates coq/Gen/*.v from the Go sources of xjslang/xjs.
// It understands a deliberately small Go fragment and fails loudly on
// anything else; a failure is reported by the checks as a broken tie.
package main

import (
	"fmt"
	"go/ast"
	"go/parser"
	"go/token"
	"os"
	"path/filepath"
	"sort"
	"strings"
)

type pkgInfo struct {
	name  string
	fset  *token.FileSet
	files map[string]*ast.File
}

var repo string

// dieMsg is what die() panics with while a single output file is being generated
type dieMsg string

var inGen bool

func die(format string, a ...any) {
	msg := fmt.Sprintf(format, a...)
	if inGen {
		panic(dieMsg(msg))
	}
	fmt.Fprintf(os.Stderr, "xjs2v: %s\n", msg)
	os.Exit(2)
}

// generate runs one generator; a refusal of the source affects only its own output
// file, which then keeps its previous (stale) content. Reported as "FAILED <file>: why".
func generate(out, name string, gen func() string) bool {
	ok := true
	func() {
		defer func() {
			if r := recover(); r != nil {
				m, isDie := r.(dieMsg)
				if !isDie {
					panic(r)
				}
				fmt.Fprintf(os.Stderr, "xjs2v: FAILED %s: %s\n", name, string(m))
				ok = false
			}
		}()
		inGen = true
		content := gen()
		inGen = false
		writeIfChanged(filepath.Join(out, name), content)
	}()
	inGen = false
	return ok
}

func loadPkg(dir string) *pkgInfo {
	fset := token.NewFileSet()
	pkgs, err := parser.ParseDir(fset, filepath.Join(repo, dir), func(fi os.FileInfo) bool {
		return !strings.HasSuffix(fi.Name(), "_test.go")
	}, parser.ParseComments)
	if err != nil {
		die("parse %s: %v", dir, err)
	}
	for name, p := range pkgs {
		return &pkgInfo{name: name, fset: fset, files: p.Files}
	}
	die("no package in %s", dir)
	return nil
}

func (p *pkgInfo) sortedFiles() []*ast.File {
	names := make([]string, 0, len(p.files))
	for n := range p.files {
		names = append(names, n)
	}
	sort.Strings(names)
	out := make([]*ast.File, 0, len(names))
	for _, n := range names {
		out = append(out, p.files[n])
	}
	return out
}

func (p *pkgInfo) pos(n ast.Node) string { return p.fset.Position(n.Pos()).String() }

func writeIfChanged(path, content string) {
	old, err := os.ReadFile(path)
	if err == nil && string(old) == content {
		return
	}
	if err := os.MkdirAll(filepath.Dir(path), 0o755); err != nil {
		die("%v", err)
	}
	if err := os.WriteFile(path, []byte(content), 0o644); err != nil {
		die("%v", err)
	}
}

func main() {
	if len(os.Args) != 3 {
		die("usage: xjs2v <repo> <outdir>")
	}
	repo = os.Args[1]
	out := os.Args[2]
	tok := loadPkg("token")
	lex := loadPkg("lexer")
	par := loadPkg("parser")
	as := loadPkg("ast")
	sm := loadPkg("sourcemap")
	comp := loadPkg("compiler")
	dbg := loadPkg("debug")

	env := newConstEnv()
	env.addPkg("token", tok)
	env.addPkg("parser", par)
	env.addPkg("ast", as)
	env.addPkg("sourcemap", sm)
	env.addPkg("lexer", lex)

	ok := generate(out, "Effects.v", func() string { return genEffects([]*pkgInfo{tok, lex, par, as, sm, comp, dbg}) })
	ok = generate(out, "Tables.v", func() string { return genTables(env, tok, lex, par, as, sm) }) && ok
	ok = generate(out, "Preds.v", func() string { return genPreds(env, lex) }) && ok
	ok = generate(out, "Printer.v", func() string { return genPrinter(env, as) }) && ok
	if !ok {
		os.Exit(3) // partial: the files named in the FAILED lines are stale
	}
}
