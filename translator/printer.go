package main

import (
	"fmt"
	"go/ast"
	"go/format"
	"go/token"
	"reflect"
	"strconv"
	"strings"
)

// Translation of the WriteTo / Precedence methods of package ast into a Gallina
// function from trees to lists of writer operations (coq/Gen/Printer.v).

type fieldInfo struct {
	goName string
	goType string // as exprString renders it
	v      string // Gallina variable
	kind   string // token | expr | stmt | block | ident | optident | exprs | idents | stmts | props | str | bool
}

type nodeInfo struct {
	goType string
	ctor   string // Gallina constructor ("" for Identifier / Program, handled specially)
	isExpr bool
	fields []fieldInfo
}

var nodes = []nodeInfo{
	{"LetStatement", "SLet", false, []fieldInfo{{"Token", "token.Token", "t", "token"}, {"Name", "*Identifier", "name", "ident"}, {"Value", "Expression", "value", "expr"}}},
	{"ReturnStatement", "SReturn", false, []fieldInfo{{"Token", "token.Token", "t", "token"}, {"ReturnValue", "Expression", "value", "expr"}}},
	{"ExpressionStatement", "SExpr", false, []fieldInfo{{"Expression", "Expression", "e", "expr"}}},
	{"FunctionDeclaration", "SFunc", false, []fieldInfo{{"Token", "token.Token", "t", "token"}, {"Name", "*Identifier", "name", "ident"}, {"Parameters", "[]*Identifier", "params", "idents"}, {"Body", "*BlockStatement", "body", "block"}}},
	{"BlockStatement", "SBlock", false, []fieldInfo{{"Token", "token.Token", "t", "token"}, {"Statements", "[]Statement", "stmts", "stmts"}, {"RBrace", "token.Token", "rb", "token"}}},
	{"IfStatement", "SIf", false, []fieldInfo{{"Token", "token.Token", "t", "token"}, {"Condition", "Expression", "cond", "expr"}, {"ThenBranch", "Statement", "thn", "stmt"}, {"ElseBranch", "Statement", "els", "stmt"}}},
	{"WhileStatement", "SWhile", false, []fieldInfo{{"Token", "token.Token", "t", "token"}, {"Condition", "Expression", "cond", "expr"}, {"Body", "Statement", "body", "stmt"}}},
	{"ForStatement", "SFor", false, []fieldInfo{{"Token", "token.Token", "t", "token"}, {"Init", "Expression", "init", "expr"}, {"Condition", "Expression", "cond", "expr"}, {"Update", "Expression", "upd", "expr"}, {"Body", "Statement", "body", "stmt"}}},
	{"IntegerLiteral", "EInt", true, []fieldInfo{{"Token", "token.Token", "t", "token"}}},
	{"FloatLiteral", "EFloat", true, []fieldInfo{{"Token", "token.Token", "t", "token"}}},
	{"StringLiteral", "EString", true, []fieldInfo{{"Token", "token.Token", "t", "token"}, {"Value", "string", "v", "str"}}},
	{"MultiStringLiteral", "ERaw", true, []fieldInfo{{"Token", "token.Token", "t", "token"}, {"Value", "string", "v", "str"}}},
	{"BooleanLiteral", "EBool", true, []fieldInfo{{"Token", "token.Token", "t", "token"}, {"Value", "bool", "b", "bool"}}},
	{"NullLiteral", "ENull", true, []fieldInfo{{"Token", "token.Token", "t", "token"}}},
	{"LetExpression", "ELet", true, []fieldInfo{{"Token", "token.Token", "t", "token"}, {"Name", "*Identifier", "name", "ident"}, {"Value", "Expression", "value", "expr"}}},
	{"BinaryExpression", "EBinary", true, []fieldInfo{{"Token", "token.Token", "t", "token"}, {"Left", "Expression", "l", "expr"}, {"Operator", "string", "op", "str"}, {"Right", "Expression", "r", "expr"}}},
	{"UnaryExpression", "EUnary", true, []fieldInfo{{"Token", "token.Token", "t", "token"}, {"Operator", "string", "op", "str"}, {"Right", "Expression", "r", "expr"}}},
	{"PostfixExpression", "EPostfix", true, []fieldInfo{{"Token", "token.Token", "t", "token"}, {"Left", "Expression", "l", "expr"}, {"Operator", "string", "op", "str"}}},
	{"GroupedExpression", "EGroup", true, []fieldInfo{{"Token", "token.Token", "t", "token"}, {"Expression", "Expression", "e", "expr"}, {"RParen", "token.Token", "rp", "token"}}},
	{"CallExpression", "ECall", true, []fieldInfo{{"Token", "token.Token", "t", "token"}, {"Function", "Expression", "fn", "expr"}, {"Arguments", "[]Expression", "args", "exprs"}}},
	{"MemberExpression", "EMember", true, []fieldInfo{{"Token", "token.Token", "t", "token"}, {"Object", "Expression", "obj", "expr"}, {"Property", "Expression", "prop", "expr"}, {"Computed", "bool", "computed", "bool"}}},
	{"AssignmentExpression", "EAssign", true, []fieldInfo{{"Token", "token.Token", "t", "token"}, {"Left", "Expression", "l", "expr"}, {"Value", "Expression", "v", "expr"}}},
	{"CompoundAssignmentExpression", "ECompound", true, []fieldInfo{{"Token", "token.Token", "t", "token"}, {"Left", "Expression", "l", "expr"}, {"Operator", "string", "op", "str"}, {"Value", "Expression", "v", "expr"}}},
	{"FunctionExpression", "EFunc", true, []fieldInfo{{"Token", "token.Token", "t", "token"}, {"Name", "*Identifier", "name", "optident"}, {"Parameters", "[]*Identifier", "params", "idents"}, {"Body", "*BlockStatement", "body", "block"}}},
	{"ArrayLiteral", "EArray", true, []fieldInfo{{"Token", "token.Token", "t", "token"}, {"Elements", "[]Expression", "elems", "exprs"}, {"RBracket", "token.Token", "rb", "token"}}},
	{"ObjectLiteral", "EObject", true, []fieldInfo{{"Token", "token.Token", "t", "token"}, {"Properties", "[]ObjectProperty", "props", "props"}, {"RBrace", "token.Token", "rb", "token"}}},
}

var identNode = nodeInfo{"Identifier", "", true, []fieldInfo{{"Token", "token.Token", "(id_tok i)", "token"}, {"Value", "string", "(id_value i)", "str"}}}
var programNode = nodeInfo{"Program", "", false, []fieldInfo{{"Statements", "[]Statement", "(p_stmts p)", "stmts"}, {"EOF", "token.Token", "(p_eof p)", "token"}}}

type prCtx struct {
	p      *pkgInfo
	env    *constEnv
	node   *nodeInfo
	recv   string
	locals map[string]string // local variable -> kind: "bool" | "int" | loop vars "expr" | "stmt" | "ident" | "prop"
	fresh  int
	// depth of helper inlining (inline.go)
	inlineDepth int
}

func (c *prCtx) fail(n ast.Node, format string, a ...any) {
	die("%s: %s (printer translation of %s)", c.p.pos(n), fmt.Sprintf(format, a...), c.node.goType)
}

func (c *prCtx) field(name string, at ast.Node) fieldInfo {
	for _, f := range c.node.fields {
		if f.goName == name {
			return f
		}
	}
	c.fail(at, "unknown field %s", name)
	return fieldInfo{}
}

func findStruct(p *pkgInfo, name string) *ast.StructType {
	for _, f := range p.sortedFiles() {
		for _, d := range f.Decls {
			gd, ok := d.(*ast.GenDecl)
			if !ok || gd.Tok != token.TYPE {
				continue
			}
			for _, s := range gd.Specs {
				ts := s.(*ast.TypeSpec)
				if ts.Name.Name == name {
					if st, ok := ts.Type.(*ast.StructType); ok {
						return st
					}
				}
			}
		}
	}
	return nil
}

func checkStruct(p *pkgInfo, n *nodeInfo) {
	st := findStruct(p, n.goType)
	if st == nil {
		die("ast.%s: struct not found", n.goType)
	}
	var got []string
	for _, f := range st.Fields.List {
		for _, nm := range f.Names {
			got = append(got, nm.Name+" "+exprString(f.Type))
		}
	}
	var want []string
	for _, f := range n.fields {
		want = append(want, f.goName+" "+f.goType)
	}
	if strings.Join(got, ";") != strings.Join(want, ";") {
		die("ast.%s: fields changed: have [%s], the tree model expects [%s]", n.goType, strings.Join(got, "; "), strings.Join(want, "; "))
	}
}

// selector chain as a list: x.A.B -> ["x","A","B"]
func selChain(x ast.Expr) []string {
	switch t := x.(type) {
	case *ast.Ident:
		return []string{t.Name}
	case *ast.SelectorExpr:
		c := selChain(t.X)
		if c == nil {
			return nil
		}
		return append(c, t.Sel.Name)
	}
	return nil
}

// tokenAccess renders x.<TokField>.<Attr...>
func (c *prCtx) tokenAccess(chain []string, at ast.Node) string {
	// chain[0] is the receiver
	f := c.field(chain[1], at)
	if f.kind != "token" {
		c.fail(at, "field %s is not a token", chain[1])
	}
	rest := chain[2:]
	switch strings.Join(rest, ".") {
	case "LeadingComments":
		return "(t_comments " + f.v + ")"
	case "Start":
		return "(t_start " + f.v + ")"
	case "Start.Line":
		return "(pline (t_start " + f.v + "))"
	case "Start.Column":
		return "(pcol (t_start " + f.v + "))"
	case "Literal":
		return "(t_lit " + f.v + ")"
	case "Type":
		return "(t_type " + f.v + ")"
	}
	c.fail(at, "unsupported token attribute %s", strings.Join(rest, "."))
	return ""
}

func goStrLit(x ast.Expr) (string, bool) {
	bl, ok := x.(*ast.BasicLit)
	if !ok || bl.Kind != token.STRING {
		return "", false
	}
	s, err := strconv.Unquote(bl.Value)
	return s, err == nil
}

// strExpr renders a Go string-valued argument
func (c *prCtx) strExpr(x ast.Expr) string {
	if s, ok := goStrLit(x); ok {
		return coqStr(s)
	}
	if call, ok := x.(*ast.CallExpr); ok && exprString(call.Fun) == "strings.ReplaceAll" && len(call.Args) == 3 {
		a, ok1 := goStrLit(call.Args[1])
		b, ok2 := goStrLit(call.Args[2])
		if ok1 && ok2 {
			return fmt.Sprintf("(replace_all %s %s %s)", c.strExpr(call.Args[0]), coqStr(a), coqStr(b))
		}
	}
	ch := selChain(x)
	if len(ch) == 2 && ch[0] == c.recv {
		f := c.field(ch[1], x)
		if f.kind == "str" {
			return f.v
		}
	}
	if len(ch) >= 3 && ch[0] == c.recv {
		return c.tokenAccess(ch, x)
	}
	c.fail(x, "unsupported string expression")
	return ""
}

func (c *prCtx) runeLit(x ast.Expr) string {
	bl, ok := x.(*ast.BasicLit)
	if !ok || bl.Kind != token.CHAR {
		c.fail(x, "WriteRune argument is not a character literal")
	}
	s, err := strconv.Unquote(bl.Value)
	if err != nil || len(s) != 1 || s[0] >= 0x80 {
		c.fail(x, "WriteRune argument is not an ASCII character")
	}
	return fmt.Sprintf("%d%%N", s[0])
}

// childWrite renders <x>.WriteTo(cw) for a field or loop variable
func (c *prCtx) childWrite(x ast.Expr) string {
	ch := selChain(x)
	if ch == nil {
		c.fail(x, "unsupported WriteTo receiver")
	}
	if len(ch) == 1 {
		switch c.locals[ch[0]] {
		case "expr":
			return "write_expr " + ch[0]
		case "stmt":
			return "write_stmt " + ch[0]
		case "ident":
			return "write_ident " + ch[0]
		}
		c.fail(x, "unknown loop variable %s", ch[0])
	}
	if len(ch) == 2 && ch[0] == c.recv {
		f := c.field(ch[1], x)
		switch f.kind {
		case "expr":
			return "write_expr " + f.v
		case "stmt", "block":
			return "write_stmt " + f.v
		case "ident":
			return "write_ident " + f.v
		case "optident":
			// only reachable under an `if x.Name != nil` guard, which binds f.v+"'"
			return "write_ident " + f.v + "'"
		}
		c.fail(x, "field %s cannot be written", ch[1])
	}
	if len(ch) == 2 && c.locals[ch[0]] == "prop" {
		switch ch[1] {
		case "Key":
			return "write_expr (fst " + ch[0] + ")"
		case "Value":
			return "write_expr (snd " + ch[0] + ")"
		}
	}
	c.fail(x, "unsupported WriteTo receiver %s", strings.Join(ch, "."))
	return ""
}

// precCall recognises <e>.Precedence() and returns the Gallina expr for e (of kind expr) or "self"
func (c *prCtx) precCall(x ast.Expr) (string, bool) {
	call, ok := x.(*ast.CallExpr)
	if !ok || len(call.Args) != 0 {
		return "", false
	}
	sel, ok := call.Fun.(*ast.SelectorExpr)
	if !ok || sel.Sel.Name != "Precedence" {
		return "", false
	}
	ch := selChain(sel.X)
	if len(ch) == 1 && ch[0] == c.recv {
		return "self", true
	}
	if len(ch) == 2 && ch[0] == c.recv {
		f := c.field(ch[1], x)
		if f.kind == "expr" {
			return f.v, true
		}
	}
	c.fail(x, "unsupported Precedence() receiver")
	return "", false
}

func (c *prCtx) intExpr(x ast.Expr) string {
	if id, ok := x.(*ast.Ident); ok {
		if c.locals[id.Name] == "int" {
			return id.Name
		}
		if q, ok := c.env.constName("ast", x); ok {
			return coqConst(q)
		}
	}
	c.fail(x, "unsupported integer expression")
	return ""
}

// cond renders a boolean condition. If it needs the precedence of a possibly-nil child
// the guard is returned: (guardExpr, guardVar) means "match prec_opt guardExpr with Some guardVar".
func (c *prCtx) cond(x ast.Expr) (code string, guardExpr, guardVar string) {
	switch t := x.(type) {
	case *ast.ParenExpr:
		return c.cond(t.X)
	case *ast.UnaryExpr:
		if t.Op == token.NOT {
			code, ge, gv := c.cond(t.X)
			if strings.HasPrefix(code, "negb (") && strings.HasSuffix(code, ")") && ge == "" {
				return code[len("negb (") : len(code)-1], ge, gv // !(x != nil)  =  x == nil
			}
			return "negb (" + code + ")", ge, gv
		}
	case *ast.Ident:
		if c.locals[t.Name] == "bool" {
			return t.Name, "", ""
		}
	case *ast.SelectorExpr:
		ch := selChain(t)
		if len(ch) == 2 && ch[0] == c.recv {
			f := c.field(ch[1], x)
			if f.kind == "bool" {
				return f.v, "", ""
			}
		}
	case *ast.CallExpr:
		// isDecimalIntegerLiteral(recv.F) for an expression field F: the hand-written
		// PrinterLib.is_decimal_int (the Go helper must exist and read as expected)
		if id, ok := t.Fun.(*ast.Ident); ok && id.Name == "isDecimalIntegerLiteral" && len(t.Args) == 1 {
			checkIsDecimalIntegerLiteral(c.p)
			ch := selChain(t.Args[0])
			if len(ch) == 2 && ch[0] == c.recv {
				if f := c.field(ch[1], x); f.kind == "expr" {
					return "is_decimal_int " + f.v, "", ""
				}
			}
			c.fail(x, "isDecimalIntegerLiteral of something that is not an expression field")
		}
	case *ast.BinaryExpr:
		if t.Op == token.LAND || t.Op == token.LOR {
			// Go evaluates the right operand only when needed; both sides are pure and total
			// here (no precedence guard, hence no nil dereference), so andb / orb is exact
			l, lg, _ := c.cond(t.X)
			r, rg, _ := c.cond(t.Y)
			if lg != "" || rg != "" {
				c.fail(x, "&& / || over a condition that reads the precedence of a child")
			}
			op := "andb"
			if t.Op == token.LOR {
				op = "orb"
			}
			return fmt.Sprintf("%s (%s) (%s)", op, l, r), "", ""
		}
		if t.Op == token.NEQ || t.Op == token.EQL {
			if id, ok := t.Y.(*ast.Ident); ok && id.Name == "nil" {
				ch := selChain(t.X)
				if len(ch) == 2 && ch[0] == c.recv {
					f := c.field(ch[1], x)
					var test string
					switch f.kind {
					case "expr":
						test = "is_enil " + f.v
					case "stmt", "block":
						test = "is_snil " + f.v
					case "optident":
						test = "is_none " + f.v
					default:
						c.fail(x, "nil test on field of kind %s", f.kind)
					}
					if t.Op == token.NEQ {
						return "negb (" + test + ")", "", ""
					}
					return test, "", ""
				}
			}
		}
		if t.Op == token.LSS || t.Op == token.LEQ {
			op := "<?"
			if t.Op == token.LEQ {
				op = "<=?"
			}
			if e, ok := c.precCall(t.X); ok && e != "self" {
				c.fresh++
				v := fmt.Sprintf("pv%d", c.fresh)
				return fmt.Sprintf("(%s %s %s)", v, op, c.intExpr(t.Y)), e, v
			}
		}
	}
	c.fail(x, "unsupported condition")
	return "", "", ""
}

// checkIsDecimalIntegerLiteral: PrinterLib.is_decimal_int is hand-written Gallina; the Go
// helper it stands for must exist in package ast and read exactly as the text below
// (modulo layout and comments), otherwise the translation is refused.
const isDecimalIntegerLiteralWant = `func isDecimalIntegerLiteral(e Expression) bool {
	il, ok := e.(*IntegerLiteral)
	if !ok {
		return false
	}
	for i := 0; i < len(il.Token.Literal); i++ {
		if c := il.Token.Literal[i]; c < '0' || c > '9' {
			return false
		}
	}
	return true
}`

func checkIsDecimalIntegerLiteral(p *pkgInfo) {
	fd := findFunc(p, "", "isDecimalIntegerLiteral")
	if fd == nil || fd.Body == nil {
		die("ast.isDecimalIntegerLiteral: function not found (PrinterLib.is_decimal_int models it)")
	}
	cp := *fd
	cp.Doc = nil
	var b strings.Builder
	if err := format.Node(&b, p.fset, &cp); err != nil {
		die("%s: cannot render isDecimalIntegerLiteral: %v", p.pos(fd), err)
	}
	norm := func(s string) string { return strings.Join(strings.Fields(s), " ") }
	if norm(b.String()) != norm(isDecimalIntegerLiteralWant) {
		die("%s: isDecimalIntegerLiteral changed: PrinterLib.is_decimal_int models\n%s\nbut the source reads\n%s", p.pos(fd), isDecimalIntegerLiteralWant, b.String())
	}
}

func guardWrap(guardExpr, guardVar, body string) string {
	if guardExpr == "" {
		return body
	}
	return fmt.Sprintf("match prec_opt %s with None => [WPanic] | Some %s => %s end", guardExpr, guardVar, body)
}

// stmts renders a statement list followed by `rest` (a Gallina list wop expression)
func (c *prCtx) stmts(list []ast.Stmt, rest string) string {
	if len(list) == 0 {
		return rest
	}
	tail := func() string { return c.stmts(list[1:], rest) }
	switch s := list[0].(type) {
	case *ast.ExprStmt:
		call, ok := s.X.(*ast.CallExpr)
		if !ok {
			c.fail(s, "unsupported statement")
		}
		if inl := c.inlineHelper(call); inl != nil {
			code := c.stmts(inl, "[]")
			c.inlineDepth--
			return "(" + code + ") ++ " + tail()
		}
		sel, ok := call.Fun.(*ast.SelectorExpr)
		if !ok {
			c.fail(s, "unsupported call")
		}
		if sel.Sel.Name == "WriteTo" {
			if len(call.Args) != 1 || exprString(call.Args[0]) != "cw" {
				c.fail(s, "WriteTo argument")
			}
			return "(" + c.childWrite(sel.X) + ") ++ " + tail()
		}
		if exprString(sel.X) != "cw" {
			c.fail(s, "unsupported call %s", exprString(call.Fun))
		}
		var op string
		args := call.Args
		need := func(n int) {
			if len(args) != n {
				c.fail(s, "cw.%s with %d arguments", sel.Sel.Name, len(args))
			}
		}
		switch sel.Sel.Name {
		case "WriteString":
			need(1)
			op = "WString " + c.strExpr(args[0])
		case "WriteRune":
			need(1)
			op = "WRune " + c.runeLit(args[0])
		case "WriteSemi":
			need(0)
			op = "WSemi"
		case "WriteSpace":
			need(0)
			op = "WSpace"
		case "WriteNewline":
			need(0)
			op = "WNewline"
		case "WriteIndent":
			need(0)
			op = "WIndent"
		case "IncreaseIndent":
			need(0)
			op = "WIncIndent"
		case "DecreaseIndent":
			need(0)
			op = "WDecIndent"
		case "WriteLeadingComments":
			need(1)
			ch := selChain(args[0])
			if len(ch) < 3 || ch[0] != c.recv {
				c.fail(s, "WriteLeadingComments argument")
			}
			op = "WComments " + c.tokenAccess(ch, s)
		case "AddMapping":
			need(1)
			ch := selChain(args[0])
			if len(ch) < 3 || ch[0] != c.recv {
				c.fail(s, "AddMapping argument")
			}
			op = "WMapping " + c.tokenAccess(ch, s)
		case "AddNamedMapping":
			need(3)
			c1, c2 := selChain(args[0]), selChain(args[1])
			if len(c1) < 3 || len(c2) < 3 {
				c.fail(s, "AddNamedMapping arguments")
			}
			op = fmt.Sprintf("WNamedMapping %s %s %s", c.tokenAccess(c1, s), c.tokenAccess(c2, s), c.strExpr(args[2]))
		case "avoidFusion":
			need(1)
			op = "WAvoidFusion " + c.strExpr(args[0])
		default:
			c.fail(s, "unknown writer method %s", sel.Sel.Name)
		}
		return "(" + op + ") :: " + tail()
	case *ast.AssignStmt:
		if s.Tok != token.DEFINE || len(s.Lhs) != 1 || len(s.Rhs) != 1 {
			c.fail(s, "unsupported assignment")
		}
		name := exprString(s.Lhs[0])
		// a local name for a field of the receiver (x := recv.F): the remaining statements
		// are translated with the field written out again (the name must not be reassigned)
		if ch := selChain(s.Rhs[0]); len(ch) == 2 && ch[0] == c.recv {
			if _, isField := s.Rhs[0].(*ast.SelectorExpr); isField {
				for _, st := range list[1:] {
					ast.Inspect(st, func(n ast.Node) bool {
						switch t := n.(type) {
						case *ast.AssignStmt:
							for _, l := range t.Lhs {
								if exprString(l) == name {
									c.fail(t, "local alias %s of a field is assigned again", name)
								}
							}
						case *ast.IncDecStmt:
							if exprString(t.X) == name {
								c.fail(t, "local alias %s of a field is assigned again", name)
							}
						}
						return true
					})
				}
				restStmts := cloneSubst(reflect.ValueOf(list[1:]), map[string]ast.Expr{name: s.Rhs[0]}).Interface().([]ast.Stmt)
				return c.stmts(restStmts, rest)
			}
		}
		if e, ok := c.precCall(s.Rhs[0]); ok {
			if e != "self" {
				c.fail(s, "precedence of a child bound to a variable")
			}
			c.locals[name] = "int"
			return fmt.Sprintf("let %s := self_prec in %s", name, tail())
		}
		code, ge, gv := c.cond(s.Rhs[0])
		c.locals[name] = "bool"
		return guardWrap(ge, gv, fmt.Sprintf("let %s := %s in %s", name, code, tail()))
	case *ast.IfStmt:
		if s.Init != nil {
			c.fail(s, "if with init")
		}
		// early return: if X { A...; return }  =  if X then A else <the rest>
		if n := len(s.Body.List); n >= 1 && s.Else == nil {
			if r, ok := s.Body.List[n-1].(*ast.ReturnStmt); ok && len(r.Results) == 0 {
				code, ge, gv := c.cond(s.Cond)
				thenS := c.stmts(s.Body.List[:n-1], "[]")
				return guardWrap(ge, gv, fmt.Sprintf("if %s then %s else %s", code, thenS, tail()))
			}
		}
		// optional identifier: if x.Name != nil { ... }
		if be, ok := s.Cond.(*ast.BinaryExpr); ok && be.Op == token.NEQ && exprString(be.Y) == "nil" && s.Else == nil {
			ch := selChain(be.X)
			if len(ch) == 2 && ch[0] == c.recv {
				if f := c.field(ch[1], s); f.kind == "optident" {
					body := c.stmts(s.Body.List, "[]")
					return fmt.Sprintf("(match %s with Some %s' => %s | None => [] end) ++ %s", f.v, f.v, body, tail())
				}
			}
		}
		code, ge, gv := c.cond(s.Cond)
		thenS := c.stmts(s.Body.List, "[]")
		elseS := "[]"
		switch e := s.Else.(type) {
		case nil:
		case *ast.BlockStmt:
			elseS = c.stmts(e.List, "[]")
		default:
			c.fail(s, "else-if")
		}
		return guardWrap(ge, gv, fmt.Sprintf("(if %s then %s else %s) ++ %s", code, thenS, elseS, tail()))
	case *ast.RangeStmt:
		// for i, v := range x.F { if i > 0 { SEP }; BODY }
		ch := selChain(s.X)
		if len(ch) != 2 || ch[0] != c.recv {
			c.fail(s, "range over something that is not a field")
		}
		f := c.field(ch[1], s)
		var elemKind string
		switch f.kind {
		case "exprs":
			elemKind = "expr"
		case "stmts":
			elemKind = "stmt"
		case "idents":
			elemKind = "ident"
		case "props":
			elemKind = "prop"
		default:
			c.fail(s, "range over field of kind %s", f.kind)
		}
		if s.Key == nil || s.Value == nil || s.Tok != token.DEFINE {
			c.fail(s, "range form")
		}
		iv, vv := exprString(s.Key), exprString(s.Value)
		body := s.Body.List
		sep := "[]"
		if len(body) > 0 {
			if ifs, ok := body[0].(*ast.IfStmt); ok {
				// "not the first element": i > 0, i != 0, 0 < i, 0 != i (i ranges over indices)
				notFirst := func(be *ast.BinaryExpr) bool {
					x, y := exprString(be.X), exprString(be.Y)
					return (x == iv && y == "0" && (be.Op == token.GTR || be.Op == token.NEQ)) ||
						(x == "0" && y == iv && (be.Op == token.LSS || be.Op == token.NEQ))
				}
				if be, ok := ifs.Cond.(*ast.BinaryExpr); ok && notFirst(be) && ifs.Else == nil {
					sep = c.stmts(ifs.Body.List, "[]")
					body = body[1:]
				}
			}
		}
		c.locals[vv] = elemKind
		b := c.stmts(body, "[]")
		delete(c.locals, vv)
		return fmt.Sprintf("(sep_map (%s) (fun %s => %s) %s) ++ %s", sep, vv, b, f.v, tail())
	}
	if fs, ok := list[0].(*ast.ForStmt); ok {
		// for i := 0; i < len(X); i++ { v := X[i]; BODY }  =  for i, v := range X { BODY }
		if r := indexLoopAsRange(fs); r != nil {
			return c.stmts(append([]ast.Stmt{r}, list[1:]...), rest)
		}
	}
	c.fail(list[0], "unsupported statement %T", list[0])
	return ""
}

// indexLoopAsRange recognises the index loop over a slice whose body starts by binding
// the element, and returns the range statement it is equivalent to (nil otherwise).
func indexLoopAsRange(fs *ast.ForStmt) *ast.RangeStmt {
	init, ok := fs.Init.(*ast.AssignStmt)
	if !ok || init.Tok != token.DEFINE || len(init.Lhs) != 1 || len(init.Rhs) != 1 || exprString(init.Rhs[0]) != "0" {
		return nil
	}
	iv := exprString(init.Lhs[0])
	cond, ok := fs.Cond.(*ast.BinaryExpr)
	if !ok || cond.Op != token.LSS || exprString(cond.X) != iv {
		return nil
	}
	ln, ok := cond.Y.(*ast.CallExpr)
	if !ok || exprString(ln.Fun) != "len" || len(ln.Args) != 1 {
		return nil
	}
	post, ok := fs.Post.(*ast.IncDecStmt)
	if !ok || post.Tok != token.INC || exprString(post.X) != iv {
		return nil
	}
	if len(fs.Body.List) == 0 {
		return nil
	}
	bind, ok := fs.Body.List[0].(*ast.AssignStmt)
	var ix *ast.IndexExpr
	if ok && bind.Tok == token.DEFINE && len(bind.Lhs) == 1 && len(bind.Rhs) == 1 {
		ix, _ = bind.Rhs[0].(*ast.IndexExpr)
	}
	if ix == nil || exprString(ix.X) != exprString(ln.Args[0]) || exprString(ix.Index) != iv {
		// no element binding: X[i] is used in place; give the element a name
		elem := &ast.Ident{Name: "elem_" + iv}
		indexRepl = &indexPattern{x: exprString(ln.Args[0]), i: iv, by: elem}
		body := cloneSubst(reflect.ValueOf(fs.Body.List), nil).Interface().([]ast.Stmt)
		indexRepl = nil
		mentions := false
		for _, st := range body {
			ast.Inspect(st, func(n ast.Node) bool {
				if id, ok := n.(*ast.Ident); ok && id.Name == elem.Name {
					mentions = true
				}
				return true
			})
		}
		if !mentions {
			return nil
		}
		fs = &ast.ForStmt{For: fs.For, Init: fs.Init, Cond: fs.Cond, Post: fs.Post, Body: &ast.BlockStmt{List: append([]ast.Stmt{
			&ast.AssignStmt{Lhs: []ast.Expr{elem}, Tok: token.DEFINE, Rhs: []ast.Expr{&ast.IndexExpr{X: ln.Args[0], Index: init.Lhs[0]}}}}, body...)}}
		bind = fs.Body.List[0].(*ast.AssignStmt)
	}
	for _, st := range fs.Body.List[1:] {
		bad := false
		ast.Inspect(st, func(n ast.Node) bool {
			switch t := n.(type) {
			case *ast.AssignStmt:
				for _, l := range t.Lhs {
					if exprString(l) == iv {
						bad = true
					}
				}
			case *ast.IncDecStmt:
				if exprString(t.X) == iv {
					bad = true
				}
			case *ast.BranchStmt:
				bad = true
			}
			return true
		})
		if bad {
			return nil
		}
	}
	return &ast.RangeStmt{Key: init.Lhs[0], Value: bind.Lhs[0], Tok: token.DEFINE, X: ln.Args[0],
		Body: &ast.BlockStmt{List: fs.Body.List[1:]}, For: fs.For}
}

func (n *nodeInfo) pattern() string {
	var vs []string
	for _, f := range n.fields {
		vs = append(vs, f.v)
	}
	return n.ctor + " " + strings.Join(vs, " ")
}

func genPrinter(env *constEnv, as *pkgInfo) string {
	var b strings.Builder
	b.WriteString("(* GENERATED by /verif/translator (xjs2v) from /repo/ast/ast.go -- do not edit. *)\n")
	b.WriteString("Require Import Base GoOps Token Tree Writer PrinterLib.\nRequire Import Gen.Tables.\n\n")

	// Precedence()
	precOf := func(n *nodeInfo) string {
		fd := findFunc(as, n.goType, "Precedence")
		if fd == nil {
			die("ast.%s has no Precedence method", n.goType)
		}
		if len(fd.Body.List) != 1 {
			die("%s: Precedence body is not a single return", as.pos(fd))
		}
		ret, ok := fd.Body.List[0].(*ast.ReturnStmt)
		if !ok || len(ret.Results) != 1 {
			die("%s: Precedence body is not a single return", as.pos(fd))
		}
		if q, ok := env.constName("ast", ret.Results[0]); ok {
			return coqConst(q)
		}
		if call, ok := ret.Results[0].(*ast.CallExpr); ok && exprString(call.Fun) == "operatorPrecedence" && len(call.Args) == 1 {
			recv := fd.Recv.List[0].Names[0].Name
			ch := selChain(call.Args[0])
			if len(ch) == 3 && ch[0] == recv && ch[1] == "Token" && ch[2] == "Type" {
				return "operator_precedence (t_type t)"
			}
		}
		die("%s: unsupported Precedence body", as.pos(fd))
		return ""
	}
	b.WriteString("Definition prec_opt (x : expr) : option Z :=\n  match x with\n  | ENil => None\n")
	checkStruct(as, &identNode)
	fmt.Fprintf(&b, "  | EIdent i => Some (%s)\n", precOf(&identNode))
	for i := range nodes {
		n := &nodes[i]
		checkStruct(as, n)
		if !n.isExpr {
			continue
		}
		var vs []string
		for _, f := range n.fields {
			if f.goName == "Token" {
				vs = append(vs, "t")
			} else {
				vs = append(vs, "_")
			}
		}
		fmt.Fprintf(&b, "  | %s %s => Some (%s)\n", n.ctor, strings.Join(vs, " "), precOf(n))
	}
	b.WriteString("  end.\n\n")

	body := func(n *nodeInfo) string {
		fd := findFunc(as, n.goType, "WriteTo")
		if fd == nil {
			die("ast.%s has no WriteTo method", n.goType)
		}
		c := &prCtx{p: as, env: env, node: n, recv: fd.Recv.List[0].Names[0].Name, locals: map[string]string{}}
		return c.stmts(fd.Body.List, "[]")
	}

	fmt.Fprintf(&b, "Definition write_ident (i : ident) : list wop :=\n  %s.\n\n", body(&identNode))

	b.WriteString("Fixpoint write_expr (x : expr) : list wop :=\n  match x with\n  | ENil => [WPanic]\n  | EIdent i => write_ident i\n")
	for i := range nodes {
		n := &nodes[i]
		if !n.isExpr {
			continue
		}
		s := body(n)
		if strings.Contains(s, "self_prec") {
			s = fmt.Sprintf("let self_prec := match prec_opt x with Some v => v | None => 0 end in %s", s)
		}
		fmt.Fprintf(&b, "  | %s =>\n      %s\n", n.pattern(), s)
	}
	b.WriteString("  end\nwith write_stmt (x : stmt) : list wop :=\n  match x with\n  | SNil => [WPanic]\n")
	for i := range nodes {
		n := &nodes[i]
		if n.isExpr {
			continue
		}
		fmt.Fprintf(&b, "  | %s =>\n      %s\n", n.pattern(), body(n))
	}
	b.WriteString("  end.\n\n")

	checkStruct(as, &programNode)
	fmt.Fprintf(&b, "Definition write_program (p : program) : list wop :=\n  %s.\n", body(&programNode))

	// every struct type of package ast with a WriteTo method must be in the table
	known := map[string]bool{"Identifier": true, "Program": true}
	for _, n := range nodes {
		known[n.goType] = true
	}
	for _, f := range as.sortedFiles() {
		for _, d := range f.Decls {
			if fd, ok := d.(*ast.FuncDecl); ok && fd.Name.Name == "WriteTo" && fd.Recv != nil {
				r := strings.TrimPrefix(exprString(fd.Recv.List[0].Type), "*")
				if !known[r] {
					die("%s: node type %s is not in the tree model", as.pos(fd), r)
				}
			}
		}
	}
	return b.String()
}
