package main

import (
	"fmt"
	"go/ast"
	"go/token"
	"strconv"
	"strings"
)

// Translation of small pure Go functions over bytes and ints into Gallina
// (bytes are N, ints are Z; helper operations live in coq/GoOps.v).

type trCtx struct {
	p    *pkgInfo
	env  *constEnv
	pkg  string
	vars map[string]string // variable -> "byte" | "int" | "bool"
	sigs map[string]predSig
	out  []string
}

func goType(x ast.Expr) string {
	switch exprString(x) {
	case "byte":
		return "byte"
	case "int":
		return "int"
	case "bool":
		return "bool"
	case "[]byte":
		return "bytes"
	}
	return ""
}

func coqType(t string) string {
	switch t {
	case "byte":
		return "N"
	case "int":
		return "Z"
	case "bool":
		return "bool"
	case "bytes":
		return "list N"
	}
	return "?"
}

func (c *trCtx) fail(n ast.Node, format string, a ...any) {
	die("%s: %s", c.p.pos(n), fmt.Sprintf(format, a...))
}

func isUntypedLit(x ast.Expr) bool {
	switch t := x.(type) {
	case *ast.BasicLit:
		return true
	case *ast.ParenExpr:
		return isUntypedLit(t.X)
	}
	return false
}

func lit(n int64, typ string) string {
	if typ == "byte" {
		return fmt.Sprintf("%d%%N", n)
	}
	if n < 0 {
		return fmt.Sprintf("(%d)", n)
	}
	return fmt.Sprintf("%d", n)
}

// expr translates x; want is the expected type for untyped literals ("" = unknown).
func (c *trCtx) expr(x ast.Expr, want string) (string, string) {
	switch t := x.(type) {
	case *ast.ParenExpr:
		s, ty := c.expr(t.X, want)
		return "(" + s + ")", ty
	case *ast.BasicLit:
		var n int64
		switch t.Kind {
		case token.INT:
			v, err := strconv.ParseInt(t.Value, 0, 64)
			if err != nil {
				c.fail(x, "%v", err)
			}
			n = v
		case token.CHAR:
			s, err := strconv.Unquote(t.Value)
			if err != nil || len([]rune(s)) != 1 {
				c.fail(x, "bad char literal")
			}
			n = int64([]rune(s)[0])
		default:
			c.fail(x, "unsupported literal")
		}
		ty := want
		if ty != "byte" && ty != "int" {
			ty = "int"
		}
		return lit(n, ty), ty
	case *ast.Ident:
		if ty, ok := c.vars[t.Name]; ok {
			return t.Name, ty
		}
		if t.Name == "true" || t.Name == "false" {
			return t.Name, "bool"
		}
		if v, ok := c.env.ints[c.pkg+"."+t.Name]; ok { // a named constant of the package
			ty := want
			if ty != "byte" && ty != "int" {
				ty = "int"
			}
			return lit(v, ty), ty
		}
		c.fail(x, "unknown identifier %s", t.Name)
	case *ast.CallExpr:
		fn := exprString(t.Fun)
		if len(t.Args) == 1 && fn == "byte" {
			s, ty := c.expr(t.Args[0], "int")
			if ty == "byte" {
				return s, "byte"
			}
			return "(byte_of_Z " + s + ")", "byte"
		}
		if len(t.Args) == 1 && fn == "int" {
			s, ty := c.expr(t.Args[0], "byte")
			if ty == "int" {
				return s, "int"
			}
			return "(Z.of_N " + s + ")", "int"
		}
		// a call of another function of the package that is itself in the fragment: it is
		// translated first (once) and called
		if id, ok := t.Fun.(*ast.Ident); ok && findFunc(c.p, "", id.Name) != nil {
			sig := c.ensure(id.Name)
			if len(sig.params) != len(t.Args) {
				c.fail(x, "call of %s with %d arguments", fn, len(t.Args))
			}
			parts := []string{id.Name}
			for i, a := range t.Args {
				s, ty := c.expr(a, sig.params[i])
				if ty != sig.params[i] {
					c.fail(a, "argument %d of %s is %s, expected %s", i+1, fn, ty, sig.params[i])
				}
				parts = append(parts, s)
			}
			return "(" + strings.Join(parts, " ") + ")", sig.ret
		}
		c.fail(x, "unsupported call %s", fn)
	case *ast.UnaryExpr:
		if t.Op == token.NOT {
			s, _ := c.expr(t.X, "bool")
			return "(negb " + s + ")", "bool"
		}
		c.fail(x, "unsupported unary operator %s", t.Op)
	case *ast.BinaryExpr:
		switch t.Op {
		case token.LAND, token.LOR:
			a, _ := c.expr(t.X, "bool")
			b, _ := c.expr(t.Y, "bool")
			op := "&&"
			if t.Op == token.LOR {
				op = "||"
			}
			return "(" + a + " " + op + " " + b + ")", "bool"
		}
		// operand types: a typed operand decides the type of an untyped literal
		var a, b, ty string
		if isUntypedLit(t.X) && !isUntypedLit(t.Y) {
			b, ty = c.expr(t.Y, want)
			a, _ = c.expr(t.X, ty)
		} else {
			a, ty = c.expr(t.X, want)
			var ty2 string
			b, ty2 = c.expr(t.Y, ty)
			if ty2 != ty && !(t.Op == token.SHL || t.Op == token.SHR) {
				c.fail(x, "operand types differ: %s vs %s", ty, ty2)
			}
		}
		mod := "Z"
		if ty == "byte" {
			mod = "N"
		}
		cmp := func(f string, swap bool) (string, string) {
			if swap {
				a, b = b, a
			}
			return fmt.Sprintf("(%s.%s %s %s)", mod, f, a, b), "bool"
		}
		switch t.Op {
		case token.EQL:
			return cmp("eqb", false)
		case token.NEQ:
			s, _ := cmp("eqb", false)
			return "(negb " + s + ")", "bool"
		case token.LEQ:
			return cmp("leb", false)
		case token.LSS:
			return cmp("ltb", false)
		case token.GEQ:
			return cmp("leb", true)
		case token.GTR:
			return cmp("ltb", true)
		}
		if ty == "byte" {
			switch t.Op {
			case token.ADD:
				return fmt.Sprintf("(badd %s %s)", a, b), ty
			case token.SUB:
				return fmt.Sprintf("(bsub %s %s)", a, b), ty
			case token.OR:
				return fmt.Sprintf("(N.lor %s %s)", a, b), ty
			case token.AND:
				return fmt.Sprintf("(N.land %s %s)", a, b), ty
			}
		} else {
			switch t.Op {
			case token.ADD:
				return fmt.Sprintf("(%s + %s)", a, b), ty
			case token.SUB:
				return fmt.Sprintf("(%s - %s)", a, b), ty
			case token.MUL:
				return fmt.Sprintf("(%s * %s)", a, b), ty
			case token.OR:
				return fmt.Sprintf("(Z.lor %s %s)", a, b), ty
			case token.AND:
				return fmt.Sprintf("(Z.land %s %s)", a, b), ty
			case token.SHR:
				return fmt.Sprintf("(Z.shiftr %s %s)", a, b), ty
			case token.SHL:
				return fmt.Sprintf("(Z.shiftl %s %s)", a, b), ty
			}
		}
		c.fail(x, "unsupported operator %s on %s", t.Op, ty)
	case *ast.CompositeLit:
		if goType(t.Type) != "bytes" {
			c.fail(x, "unsupported composite literal")
		}
		var els []string
		for _, e := range t.Elts {
			s, ty := c.expr(e, "byte")
			if ty != "byte" {
				c.fail(e, "element is not a byte")
			}
			els = append(els, s)
		}
		return "[" + strings.Join(els, "; ") + "]", "bytes"
	}
	c.fail(x, "unsupported expression %T", x)
	return "", ""
}

// body translates a statement list that ends in a return on every path.
func (c *trCtx) body(stmts []ast.Stmt, ret string, at ast.Node) string {
	if len(stmts) == 0 {
		c.fail(at, "control reaches the end of the function")
	}
	switch s := stmts[0].(type) {
	case *ast.ReturnStmt:
		if len(s.Results) != 1 {
			c.fail(s, "return with %d results", len(s.Results))
		}
		e, ty := c.expr(s.Results[0], ret)
		if ty != ret {
			c.fail(s, "returns %s, expected %s", ty, ret)
		}
		return e
	case *ast.IfStmt:
		if s.Init != nil {
			c.fail(s, "if with init statement")
		}
		cond, _ := c.expr(s.Cond, "bool")
		thenS := c.body(s.Body.List, ret, s)
		var elseS string
		switch e := s.Else.(type) {
		case nil:
			elseS = c.body(stmts[1:], ret, s)
		case *ast.BlockStmt:
			if len(stmts) > 1 {
				// if/else where some branch falls through to the rest
				elseS = c.body(append(append([]ast.Stmt{}, e.List...), stmts[1:]...), ret, s)
			} else {
				elseS = c.body(e.List, ret, s)
			}
		case *ast.IfStmt:
			elseS = c.body(append([]ast.Stmt{e}, stmts[1:]...), ret, s)
		}
		return fmt.Sprintf("if %s then %s\n  else %s", cond, thenS, elseS)
	}
	if sw, ok := stmts[0].(*ast.SwitchStmt); ok && sw.Init == nil {
		// switch [tag] { case a, b: BODY ... default: BODY }; no fallthrough in the fragment:
		// rewritten as the if/else-if chain it abbreviates (a body that does not return
		// continues with the statements after the switch)
		var chain ast.Stmt
		var deflt []ast.Stmt
		hasDefault := false
		var clauses []*ast.CaseClause
		for _, st := range sw.Body.List {
			cc := st.(*ast.CaseClause)
			for _, b := range cc.Body {
				if br, ok := b.(*ast.BranchStmt); ok {
					c.fail(br, "branch statement in switch")
				}
			}
			if cc.List == nil {
				hasDefault = true
				deflt = cc.Body
				continue
			}
			clauses = append(clauses, cc)
		}
		var tail []ast.Stmt
		if hasDefault {
			tail = append(append([]ast.Stmt{}, deflt...), stmts[1:]...)
		} else {
			tail = stmts[1:]
		}
		var prev *ast.IfStmt
		for _, cc := range clauses {
			var cond ast.Expr
			for _, x := range cc.List {
				var t ast.Expr = x
				if sw.Tag != nil {
					t = &ast.BinaryExpr{X: sw.Tag, Op: token.EQL, Y: x}
				}
				if cond == nil {
					cond = t
				} else {
					cond = &ast.BinaryExpr{X: cond, Op: token.LOR, Y: t}
				}
			}
			ifs := &ast.IfStmt{Cond: cond, Body: &ast.BlockStmt{List: cc.Body}}
			if prev == nil {
				chain = ifs
			} else {
				prev.Else = ifs
			}
			prev = ifs
		}
		if chain == nil {
			return c.body(tail, ret, at)
		}
		return c.body(append([]ast.Stmt{chain}, tail...), ret, at)
	}
	c.fail(stmts[0], "unsupported statement %T", stmts[0])
	return ""
}

type predSig struct {
	params []string
	ret    string
}

// ensure translates a function of the package once (its callees first) and returns its
// signature; the definitions are collected in c.out in dependency order.
func (c *trCtx) ensure(name string) predSig {
	if sig, ok := c.sigs[name]; ok {
		if sig.ret == "" {
			die("%s.%s is recursive", c.pkg, name)
		}
		return sig
	}
	if c.sigs == nil {
		c.sigs = map[string]predSig{}
	}
	c.sigs[name] = predSig{} // in progress
	saved := c.vars
	fd := findFunc(c.p, "", name)
	if fd == nil {
		die("%s.%s not found", c.pkg, name)
	}
	c.vars = map[string]string{}
	var params []string
	var sig predSig
	for _, f := range fd.Type.Params.List {
		ty := goType(f.Type)
		if ty == "" {
			c.fail(f, "unsupported parameter type")
		}
		for _, n := range f.Names {
			c.vars[n.Name] = ty
			sig.params = append(sig.params, ty)
			params = append(params, fmt.Sprintf("(%s : %s)", n.Name, coqType(ty)))
		}
	}
	if fd.Type.Results == nil || len(fd.Type.Results.List) != 1 {
		c.fail(fd, "expected one result")
	}
	sig.ret = goType(fd.Type.Results.List[0].Type)
	if sig.ret == "" {
		c.fail(fd, "unsupported result type")
	}
	body := c.body(fd.Body.List, sig.ret, fd)
	c.out = append(c.out, fmt.Sprintf("Definition %s %s : %s :=\n  %s.\n\n", name, strings.Join(params, " "), coqType(sig.ret), body))
	c.sigs[name] = sig
	c.vars = saved
	return sig
}

func genPreds(env *constEnv, lex *pkgInfo) string {
	var b strings.Builder
	b.WriteString("(* GENERATED by /verif/translator (xjs2v) from /repo/lexer -- do not edit. *)\n")
	b.WriteString("Require Import Base GoOps.\n\n")
	c := &trCtx{p: lex, env: env, pkg: "lexer"}
	for _, n := range []string{"isWhitespace", "isLetter", "isDigit", "isBinaryDigit", "isOctalDigit", "isHexDigit",
		"hexDigitValue", "encodeUTF8", "mustStayEscaped"} {
		c.ensure(n)
	}
	for _, d := range c.out {
		b.WriteString(d)
	}
	return b.String()
}
