package main

func genEffects(pkgs []*pkgInfo) string {
	return "(* GENERATED stub *)\n"
}
