package main
