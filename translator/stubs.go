package main

func genPreds(env *constEnv, lex *pkgInfo) string {
	return "(* GENERATED stub *)\n"
}
func genPrinter(env *constEnv, as *pkgInfo) string {
	return "(* GENERATED stub *)\n"
}
func genEffects(pkgs []*pkgInfo) string {
	return "(* GENERATED stub *)\n"
}
