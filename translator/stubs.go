package main

func genPrinter(env *constEnv, as *pkgInfo) string {
	return "(* GENERATED stub *)\n"
}
func genEffects(pkgs []*pkgInfo) string {
	return "(* GENERATED stub *)\n"
}
