package main

