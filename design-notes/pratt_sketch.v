(* DESIGN-TIME FEASIBILITY SKETCH — not part of the verification framework.
   A miniature of the xjs Pratt loop (binary levels, binary/unary minus,
   postfix ++, grouping, right-associative assignment) and the completeness
   lemma that section 5.2 / appendix A of DESIGN.md relies on.  It exists to
   pin down the right induction hypothesis and the fuel discipline before the
   real model is written.  Checked with: coqc pratt_sketch.v *)
From Coq Require Import List Arith Lia Bool.
Import ListNotations.
Arguments Nat.ltb : simpl never.   (* lesson: keep comparisons folded under cbn *)

Inductive tok := TNum (n : nat) | TBin (lvl id : nat) | TMinus | TInc | TLP | TRP | TAsg.

Inductive expr :=
| ENum (n : nat) | EBin (lvl id : nat) (a b : expr) | ESub (a b : expr)
| ENeg (a : expr) | EPost (a : expr) | EGroup (a : expr) | EAsg (a b : expr).

Definition bp (t : tok) : nat :=
  match t with TBin l _ => l | TMinus => 7 | TInc => 10 | TAsg => 2 | _ => 0 end.

Definition res := (expr * list tok)%type.

(* the parser, recursion on fuel exactly as the real model will do it *)
Fixpoint pexpr (f prec : nat) (ts : list tok) : option res :=
  match f with 0 => None | S f =>
    match pprefix f ts with
    | Some (l, ts1) => ploop f prec l ts1
    | None => None end end
with pprefix (f : nat) (ts : list tok) : option res :=
  match f with 0 => None | S f =>
    match ts with
    | TNum n :: r => Some (ENum n, r)
    | TMinus :: r => match pexpr f 9 r with Some (e, r') => Some (ENeg e, r') | None => None end
    | TLP :: r => match pexpr f 1 r with Some (e, TRP :: r') => Some (EGroup e, r') | _ => None end
    | _ => None end end
with ploop (f prec : nat) (left : expr) (ts : list tok) : option res :=
  match f with 0 => None | S f =>
    match ts with
    | t :: r =>
      if prec <? bp t then
        match t with
        | TBin l i => match pexpr f l r with Some (e, r') => ploop f prec (EBin l i left e) r' | None => None end
        | TMinus => match pexpr f 7 r with Some (e, r') => ploop f prec (ESub left e) r' | None => None end
        | TInc => ploop f prec (EPost left) r
        | TAsg => match pexpr f 1 r with Some (e, r') => ploop f prec (EAsg left e) r' | None => None end
        | _ => Some (left, ts)
        end
      else Some (left, ts)
    | [] => Some (left, ts) end end.

(* --- fuel monotonicity ------------------------------------------------- *)
Lemma mono : forall f,
  (forall prec ts r, pexpr f prec ts = Some r -> forall f', f <= f' -> pexpr f' prec ts = Some r) /\
  (forall ts r, pprefix f ts = Some r -> forall f', f <= f' -> pprefix f' ts = Some r) /\
  (forall prec l ts r, ploop f prec l ts = Some r -> forall f', f <= f' -> ploop f' prec l ts = Some r).
Proof.
  induction f as [|f [IHe [IHp IHl]]]; [repeat split; intros; discriminate|].
  repeat split.
  - intros prec ts r H f' Hf. destruct f' as [|f']; [lia|]. cbn in *.
    destruct (pprefix f ts) as [[l ts1]|] eqn:E; [|discriminate].
    rewrite (IHp _ _ E f') by lia. apply IHl with (f' := f') in H; [exact H|lia].
  - intros ts r H f' Hf. destruct f' as [|f']; [lia|]. cbn in *.
    destruct ts as [|t ts]; [discriminate|]. destruct t; try discriminate; try exact H.
    + destruct (pexpr f 9 ts) as [[e r']|] eqn:E; [|discriminate].
      rewrite (IHe _ _ _ E f') by lia. exact H.
    + destruct (pexpr f 1 ts) as [[e r']|] eqn:E; [|discriminate].
      rewrite (IHe _ _ _ E f') by lia. exact H.
  - intros prec l ts r H f' Hf. destruct f' as [|f']; [lia|]. cbn in *.
    destruct ts as [|t ts]; [exact H|]. destruct (prec <? bp t); [|exact H].
    destruct t; try exact H.
    + destruct (pexpr f lvl ts) as [[e r']|] eqn:E; [|discriminate].
      rewrite (IHe _ _ _ E f') by lia. apply IHl with (f' := f') in H; [exact H|lia].
    + destruct (pexpr f 7 ts) as [[e r']|] eqn:E; [|discriminate].
      rewrite (IHe _ _ _ E f') by lia. apply IHl with (f' := f') in H; [exact H|lia].
    + apply IHl with (f' := f') in H; [exact H|lia].
    + destruct (pexpr f 1 ts) as [[e r']|] eqn:E; [|discriminate].
      rewrite (IHe _ _ _ E f') by lia. apply IHl with (f' := f') in H; [exact H|lia].
Qed.

(* big-step views: "some fuel suffices" *)
Definition Pexpr prec ts r := exists f, pexpr f prec ts = Some r.
Definition Pprefix ts r := exists f, pprefix f ts = Some r.
Definition Ploop prec l ts r := exists f, ploop f prec l ts = Some r.

Lemma Pexpr_intro prec ts l ts1 r : Pprefix ts (l, ts1) -> Ploop prec l ts1 r -> Pexpr prec ts r.
Proof.
  intros [f1 H1] [f2 H2]. exists (S (max f1 f2)). cbn.
  rewrite (proj1 (proj2 (mono f1)) _ _ H1 (max f1 f2)) by lia.
  apply (proj2 (proj2 (mono f2)) _ _ _ _ H2); lia.
Qed.

Lemma Ploop_stop prec l ts : match ts with [] => True | t :: _ => bp t <= prec end -> Ploop prec l ts (l, ts).
Proof.
  intros H. exists 1. cbn. destruct ts as [|t r]; [reflexivity|].
  destruct (Nat.ltb_spec prec (bp t)); [lia|reflexivity].
Qed.

Lemma Ploop_bin prec l lvl i ts e r' r :
  prec < lvl -> Pexpr lvl ts (e, r') -> Ploop prec (EBin lvl i l e) r' r -> Ploop prec l (TBin lvl i :: ts) r.
Proof.
  intros Hp [f1 H1] [f2 H2]. exists (S (max f1 f2)). cbn.
  destruct (Nat.ltb_spec prec lvl); [|lia].
  rewrite (proj1 (mono f1) _ _ _ H1 (max f1 f2)) by lia.
  apply (proj2 (proj2 (mono f2)) _ _ _ _ H2); lia.
Qed.

Lemma Ploop_sub prec l ts e r' r :
  prec < 7 -> Pexpr 7 ts (e, r') -> Ploop prec (ESub l e) r' r -> Ploop prec l (TMinus :: ts) r.
Proof.
  intros Hp [f1 H1] [f2 H2]. exists (S (max f1 f2)). cbn.
  destruct (Nat.ltb_spec prec 7); [|lia].
  rewrite (proj1 (mono f1) _ _ _ H1 (max f1 f2)) by lia.
  apply (proj2 (proj2 (mono f2)) _ _ _ _ H2); lia.
Qed.

Lemma Ploop_inc prec l ts r : prec < 10 -> Ploop prec (EPost l) ts r -> Ploop prec l (TInc :: ts) r.
Proof.
  intros Hp [f H]. exists (S f). cbn. destruct (Nat.ltb_spec prec 10); [exact H|lia].
Qed.

Lemma Ploop_asg prec l ts e r' r :
  prec < 2 -> Pexpr 1 ts (e, r') -> Ploop prec (EAsg l e) r' r -> Ploop prec l (TAsg :: ts) r.
Proof.
  intros Hp [f1 H1] [f2 H2]. exists (S (max f1 f2)). cbn.
  destruct (Nat.ltb_spec prec 2); [|lia].
  rewrite (proj1 (mono f1) _ _ _ H1 (max f1 f2)) by lia.
  apply (proj2 (proj2 (mono f2)) _ _ _ _ H2); lia.
Qed.

Lemma Pprefix_num n r : Pprefix (TNum n :: r) (ENum n, r).
Proof. exists 1. reflexivity. Qed.
Lemma Pprefix_neg ts e r : Pexpr 9 ts (e, r) -> Pprefix (TMinus :: ts) (ENeg e, r).
Proof. intros [f H]. exists (S f). cbn. rewrite H. reflexivity. Qed.
Lemma Pprefix_grp ts e r : Pexpr 1 ts (e, TRP :: r) -> Pprefix (TLP :: ts) (EGroup e, r).
Proof. intros [f H]. exists (S f). cbn. rewrite H. reflexivity. Qed.

(* --- the specification side: an unparser and a level discipline -------- *)
Fixpoint toks (e : expr) : list tok :=
  match e with
  | ENum n => [TNum n]
  | EBin l i a b => toks a ++ TBin l i :: toks b
  | ESub a b => toks a ++ TMinus :: toks b
  | ENeg a => TMinus :: toks a
  | EPost a => toks a ++ [TInc]
  | EGroup a => TLP :: toks a ++ [TRP]
  | EAsg a b => toks a ++ TAsg :: toks b
  end.

Definition INF := 100.
(* the loop must be entered below this level for the root to be consumed *)
Definition need (e : expr) : nat :=
  match e with EBin l _ _ _ => l | ESub _ _ => 7 | EPost _ => 10 | EAsg _ _ => 2 | _ => INF end.
(* the token following e must not bind tighter than this *)
Definition follow (e : expr) : nat :=
  match e with EBin l _ _ _ => l | ESub _ _ => 7 | ENeg _ => 9 | EAsg _ _ => 1 | _ => INF end.

Fixpoint ok (e : expr) : Prop :=
  match e with
  | ENum _ => True
  | EBin l _ a b => 3 <= l <= 8 /\ l <= need a /\ l <= follow a /\ l < need b /\ l <= follow b /\ ok a /\ ok b
  | ESub a b => 7 <= need a /\ 7 <= follow a /\ 7 < need b /\ 7 <= follow b /\ ok a /\ ok b
  | ENeg a => 9 < need a /\ ok a
  | EPost a => 10 <= need a /\ 10 <= follow a /\ ok a
  | EGroup a => ok a
  | EAsg a b => 2 <= need a /\ 2 <= follow a /\ ok a /\ ok b
  end.

Definition follow_ok (e : expr) (rest : list tok) : Prop :=
  match rest with [] => True | t :: _ => bp t <= follow e end.

Lemma need_ge2 e : ok e -> 2 <= need e.
Proof. destruct e; cbn; unfold INF; intros; lia. Qed.

(* THE HUB LEMMA (expression fragment): whatever the loop would do after
   having built e, parsing e's tokens from scratch does the same. *)
Lemma complete : forall e, ok e -> forall prec rest r,
  prec < need e -> follow_ok e rest ->
  Ploop prec e rest r -> Pexpr prec (toks e ++ rest) r.
Proof.
  induction e as [n|l i a IHa b IHb|a IHa b IHb|a IHa|a IHa|a IHa|a IHa b IHb];
    cbn [ok toks]; intros Hok prec rest r Hp Hf HL.
  - eapply Pexpr_intro; [apply Pprefix_num|exact HL].
  - destruct Hok as (Hl & Hna & Hfa & Hnb & Hfb & Hoa & Hob). cbn in Hp.
    rewrite <- app_assoc. cbn [app]. apply IHa; [exact Hoa|lia|cbn; lia|].
    apply Ploop_bin with (e := b) (r' := rest); [lia| |exact HL].
    apply IHb; [exact Hob|lia| |].
    + destruct rest as [|t rest]; cbn in *; [exact I|lia].
    + apply Ploop_stop. destruct rest as [|t rest]; cbn in *; [exact I|lia].
  - destruct Hok as (Hna & Hfa & Hnb & Hfb & Hoa & Hob). cbn in Hp.
    rewrite <- app_assoc. cbn [app]. apply IHa; [exact Hoa|lia|cbn; lia|].
    apply Ploop_sub with (e := b) (r' := rest); [lia| |exact HL].
    apply IHb; [exact Hob|lia| |].
    + destruct rest as [|t rest]; cbn in *; [exact I|lia].
    + apply Ploop_stop. destruct rest as [|t rest]; cbn in *; [exact I|lia].
  - destruct Hok as (Hna & Hoa). eapply Pexpr_intro; [|exact HL].
    apply Pprefix_neg. apply IHa; [exact Hoa|lia| |].
    + destruct rest as [|t rest]; cbn in *; [exact I|].
      (* follow (ENeg a) = 9 <= follow a because need a > 9 *)
      destruct a; cbn in *; unfold INF in *; lia.
    + apply Ploop_stop. destruct rest as [|t rest]; cbn in *; [exact I|lia].
  - destruct Hok as (Hna & Hfa & Hoa). cbn in Hp.
    rewrite <- app_assoc. cbn [app]. apply IHa; [exact Hoa|lia|cbn; lia|].
    apply Ploop_inc; [lia|exact HL].
  - eapply Pexpr_intro; [|exact HL].
    cbn [app]. apply Pprefix_grp. rewrite <- app_assoc. cbn [app].
    apply IHa; [exact Hok|pose proof (need_ge2 a Hok); lia|cbn; lia|].
    apply Ploop_stop. cbn. lia.
  - destruct Hok as (Hna & Hfa & Hoa & Hob). cbn in Hp.
    rewrite <- app_assoc. cbn [app]. apply IHa; [exact Hoa|lia|cbn; lia|].
    apply Ploop_asg with (e := b) (r' := rest); [lia| |exact HL].
    apply IHb; [exact Hob|pose proof (need_ge2 b Hob); lia| |].
    + destruct rest as [|t rest]; cbn in *; [exact I|].
      destruct b; cbn in *; unfold INF in *; lia.
    + apply Ploop_stop. destruct rest as [|t rest]; cbn in *; [exact I|lia].
Qed.

Theorem parse_unparse : forall e, ok e -> exists f, pexpr f 1 (toks e) = Some (e, []).
Proof.
  intros e Hok. rewrite <- (app_nil_r (toks e)).
  apply complete; [exact Hok|pose proof (need_ge2 e Hok); lia|exact I|apply Ploop_stop; exact I].
Qed.

(* non-vacuity: 1 + 2 * -3 - (4 = 5)++ *)
Example ex1 : ok (ESub (EBin 7 0 (ENum 1) (EBin 8 1 (ENum 2) (ENeg (ENum 3)))) (EPost (EGroup (EAsg (ENum 4) (ENum 5))))).
Proof. cbn; unfold INF; repeat split; lia. Qed.
Print Assumptions parse_unparse.
